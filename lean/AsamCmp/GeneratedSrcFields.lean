/- GENERATED on every run by vlib/srcfields.py + vlib/srcdeep.py from the typed clang AST of /repo/src/*.cpp and the API glue of
   vlib/layout.py — do not edit. -/
import AsamCmp.Src.FieldCheck
namespace AsamCmp.SrcGen
open AsamCmp AsamCmp.Src.Bit

/-- bit program of `ASAM::CMP::AnalogPayload::Header::getFlags` (val result) -/
def AnalogPayload_Header_getFlags_prog  : List Op × Nat :=
  ([.rd 0 2, .const 65280, .band 0 1, .sshr 32 2 8, .const 255, .band 0 4, .sshl 32 5 8, .bor 3 6, .trunc 16 7], 8)

/-- bit program of `ASAM::CMP::AnalogPayload::Header::getSampleDt` (val result) -/
def AnalogPayload_Header_getSampleDt_prog  : List Op × Nat :=
  ([.rd 0 2, .const 768, .trunc 16 1, .band 0 2, .trunc 16 3], 4)

/-- bit program of `ASAM::CMP::AnalogPayload::Header::getSampleInterval` (val result) -/
def AnalogPayload_Header_getSampleInterval_prog  : List Op × Nat :=
  ([.rd 4 4, .const 0, .ushr 32 0 24, .trunc 8 2, .trunc 8 3, .const 4294967040, .band 1 5, .bor 6 4, .ushr 32 0 16, .trunc 8 8, .trunc 8 9, .ushl 32 10 8, .const 4294902015, .band 7 12, .bor 13 11, .ushr 32 0 8, .trunc 8 15, .trunc 8 16, .ushl 32 17 16, .const 4278255615, .band 14 19, .bor 20 18, .trunc 8 0, .trunc 8 22, .ushl 32 23 24, .const 16777215, .band 21 25, .bor 26 24], 27)

/-- bit program of `ASAM::CMP::AnalogPayload::Header::getSampleOffset` (val result) -/
def AnalogPayload_Header_getSampleOffset_prog  : List Op × Nat :=
  ([.rd 8 4, .const 0, .ushr 32 0 24, .trunc 8 2, .trunc 8 3, .const 4294967040, .band 1 5, .bor 6 4, .ushr 32 0 16, .trunc 8 8, .trunc 8 9, .ushl 32 10 8, .const 4294902015, .band 7 12, .bor 13 11, .ushr 32 0 8, .trunc 8 15, .trunc 8 16, .ushl 32 17 16, .const 4278255615, .band 14 19, .bor 20 18, .trunc 8 0, .trunc 8 22, .ushl 32 23 24, .const 16777215, .band 21 25, .bor 26 24], 27)

/-- bit program of `ASAM::CMP::AnalogPayload::Header::getSampleScalar` (val result) -/
def AnalogPayload_Header_getSampleScalar_prog  : List Op × Nat :=
  ([.rd 12 4, .const 0, .ushr 32 0 24, .trunc 8 2, .trunc 8 3, .const 4294967040, .band 1 5, .bor 6 4, .ushr 32 0 16, .trunc 8 8, .trunc 8 9, .ushl 32 10 8, .const 4294902015, .band 7 12, .bor 13 11, .ushr 32 0 8, .trunc 8 15, .trunc 8 16, .ushl 32 17 16, .const 4278255615, .band 14 19, .bor 20 18, .trunc 8 0, .trunc 8 22, .ushl 32 23 24, .const 16777215, .band 21 25, .bor 26 24], 27)

/-- bit program of `ASAM::CMP::AnalogPayload::Header::getUnit` (val result) -/
def AnalogPayload_Header_getUnit_prog  : List Op × Nat :=
  ([.rd 3 1], 0)

/-- bit program of `ASAM::CMP::AnalogPayload::Header::setFlags` (void result) -/
def AnalogPayload_Header_setFlags_prog (p_newFlags : Op) : List Op × Nat :=
  ([p_newFlags, .const 65280, .band 0 1, .sshr 32 2 8, .const 255, .band 0 4, .sshl 32 5 8, .bor 3 6, .trunc 16 7, .wr 0 2 8], 0)

/-- bit program of `ASAM::CMP::AnalogPayload::Header::setSampleDt` (void result) -/
def AnalogPayload_Header_setSampleDt_prog (p_sampleDt : Op) : List Op × Nat :=
  ([p_sampleDt, .const 768, .trunc 16 1, .bnot 32 2, .rd 0 2, .band 4 3, .trunc 16 5, .wr 0 2 6, .rd 0 2, .bor 8 0, .trunc 16 9, .wr 0 2 10], 0)

/-- bit program of `ASAM::CMP::AnalogPayload::Header::setSampleInterval` (void result) -/
def AnalogPayload_Header_setSampleInterval_prog (p_interval : Op) : List Op × Nat :=
  ([p_interval, .const 0, .ushr 32 0 24, .trunc 8 2, .trunc 8 3, .const 4294967040, .band 1 5, .bor 6 4, .ushr 32 0 16, .trunc 8 8, .trunc 8 9, .ushl 32 10 8, .const 4294902015, .band 7 12, .bor 13 11, .ushr 32 0 8, .trunc 8 15, .trunc 8 16, .ushl 32 17 16, .const 4278255615, .band 14 19, .bor 20 18, .trunc 8 0, .trunc 8 22, .ushl 32 23 24, .const 16777215, .band 21 25, .bor 26 24, .wr 4 4 27], 0)

/-- bit program of `ASAM::CMP::AnalogPayload::Header::setSampleOffset` (void result) -/
def AnalogPayload_Header_setSampleOffset_prog (p_offset : Op) : List Op × Nat :=
  ([p_offset, .const 0, .ushr 32 0 24, .trunc 8 2, .trunc 8 3, .const 4294967040, .band 1 5, .bor 6 4, .ushr 32 0 16, .trunc 8 8, .trunc 8 9, .ushl 32 10 8, .const 4294902015, .band 7 12, .bor 13 11, .ushr 32 0 8, .trunc 8 15, .trunc 8 16, .ushl 32 17 16, .const 4278255615, .band 14 19, .bor 20 18, .trunc 8 0, .trunc 8 22, .ushl 32 23 24, .const 16777215, .band 21 25, .bor 26 24, .wr 8 4 27], 0)

/-- bit program of `ASAM::CMP::AnalogPayload::Header::setSampleScalar` (void result) -/
def AnalogPayload_Header_setSampleScalar_prog (p_scalar : Op) : List Op × Nat :=
  ([p_scalar, .const 0, .ushr 32 0 24, .trunc 8 2, .trunc 8 3, .const 4294967040, .band 1 5, .bor 6 4, .ushr 32 0 16, .trunc 8 8, .trunc 8 9, .ushl 32 10 8, .const 4294902015, .band 7 12, .bor 13 11, .ushr 32 0 8, .trunc 8 15, .trunc 8 16, .ushl 32 17 16, .const 4278255615, .band 14 19, .bor 20 18, .trunc 8 0, .trunc 8 22, .ushl 32 23 24, .const 16777215, .band 21 25, .bor 26 24, .wr 12 4 27], 0)

/-- bit program of `ASAM::CMP::AnalogPayload::Header::setUnit` (void result) -/
def AnalogPayload_Header_setUnit_prog (p_newUnit : Op) : List Op × Nat :=
  ([p_newUnit, .wr 3 1 0], 0)

/-- bit program of `ASAM::CMP::AnalogPayload::getFlags` (val result) -/
def AnalogPayload_getFlags_prog  : List Op × Nat :=
  ([.rd 0 2, .const 65280, .band 0 1, .sshr 32 2 8, .const 255, .band 0 4, .sshl 32 5 8, .bor 3 6, .trunc 16 7], 8)

/-- bit program of `ASAM::CMP::AnalogPayload::getSampleDt` (val result) -/
def AnalogPayload_getSampleDt_prog  : List Op × Nat :=
  ([.rd 0 2, .const 768, .trunc 16 1, .band 0 2, .trunc 16 3], 4)

/-- bit program of `ASAM::CMP::AnalogPayload::getSampleInterval` (val result) -/
def AnalogPayload_getSampleInterval_prog  : List Op × Nat :=
  ([.rd 4 4, .const 0, .ushr 32 0 24, .trunc 8 2, .trunc 8 3, .const 4294967040, .band 1 5, .bor 6 4, .ushr 32 0 16, .trunc 8 8, .trunc 8 9, .ushl 32 10 8, .const 4294902015, .band 7 12, .bor 13 11, .ushr 32 0 8, .trunc 8 15, .trunc 8 16, .ushl 32 17 16, .const 4278255615, .band 14 19, .bor 20 18, .trunc 8 0, .trunc 8 22, .ushl 32 23 24, .const 16777215, .band 21 25, .bor 26 24], 27)

/-- bit program of `ASAM::CMP::AnalogPayload::getSampleOffset` (val result) -/
def AnalogPayload_getSampleOffset_prog  : List Op × Nat :=
  ([.rd 8 4, .const 0, .ushr 32 0 24, .trunc 8 2, .trunc 8 3, .const 4294967040, .band 1 5, .bor 6 4, .ushr 32 0 16, .trunc 8 8, .trunc 8 9, .ushl 32 10 8, .const 4294902015, .band 7 12, .bor 13 11, .ushr 32 0 8, .trunc 8 15, .trunc 8 16, .ushl 32 17 16, .const 4278255615, .band 14 19, .bor 20 18, .trunc 8 0, .trunc 8 22, .ushl 32 23 24, .const 16777215, .band 21 25, .bor 26 24], 27)

/-- bit program of `ASAM::CMP::AnalogPayload::getSampleScalar` (val result) -/
def AnalogPayload_getSampleScalar_prog  : List Op × Nat :=
  ([.rd 12 4, .const 0, .ushr 32 0 24, .trunc 8 2, .trunc 8 3, .const 4294967040, .band 1 5, .bor 6 4, .ushr 32 0 16, .trunc 8 8, .trunc 8 9, .ushl 32 10 8, .const 4294902015, .band 7 12, .bor 13 11, .ushr 32 0 8, .trunc 8 15, .trunc 8 16, .ushl 32 17 16, .const 4278255615, .band 14 19, .bor 20 18, .trunc 8 0, .trunc 8 22, .ushl 32 23 24, .const 16777215, .band 21 25, .bor 26 24], 27)

/-- bit program of `ASAM::CMP::AnalogPayload::getUnit` (val result) -/
def AnalogPayload_getUnit_prog  : List Op × Nat :=
  ([.rd 3 1], 0)

/-- bit program of `ASAM::CMP::AnalogPayload::setFlags` (void result) -/
def AnalogPayload_setFlags_prog (p_flags : Op) : List Op × Nat :=
  ([p_flags, .const 65280, .band 0 1, .sshr 32 2 8, .const 255, .band 0 4, .sshl 32 5 8, .bor 3 6, .trunc 16 7, .wr 0 2 8], 0)

/-- bit program of `ASAM::CMP::AnalogPayload::setSampleDt` (void result) -/
def AnalogPayload_setSampleDt_prog (p_sampleDt : Op) : List Op × Nat :=
  ([p_sampleDt, .const 768, .trunc 16 1, .bnot 32 2, .rd 0 2, .band 4 3, .trunc 16 5, .wr 0 2 6, .rd 0 2, .bor 8 0, .trunc 16 9, .wr 0 2 10], 0)

/-- bit program of `ASAM::CMP::AnalogPayload::setSampleInterval` (void result) -/
def AnalogPayload_setSampleInterval_prog (p_sampleInterval : Op) : List Op × Nat :=
  ([p_sampleInterval, .const 0, .ushr 32 0 24, .trunc 8 2, .trunc 8 3, .const 4294967040, .band 1 5, .bor 6 4, .ushr 32 0 16, .trunc 8 8, .trunc 8 9, .ushl 32 10 8, .const 4294902015, .band 7 12, .bor 13 11, .ushr 32 0 8, .trunc 8 15, .trunc 8 16, .ushl 32 17 16, .const 4278255615, .band 14 19, .bor 20 18, .trunc 8 0, .trunc 8 22, .ushl 32 23 24, .const 16777215, .band 21 25, .bor 26 24, .wr 4 4 27], 0)

/-- bit program of `ASAM::CMP::AnalogPayload::setSampleOffset` (void result) -/
def AnalogPayload_setSampleOffset_prog (p_sampleOffset : Op) : List Op × Nat :=
  ([p_sampleOffset, .const 0, .ushr 32 0 24, .trunc 8 2, .trunc 8 3, .const 4294967040, .band 1 5, .bor 6 4, .ushr 32 0 16, .trunc 8 8, .trunc 8 9, .ushl 32 10 8, .const 4294902015, .band 7 12, .bor 13 11, .ushr 32 0 8, .trunc 8 15, .trunc 8 16, .ushl 32 17 16, .const 4278255615, .band 14 19, .bor 20 18, .trunc 8 0, .trunc 8 22, .ushl 32 23 24, .const 16777215, .band 21 25, .bor 26 24, .wr 8 4 27], 0)

/-- bit program of `ASAM::CMP::AnalogPayload::setSampleScalar` (void result) -/
def AnalogPayload_setSampleScalar_prog (p_sampleScalar : Op) : List Op × Nat :=
  ([p_sampleScalar, .const 0, .ushr 32 0 24, .trunc 8 2, .trunc 8 3, .const 4294967040, .band 1 5, .bor 6 4, .ushr 32 0 16, .trunc 8 8, .trunc 8 9, .ushl 32 10 8, .const 4294902015, .band 7 12, .bor 13 11, .ushr 32 0 8, .trunc 8 15, .trunc 8 16, .ushl 32 17 16, .const 4278255615, .band 14 19, .bor 20 18, .trunc 8 0, .trunc 8 22, .ushl 32 23 24, .const 16777215, .band 21 25, .bor 26 24, .wr 12 4 27], 0)

/-- bit program of `ASAM::CMP::AnalogPayload::setUnit` (void result) -/
def AnalogPayload_setUnit_prog (p_unit : Op) : List Op × Nat :=
  ([p_unit, .wr 3 1 0], 0)

/-- bit program of `ASAM::CMP::CanFdPayload::getCrc` (val result) -/
def CanFdPayload_getCrc_prog  : List Op × Nat :=
  ([.rd 8 4, .const 4294909696, .band 0 1, .const 4278190080, .band 2 3, .ushr 32 4 24, .const 16711680, .band 2 6, .ushr 32 7 8, .bor 5 8, .const 65280, .band 2 10, .ushl 32 11 8, .bor 9 12, .const 255, .band 2 14, .ushl 32 15 24, .bor 13 16], 17)

/-- bit program of `ASAM::CMP::CanFdPayload::getRrs` (ne0 result) -/
def CanFdPayload_getRrs_prog  : List Op × Nat :=
  ([.rd 4 4, .const 64, .band 0 1], 2)

/-- bit program of `ASAM::CMP::CanFdPayload::getSbc` (val result) -/
def CanFdPayload_getSbc_prog  : List Op × Nat :=
  ([.rd 8 4, .const 57344, .band 0 1, .const 4278190080, .band 2 3, .ushr 32 4 24, .const 16711680, .band 2 6, .ushr 32 7 8, .bor 5 8, .const 65280, .band 2 10, .ushl 32 11 8, .bor 9 12, .const 255, .band 2 14, .ushl 32 15 24, .bor 13 16, .ushr 32 17 21, .trunc 8 18], 19)

/-- bit program of `ASAM::CMP::CanFdPayload::getSbcParity` (ne0 result) -/
def CanFdPayload_getSbcParity_prog  : List Op × Nat :=
  ([.rd 8 4, .const 1, .band 0 1], 2)

/-- bit program of `ASAM::CMP::CanFdPayload::getSbcSupport` (ne0 result) -/
def CanFdPayload_getSbcSupport_prog  : List Op × Nat :=
  ([.rd 8 4, .const 64, .band 0 1], 2)

/-- bit program of `ASAM::CMP::CanFdPayload::setCrc` (void result) -/
def CanFdPayload_setCrc_prog (p_newCrcSbc : Op) : List Op × Nat :=
  ([p_newCrcSbc, .const 4294909696, .bnot 32 1, .rd 8 4, .band 3 2, .wr 8 4 4, .const 4278190080, .band 0 6, .ushr 32 7 24, .const 16711680, .band 0 9, .ushr 32 10 8, .bor 8 11, .const 65280, .band 0 13, .ushl 32 14 8, .bor 12 15, .const 255, .band 0 17, .ushl 32 18 24, .bor 16 19, .rd 8 4, .bor 21 20, .wr 8 4 22], 0)

/-- bit program of `ASAM::CMP::CanFdPayload::setRrs` (void result) -/
def CanFdPayload_setRrs_prog (p_rrs : Bool) : List Op × Nat :=
  ([.rd 4 4, .const 64, .bor 0 1, .rd 4 4, .const 64, .bnot 32 4, .band 3 5, .wr 4 4 (if p_rrs then 2 else 6)], 0)

/-- bit program of `ASAM::CMP::CanFdPayload::setSbc` (void result) -/
def CanFdPayload_setSbc_prog (p_sbc : Op) : List Op × Nat :=
  ([p_sbc, .const 57344, .bnot 32 1, .rd 8 4, .band 3 2, .wr 8 4 4, .ushl 32 0 21, .const 4278190080, .band 6 7, .ushr 32 8 24, .const 16711680, .band 6 10, .ushr 32 11 8, .bor 9 12, .const 65280, .band 6 14, .ushl 32 15 8, .bor 13 16, .const 255, .band 6 18, .ushl 32 19 24, .bor 17 20, .rd 8 4, .bor 22 21, .wr 8 4 23], 0)

/-- bit program of `ASAM::CMP::CanFdPayload::setSbcParity` (void result) -/
def CanFdPayload_setSbcParity_prog (p_parity : Bool) : List Op × Nat :=
  ([.rd 8 4, .const 1, .bor 0 1, .rd 8 4, .const 1, .bnot 32 4, .band 3 5, .wr 8 4 (if p_parity then 2 else 6)], 0)

/-- bit program of `ASAM::CMP::CanFdPayload::setSbcSupport` (void result) -/
def CanFdPayload_setSbcSupport_prog (p_support : Bool) : List Op × Nat :=
  ([.rd 8 4, .const 64, .bor 0 1, .rd 8 4, .const 64, .bnot 32 4, .band 3 5, .wr 8 4 (if p_support then 2 else 6)], 0)

/-- bit program of `ASAM::CMP::CanPayload::getCrc` (val result) -/
def CanPayload_getCrc_prog  : List Op × Nat :=
  ([.rd 8 4, .const 4286513152, .band 0 1, .const 4278190080, .band 2 3, .ushr 32 4 24, .const 16711680, .band 2 6, .ushr 32 7 8, .bor 5 8, .const 65280, .band 2 10, .ushl 32 11 8, .bor 9 12, .const 255, .band 2 14, .ushl 32 15 24, .bor 13 16, .trunc 16 17], 18)

/-- bit program of `ASAM::CMP::CanPayload::getRtr` (ne0 result) -/
def CanPayload_getRtr_prog  : List Op × Nat :=
  ([.rd 4 4, .const 64, .band 0 1], 2)

/-- bit program of `ASAM::CMP::CanPayload::setCrc` (void result) -/
def CanPayload_setCrc_prog (p_crc : Op) : List Op × Nat :=
  ([p_crc, .const 4286513152, .bnot 32 1, .rd 8 4, .band 3 2, .wr 8 4 4, .const 4278190080, .band 0 6, .ushr 32 7 24, .const 16711680, .band 0 9, .ushr 32 10 8, .bor 8 11, .const 65280, .band 0 13, .ushl 32 14 8, .bor 12 15, .const 255, .band 0 17, .ushl 32 18 24, .bor 16 19, .rd 8 4, .bor 21 20, .wr 8 4 22], 0)

/-- bit program of `ASAM::CMP::CanPayload::setRtr` (void result) -/
def CanPayload_setRtr_prog (p_rtr : Bool) : List Op × Nat :=
  ([.rd 4 4, .const 64, .bor 0 1, .rd 4 4, .const 64, .bnot 32 4, .band 3 5, .wr 4 4 (if p_rtr then 2 else 6)], 0)

/-- bit program of `ASAM::CMP::CanPayloadBase::Header::getCrc` (val result) -/
def CanPayloadBase_Header_getCrc_prog  : List Op × Nat :=
  ([.rd 8 4, .const 4286513152, .band 0 1, .const 4278190080, .band 2 3, .ushr 32 4 24, .const 16711680, .band 2 6, .ushr 32 7 8, .bor 5 8, .const 65280, .band 2 10, .ushl 32 11 8, .bor 9 12, .const 255, .band 2 14, .ushl 32 15 24, .bor 13 16, .trunc 16 17], 18)

/-- bit program of `ASAM::CMP::CanPayloadBase::Header::getCrcSbc` (val result) -/
def CanPayloadBase_Header_getCrcSbc_prog  : List Op × Nat :=
  ([.rd 8 4, .const 4294909696, .band 0 1, .const 4278190080, .band 2 3, .ushr 32 4 24, .const 16711680, .band 2 6, .ushr 32 7 8, .bor 5 8, .const 65280, .band 2 10, .ushl 32 11 8, .bor 9 12, .const 255, .band 2 14, .ushl 32 15 24, .bor 13 16], 17)

/-- bit program of `ASAM::CMP::CanPayloadBase::Header::getCrcSupport` (ne0 result) -/
def CanPayloadBase_Header_getCrcSupport_prog  : List Op × Nat :=
  ([.rd 8 4, .const 128, .band 0 1], 2)

/-- bit program of `ASAM::CMP::CanPayloadBase::Header::getDataLength` (val result) -/
def CanPayloadBase_Header_getDataLength_prog  : List Op × Nat :=
  ([.rd 15 1], 0)

/-- bit program of `ASAM::CMP::CanPayloadBase::Header::getDlc` (val result) -/
def CanPayloadBase_Header_getDlc_prog  : List Op × Nat :=
  ([.rd 14 1], 0)

/-- bit program of `ASAM::CMP::CanPayloadBase::Header::getErrorPosition` (val result) -/
def CanPayloadBase_Header_getErrorPosition_prog  : List Op × Nat :=
  ([.rd 12 2, .const 65280, .band 0 1, .sshr 32 2 8, .const 255, .band 0 4, .sshl 32 5 8, .bor 3 6, .trunc 16 7], 8)

/-- bit program of `ASAM::CMP::CanPayloadBase::Header::getFlag` (ne0 result) -/
def CanPayloadBase_Header_getFlag_prog (p_mask : Op) : List Op × Nat :=
  ([p_mask, .rd 0 2, .const 65280, .band 1 2, .sshr 32 3 8, .const 255, .band 1 5, .sshl 32 6 8, .bor 4 7, .trunc 16 8, .band 9 0], 10)

/-- bit program of `ASAM::CMP::CanPayloadBase::Header::getFlags` (val result) -/
def CanPayloadBase_Header_getFlags_prog  : List Op × Nat :=
  ([.rd 0 2, .const 65280, .band 0 1, .sshr 32 2 8, .const 255, .band 0 4, .sshl 32 5 8, .bor 3 6, .trunc 16 7], 8)

/-- bit program of `ASAM::CMP::CanPayloadBase::Header::getId` (val result) -/
def CanPayloadBase_Header_getId_prog  : List Op × Nat :=
  ([.rd 4 4, .const 4294967071, .band 0 1, .const 4278190080, .band 2 3, .ushr 32 4 24, .const 16711680, .band 2 6, .ushr 32 7 8, .bor 5 8, .const 65280, .band 2 10, .ushl 32 11 8, .bor 9 12, .const 255, .band 2 14, .ushl 32 15 24, .bor 13 16], 17)

/-- bit program of `ASAM::CMP::CanPayloadBase::Header::getIde` (ne0 result) -/
def CanPayloadBase_Header_getIde_prog  : List Op × Nat :=
  ([.rd 4 4, .const 128, .band 0 1], 2)

/-- bit program of `ASAM::CMP::CanPayloadBase::Header::getRsvd` (ne0 result) -/
def CanPayloadBase_Header_getRsvd_prog  : List Op × Nat :=
  ([.rd 4 4, .const 32, .band 0 1], 2)

/-- bit program of `ASAM::CMP::CanPayloadBase::Header::getRtrRrs` (ne0 result) -/
def CanPayloadBase_Header_getRtrRrs_prog  : List Op × Nat :=
  ([.rd 4 4, .const 64, .band 0 1], 2)

/-- bit program of `ASAM::CMP::CanPayloadBase::Header::getSbc` (val result) -/
def CanPayloadBase_Header_getSbc_prog  : List Op × Nat :=
  ([.rd 8 4, .const 57344, .band 0 1, .const 4278190080, .band 2 3, .ushr 32 4 24, .const 16711680, .band 2 6, .ushr 32 7 8, .bor 5 8, .const 65280, .band 2 10, .ushl 32 11 8, .bor 9 12, .const 255, .band 2 14, .ushl 32 15 24, .bor 13 16, .ushr 32 17 21, .trunc 8 18], 19)

/-- bit program of `ASAM::CMP::CanPayloadBase::Header::getSbcParity` (ne0 result) -/
def CanPayloadBase_Header_getSbcParity_prog  : List Op × Nat :=
  ([.rd 8 4, .const 1, .band 0 1], 2)

/-- bit program of `ASAM::CMP::CanPayloadBase::Header::getSbcSupport` (ne0 result) -/
def CanPayloadBase_Header_getSbcSupport_prog  : List Op × Nat :=
  ([.rd 8 4, .const 64, .band 0 1], 2)

/-- bit program of `ASAM::CMP::CanPayloadBase::Header::setCrc` (void result) -/
def CanPayloadBase_Header_setCrc_prog (p_newCrc : Op) : List Op × Nat :=
  ([p_newCrc, .const 4286513152, .bnot 32 1, .rd 8 4, .band 3 2, .wr 8 4 4, .const 4278190080, .band 0 6, .ushr 32 7 24, .const 16711680, .band 0 9, .ushr 32 10 8, .bor 8 11, .const 65280, .band 0 13, .ushl 32 14 8, .bor 12 15, .const 255, .band 0 17, .ushl 32 18 24, .bor 16 19, .rd 8 4, .bor 21 20, .wr 8 4 22], 0)

/-- bit program of `ASAM::CMP::CanPayloadBase::Header::setCrcSbc` (void result) -/
def CanPayloadBase_Header_setCrcSbc_prog (p_newCrcSbc : Op) : List Op × Nat :=
  ([p_newCrcSbc, .const 4294909696, .bnot 32 1, .rd 8 4, .band 3 2, .wr 8 4 4, .const 4278190080, .band 0 6, .ushr 32 7 24, .const 16711680, .band 0 9, .ushr 32 10 8, .bor 8 11, .const 65280, .band 0 13, .ushl 32 14 8, .bor 12 15, .const 255, .band 0 17, .ushl 32 18 24, .bor 16 19, .rd 8 4, .bor 21 20, .wr 8 4 22], 0)

/-- bit program of `ASAM::CMP::CanPayloadBase::Header::setCrcSupport` (void result) -/
def CanPayloadBase_Header_setCrcSupport_prog (p_support : Bool) : List Op × Nat :=
  ([.rd 8 4, .const 128, .bor 0 1, .rd 8 4, .const 128, .bnot 32 4, .band 3 5, .wr 8 4 (if p_support then 2 else 6)], 0)

/-- bit program of `ASAM::CMP::CanPayloadBase::Header::setDataLength` (void result) -/
def CanPayloadBase_Header_setDataLength_prog (p_length : Op) : List Op × Nat :=
  ([p_length, .wr 15 1 0], 0)

/-- bit program of `ASAM::CMP::CanPayloadBase::Header::setDlc` (void result) -/
def CanPayloadBase_Header_setDlc_prog (p_newDlc : Op) : List Op × Nat :=
  ([p_newDlc, .wr 14 1 0], 0)

/-- bit program of `ASAM::CMP::CanPayloadBase::Header::setErrorPosition` (void result) -/
def CanPayloadBase_Header_setErrorPosition_prog (p_position : Op) : List Op × Nat :=
  ([p_position, .const 65280, .band 0 1, .sshr 32 2 8, .const 255, .band 0 4, .sshl 32 5 8, .bor 3 6, .trunc 16 7, .wr 12 2 8], 0)

/-- bit program of `ASAM::CMP::CanPayloadBase::Header::setFlag` (void result) -/
def CanPayloadBase_Header_setFlag_prog (p_mask : Op) (p_value : Bool) : List Op × Nat :=
  if p_value then
    ([p_mask, .rd 0 2, .const 65280, .band 1 2, .sshr 32 3 8, .const 255, .band 1 5, .sshl 32 6 8, .bor 4 7, .trunc 16 8, .bor 9 0, .trunc 16 10, .const 65280, .band 11 12, .sshr 32 13 8, .const 255, .band 11 15, .sshl 32 16 8, .bor 14 17, .trunc 16 18, .wr 0 2 19], 0)
  else
    ([p_mask, .rd 0 2, .const 65280, .band 1 2, .sshr 32 3 8, .const 255, .band 1 5, .sshl 32 6 8, .bor 4 7, .trunc 16 8, .bnot 32 0, .band 9 10, .trunc 16 11, .const 65280, .band 12 13, .sshr 32 14 8, .const 255, .band 12 16, .sshl 32 17 8, .bor 15 18, .trunc 16 19, .wr 0 2 20], 0)

/-- bit program of `ASAM::CMP::CanPayloadBase::Header::setFlags` (void result) -/
def CanPayloadBase_Header_setFlags_prog (p_newFlags : Op) : List Op × Nat :=
  ([p_newFlags, .const 65280, .band 0 1, .sshr 32 2 8, .const 255, .band 0 4, .sshl 32 5 8, .bor 3 6, .trunc 16 7, .wr 0 2 8], 0)

/-- bit program of `ASAM::CMP::CanPayloadBase::Header::setId` (void result) -/
def CanPayloadBase_Header_setId_prog (p_newId : Op) : List Op × Nat :=
  ([p_newId, .const 4294967071, .bnot 32 1, .rd 4 4, .band 3 2, .wr 4 4 4, .const 4278190080, .band 0 6, .ushr 32 7 24, .const 16711680, .band 0 9, .ushr 32 10 8, .bor 8 11, .const 65280, .band 0 13, .ushl 32 14 8, .bor 12 15, .const 255, .band 0 17, .ushl 32 18 24, .bor 16 19, .rd 4 4, .bor 21 20, .wr 4 4 22], 0)

/-- bit program of `ASAM::CMP::CanPayloadBase::Header::setIde` (void result) -/
def CanPayloadBase_Header_setIde_prog (p_ide : Bool) : List Op × Nat :=
  ([.rd 4 4, .const 128, .bor 0 1, .rd 4 4, .const 128, .bnot 32 4, .band 3 5, .wr 4 4 (if p_ide then 2 else 6)], 0)

/-- bit program of `ASAM::CMP::CanPayloadBase::Header::setRsvd` (void result) -/
def CanPayloadBase_Header_setRsvd_prog (p_rsvd : Bool) : List Op × Nat :=
  ([.rd 4 4, .const 32, .bor 0 1, .rd 4 4, .const 32, .bnot 32 4, .band 3 5, .wr 4 4 (if p_rsvd then 2 else 6)], 0)

/-- bit program of `ASAM::CMP::CanPayloadBase::Header::setRtrRrs` (void result) -/
def CanPayloadBase_Header_setRtrRrs_prog (p_rtrRrs : Bool) : List Op × Nat :=
  ([.rd 4 4, .const 64, .bor 0 1, .rd 4 4, .const 64, .bnot 32 4, .band 3 5, .wr 4 4 (if p_rtrRrs then 2 else 6)], 0)

/-- bit program of `ASAM::CMP::CanPayloadBase::Header::setSbc` (void result) -/
def CanPayloadBase_Header_setSbc_prog (p_sbc : Op) : List Op × Nat :=
  ([p_sbc, .const 57344, .bnot 32 1, .rd 8 4, .band 3 2, .wr 8 4 4, .ushl 32 0 21, .const 4278190080, .band 6 7, .ushr 32 8 24, .const 16711680, .band 6 10, .ushr 32 11 8, .bor 9 12, .const 65280, .band 6 14, .ushl 32 15 8, .bor 13 16, .const 255, .band 6 18, .ushl 32 19 24, .bor 17 20, .rd 8 4, .bor 22 21, .wr 8 4 23], 0)

/-- bit program of `ASAM::CMP::CanPayloadBase::Header::setSbcParity` (void result) -/
def CanPayloadBase_Header_setSbcParity_prog (p_parity : Bool) : List Op × Nat :=
  ([.rd 8 4, .const 1, .bor 0 1, .rd 8 4, .const 1, .bnot 32 4, .band 3 5, .wr 8 4 (if p_parity then 2 else 6)], 0)

/-- bit program of `ASAM::CMP::CanPayloadBase::Header::setSbcSupport` (void result) -/
def CanPayloadBase_Header_setSbcSupport_prog (p_support : Bool) : List Op × Nat :=
  ([.rd 8 4, .const 64, .bor 0 1, .rd 8 4, .const 64, .bnot 32 4, .band 3 5, .wr 8 4 (if p_support then 2 else 6)], 0)

/-- bit program of `ASAM::CMP::CanPayloadBase::getCrcSupport` (ne0 result) -/
def CanPayloadBase_getCrcSupport_prog  : List Op × Nat :=
  ([.rd 8 4, .const 128, .band 0 1], 2)

/-- bit program of `ASAM::CMP::CanPayloadBase::getDataLength` (val result) -/
def CanPayloadBase_getDataLength_prog  : List Op × Nat :=
  ([.rd 15 1], 0)

/-- bit program of `ASAM::CMP::CanPayloadBase::getDlc` (val result) -/
def CanPayloadBase_getDlc_prog  : List Op × Nat :=
  ([.rd 14 1], 0)

/-- bit program of `ASAM::CMP::CanPayloadBase::getErrorPosition` (val result) -/
def CanPayloadBase_getErrorPosition_prog  : List Op × Nat :=
  ([.rd 12 2, .const 65280, .band 0 1, .sshr 32 2 8, .const 255, .band 0 4, .sshl 32 5 8, .bor 3 6, .trunc 16 7], 8)

/-- bit program of `ASAM::CMP::CanPayloadBase::getFlag` (ne0 result) -/
def CanPayloadBase_getFlag_prog (p_mask : Op) : List Op × Nat :=
  ([p_mask, .rd 0 2, .const 65280, .band 1 2, .sshr 32 3 8, .const 255, .band 1 5, .sshl 32 6 8, .bor 4 7, .trunc 16 8, .band 9 0], 10)

/-- bit program of `ASAM::CMP::CanPayloadBase::getFlags` (val result) -/
def CanPayloadBase_getFlags_prog  : List Op × Nat :=
  ([.rd 0 2, .const 65280, .band 0 1, .sshr 32 2 8, .const 255, .band 0 4, .sshl 32 5 8, .bor 3 6, .trunc 16 7], 8)

/-- bit program of `ASAM::CMP::CanPayloadBase::getId` (val result) -/
def CanPayloadBase_getId_prog  : List Op × Nat :=
  ([.rd 4 4, .const 4294967071, .band 0 1, .const 4278190080, .band 2 3, .ushr 32 4 24, .const 16711680, .band 2 6, .ushr 32 7 8, .bor 5 8, .const 65280, .band 2 10, .ushl 32 11 8, .bor 9 12, .const 255, .band 2 14, .ushl 32 15 24, .bor 13 16], 17)

/-- bit program of `ASAM::CMP::CanPayloadBase::getIde` (ne0 result) -/
def CanPayloadBase_getIde_prog  : List Op × Nat :=
  ([.rd 4 4, .const 128, .band 0 1], 2)

/-- bit program of `ASAM::CMP::CanPayloadBase::getRsvd` (ne0 result) -/
def CanPayloadBase_getRsvd_prog  : List Op × Nat :=
  ([.rd 4 4, .const 32, .band 0 1], 2)

/-- bit program of `ASAM::CMP::CanPayloadBase::setCrcSupport` (void result) -/
def CanPayloadBase_setCrcSupport_prog (p_support : Bool) : List Op × Nat :=
  ([.rd 8 4, .const 128, .bor 0 1, .rd 8 4, .const 128, .bnot 32 4, .band 3 5, .wr 8 4 (if p_support then 2 else 6)], 0)

/-- bit program of `ASAM::CMP::CanPayloadBase::setErrorPosition` (void result) -/
def CanPayloadBase_setErrorPosition_prog (p_position : Op) : List Op × Nat :=
  ([p_position, .const 65280, .band 0 1, .sshr 32 2 8, .const 255, .band 0 4, .sshl 32 5 8, .bor 3 6, .trunc 16 7, .wr 12 2 8], 0)

/-- bit program of `ASAM::CMP::CanPayloadBase::setFlag` (void result) -/
def CanPayloadBase_setFlag_prog (p_mask : Op) (p_value : Bool) : List Op × Nat :=
  if p_value then
    ([p_mask, .rd 0 2, .const 65280, .band 1 2, .sshr 32 3 8, .const 255, .band 1 5, .sshl 32 6 8, .bor 4 7, .trunc 16 8, .bor 9 0, .trunc 16 10, .const 65280, .band 11 12, .sshr 32 13 8, .const 255, .band 11 15, .sshl 32 16 8, .bor 14 17, .trunc 16 18, .wr 0 2 19], 0)
  else
    ([p_mask, .rd 0 2, .const 65280, .band 1 2, .sshr 32 3 8, .const 255, .band 1 5, .sshl 32 6 8, .bor 4 7, .trunc 16 8, .bnot 32 0, .band 9 10, .trunc 16 11, .const 65280, .band 12 13, .sshr 32 14 8, .const 255, .band 12 16, .sshl 32 17 8, .bor 15 18, .trunc 16 19, .wr 0 2 20], 0)

/-- bit program of `ASAM::CMP::CanPayloadBase::setFlags` (void result) -/
def CanPayloadBase_setFlags_prog (p_flags : Op) : List Op × Nat :=
  ([p_flags, .const 65280, .band 0 1, .sshr 32 2 8, .const 255, .band 0 4, .sshl 32 5 8, .bor 3 6, .trunc 16 7, .wr 0 2 8], 0)

/-- bit program of `ASAM::CMP::CanPayloadBase::setId` (void result) -/
def CanPayloadBase_setId_prog (p_id : Op) : List Op × Nat :=
  ([p_id, .const 4294967071, .bnot 32 1, .rd 4 4, .band 3 2, .wr 4 4 4, .const 4278190080, .band 0 6, .ushr 32 7 24, .const 16711680, .band 0 9, .ushr 32 10 8, .bor 8 11, .const 65280, .band 0 13, .ushl 32 14 8, .bor 12 15, .const 255, .band 0 17, .ushl 32 18 24, .bor 16 19, .rd 4 4, .bor 21 20, .wr 4 4 22], 0)

/-- bit program of `ASAM::CMP::CanPayloadBase::setIde` (void result) -/
def CanPayloadBase_setIde_prog (p_ide : Bool) : List Op × Nat :=
  ([.rd 4 4, .const 128, .bor 0 1, .rd 4 4, .const 128, .bnot 32 4, .band 3 5, .wr 4 4 (if p_ide then 2 else 6)], 0)

/-- bit program of `ASAM::CMP::CanPayloadBase::setRsvd` (void result) -/
def CanPayloadBase_setRsvd_prog (p_rsvd : Bool) : List Op × Nat :=
  ([.rd 4 4, .const 32, .bor 0 1, .rd 4 4, .const 32, .bnot 32 4, .band 3 5, .wr 4 4 (if p_rsvd then 2 else 6)], 0)

/-- bit program of `ASAM::CMP::CaptureModulePayload::Header::getCurrentUtcOffset` (val result) -/
def CaptureModulePayload_Header_getCurrentUtcOffset_prog  : List Op × Nat :=
  ([.rd 20 2, .const 65280, .band 0 1, .sshr 32 2 8, .const 255, .band 0 4, .sshl 32 5 8, .bor 3 6, .trunc 16 7], 8)

/-- bit program of `ASAM::CMP::CaptureModulePayload::Header::getDomainNumber` (val result) -/
def CaptureModulePayload_Header_getDomainNumber_prog  : List Op × Nat :=
  ([.rd 23 1], 0)

/-- bit program of `ASAM::CMP::CaptureModulePayload::Header::getGmClockQuality` (val result) -/
def CaptureModulePayload_Header_getGmClockQuality_prog  : List Op × Nat :=
  ([.rd 16 4, .const 4278190080, .band 0 1, .ushr 32 2 24, .const 16711680, .band 0 4, .ushr 32 5 8, .bor 3 6, .const 65280, .band 0 8, .ushl 32 9 8, .bor 7 10, .const 255, .band 0 12, .ushl 32 13 24, .bor 11 14], 15)

/-- bit program of `ASAM::CMP::CaptureModulePayload::Header::getGmIdentity` (val result) -/
def CaptureModulePayload_Header_getGmIdentity_prog  : List Op × Nat :=
  ([.rd 8 8, .const 18374686479671623680, .band 0 1, .ushr 64 2 56, .const 71776119061217280, .band 0 4, .ushr 64 5 40, .bor 3 6, .const 280375465082880, .band 0 8, .ushr 64 9 24, .bor 7 10, .const 1095216660480, .band 0 12, .ushr 64 13 8, .bor 11 14, .const 4278190080, .band 0 16, .ushl 64 17 8, .bor 15 18, .const 16711680, .sext 32 64 20, .band 0 21, .ushl 64 22 24, .bor 19 23, .const 65280, .sext 32 64 25, .band 0 26, .ushl 64 27 40, .bor 24 28, .const 255, .sext 32 64 30, .band 0 31, .ushl 64 32 56, .bor 29 33], 34)

/-- bit program of `ASAM::CMP::CaptureModulePayload::Header::getGptpFlags` (val result) -/
def CaptureModulePayload_Header_getGptpFlags_prog  : List Op × Nat :=
  ([.rd 25 1], 0)

/-- bit program of `ASAM::CMP::CaptureModulePayload::Header::getTimeSource` (val result) -/
def CaptureModulePayload_Header_getTimeSource_prog  : List Op × Nat :=
  ([.rd 22 1], 0)

/-- bit program of `ASAM::CMP::CaptureModulePayload::Header::getUptime` (val result) -/
def CaptureModulePayload_Header_getUptime_prog  : List Op × Nat :=
  ([.rd 0 8, .const 18374686479671623680, .band 0 1, .ushr 64 2 56, .const 71776119061217280, .band 0 4, .ushr 64 5 40, .bor 3 6, .const 280375465082880, .band 0 8, .ushr 64 9 24, .bor 7 10, .const 1095216660480, .band 0 12, .ushr 64 13 8, .bor 11 14, .const 4278190080, .band 0 16, .ushl 64 17 8, .bor 15 18, .const 16711680, .sext 32 64 20, .band 0 21, .ushl 64 22 24, .bor 19 23, .const 65280, .sext 32 64 25, .band 0 26, .ushl 64 27 40, .bor 24 28, .const 255, .sext 32 64 30, .band 0 31, .ushl 64 32 56, .bor 29 33], 34)

/-- bit program of `ASAM::CMP::CaptureModulePayload::Header::setCurrentUtcOffset` (void result) -/
def CaptureModulePayload_Header_setCurrentUtcOffset_prog (p_offset : Op) : List Op × Nat :=
  ([p_offset, .const 65280, .band 0 1, .sshr 32 2 8, .const 255, .band 0 4, .sshl 32 5 8, .bor 3 6, .trunc 16 7, .wr 20 2 8], 0)

/-- bit program of `ASAM::CMP::CaptureModulePayload::Header::setDomainNumber` (void result) -/
def CaptureModulePayload_Header_setDomainNumber_prog (p_number : Op) : List Op × Nat :=
  ([p_number, .wr 23 1 0], 0)

/-- bit program of `ASAM::CMP::CaptureModulePayload::Header::setGmClockQuality` (void result) -/
def CaptureModulePayload_Header_setGmClockQuality_prog (p_quality : Op) : List Op × Nat :=
  ([p_quality, .const 4278190080, .band 0 1, .ushr 32 2 24, .const 16711680, .band 0 4, .ushr 32 5 8, .bor 3 6, .const 65280, .band 0 8, .ushl 32 9 8, .bor 7 10, .const 255, .band 0 12, .ushl 32 13 24, .bor 11 14, .wr 16 4 15], 0)

/-- bit program of `ASAM::CMP::CaptureModulePayload::Header::setGmIdentity` (void result) -/
def CaptureModulePayload_Header_setGmIdentity_prog (p_identity : Op) : List Op × Nat :=
  ([p_identity, .const 18374686479671623680, .band 0 1, .ushr 64 2 56, .const 71776119061217280, .band 0 4, .ushr 64 5 40, .bor 3 6, .const 280375465082880, .band 0 8, .ushr 64 9 24, .bor 7 10, .const 1095216660480, .band 0 12, .ushr 64 13 8, .bor 11 14, .const 4278190080, .band 0 16, .ushl 64 17 8, .bor 15 18, .const 16711680, .sext 32 64 20, .band 0 21, .ushl 64 22 24, .bor 19 23, .const 65280, .sext 32 64 25, .band 0 26, .ushl 64 27 40, .bor 24 28, .const 255, .sext 32 64 30, .band 0 31, .ushl 64 32 56, .bor 29 33, .wr 8 8 34], 0)

/-- bit program of `ASAM::CMP::CaptureModulePayload::Header::setGptpFlags` (void result) -/
def CaptureModulePayload_Header_setGptpFlags_prog (p_flags : Op) : List Op × Nat :=
  ([p_flags, .wr 25 1 0], 0)

/-- bit program of `ASAM::CMP::CaptureModulePayload::Header::setTimeSource` (void result) -/
def CaptureModulePayload_Header_setTimeSource_prog (p_source : Op) : List Op × Nat :=
  ([p_source, .wr 22 1 0], 0)

/-- bit program of `ASAM::CMP::CaptureModulePayload::Header::setUptime` (void result) -/
def CaptureModulePayload_Header_setUptime_prog (p_newUptime : Op) : List Op × Nat :=
  ([p_newUptime, .const 18374686479671623680, .band 0 1, .ushr 64 2 56, .const 71776119061217280, .band 0 4, .ushr 64 5 40, .bor 3 6, .const 280375465082880, .band 0 8, .ushr 64 9 24, .bor 7 10, .const 1095216660480, .band 0 12, .ushr 64 13 8, .bor 11 14, .const 4278190080, .band 0 16, .ushl 64 17 8, .bor 15 18, .const 16711680, .sext 32 64 20, .band 0 21, .ushl 64 22 24, .bor 19 23, .const 65280, .sext 32 64 25, .band 0 26, .ushl 64 27 40, .bor 24 28, .const 255, .sext 32 64 30, .band 0 31, .ushl 64 32 56, .bor 29 33, .wr 0 8 34], 0)

/-- bit program of `ASAM::CMP::CaptureModulePayload::getCurrentUtcOffset` (val result) -/
def CaptureModulePayload_getCurrentUtcOffset_prog  : List Op × Nat :=
  ([.rd 20 2, .const 65280, .band 0 1, .sshr 32 2 8, .const 255, .band 0 4, .sshl 32 5 8, .bor 3 6, .trunc 16 7], 8)

/-- bit program of `ASAM::CMP::CaptureModulePayload::getDomainNumber` (val result) -/
def CaptureModulePayload_getDomainNumber_prog  : List Op × Nat :=
  ([.rd 23 1], 0)

/-- bit program of `ASAM::CMP::CaptureModulePayload::getGmClockQuality` (val result) -/
def CaptureModulePayload_getGmClockQuality_prog  : List Op × Nat :=
  ([.rd 16 4, .const 4278190080, .band 0 1, .ushr 32 2 24, .const 16711680, .band 0 4, .ushr 32 5 8, .bor 3 6, .const 65280, .band 0 8, .ushl 32 9 8, .bor 7 10, .const 255, .band 0 12, .ushl 32 13 24, .bor 11 14], 15)

/-- bit program of `ASAM::CMP::CaptureModulePayload::getGmIdentity` (val result) -/
def CaptureModulePayload_getGmIdentity_prog  : List Op × Nat :=
  ([.rd 8 8, .const 18374686479671623680, .band 0 1, .ushr 64 2 56, .const 71776119061217280, .band 0 4, .ushr 64 5 40, .bor 3 6, .const 280375465082880, .band 0 8, .ushr 64 9 24, .bor 7 10, .const 1095216660480, .band 0 12, .ushr 64 13 8, .bor 11 14, .const 4278190080, .band 0 16, .ushl 64 17 8, .bor 15 18, .const 16711680, .sext 32 64 20, .band 0 21, .ushl 64 22 24, .bor 19 23, .const 65280, .sext 32 64 25, .band 0 26, .ushl 64 27 40, .bor 24 28, .const 255, .sext 32 64 30, .band 0 31, .ushl 64 32 56, .bor 29 33], 34)

/-- bit program of `ASAM::CMP::CaptureModulePayload::getGptpFlags` (val result) -/
def CaptureModulePayload_getGptpFlags_prog  : List Op × Nat :=
  ([.rd 25 1], 0)

/-- bit program of `ASAM::CMP::CaptureModulePayload::getTimeSource` (val result) -/
def CaptureModulePayload_getTimeSource_prog  : List Op × Nat :=
  ([.rd 22 1], 0)

/-- bit program of `ASAM::CMP::CaptureModulePayload::getUptime` (val result) -/
def CaptureModulePayload_getUptime_prog  : List Op × Nat :=
  ([.rd 0 8, .const 18374686479671623680, .band 0 1, .ushr 64 2 56, .const 71776119061217280, .band 0 4, .ushr 64 5 40, .bor 3 6, .const 280375465082880, .band 0 8, .ushr 64 9 24, .bor 7 10, .const 1095216660480, .band 0 12, .ushr 64 13 8, .bor 11 14, .const 4278190080, .band 0 16, .ushl 64 17 8, .bor 15 18, .const 16711680, .sext 32 64 20, .band 0 21, .ushl 64 22 24, .bor 19 23, .const 65280, .sext 32 64 25, .band 0 26, .ushl 64 27 40, .bor 24 28, .const 255, .sext 32 64 30, .band 0 31, .ushl 64 32 56, .bor 29 33], 34)

/-- bit program of `ASAM::CMP::CaptureModulePayload::setCurrentUtcOffset` (void result) -/
def CaptureModulePayload_setCurrentUtcOffset_prog (p_offset : Op) : List Op × Nat :=
  ([p_offset, .const 65280, .band 0 1, .sshr 32 2 8, .const 255, .band 0 4, .sshl 32 5 8, .bor 3 6, .trunc 16 7, .wr 20 2 8], 0)

/-- bit program of `ASAM::CMP::CaptureModulePayload::setDomainNumber` (void result) -/
def CaptureModulePayload_setDomainNumber_prog (p_number : Op) : List Op × Nat :=
  ([p_number, .wr 23 1 0], 0)

/-- bit program of `ASAM::CMP::CaptureModulePayload::setGmClockQuality` (void result) -/
def CaptureModulePayload_setGmClockQuality_prog (p_quality : Op) : List Op × Nat :=
  ([p_quality, .const 4278190080, .band 0 1, .ushr 32 2 24, .const 16711680, .band 0 4, .ushr 32 5 8, .bor 3 6, .const 65280, .band 0 8, .ushl 32 9 8, .bor 7 10, .const 255, .band 0 12, .ushl 32 13 24, .bor 11 14, .wr 16 4 15], 0)

/-- bit program of `ASAM::CMP::CaptureModulePayload::setGmIdentity` (void result) -/
def CaptureModulePayload_setGmIdentity_prog (p_identity : Op) : List Op × Nat :=
  ([p_identity, .const 18374686479671623680, .band 0 1, .ushr 64 2 56, .const 71776119061217280, .band 0 4, .ushr 64 5 40, .bor 3 6, .const 280375465082880, .band 0 8, .ushr 64 9 24, .bor 7 10, .const 1095216660480, .band 0 12, .ushr 64 13 8, .bor 11 14, .const 4278190080, .band 0 16, .ushl 64 17 8, .bor 15 18, .const 16711680, .sext 32 64 20, .band 0 21, .ushl 64 22 24, .bor 19 23, .const 65280, .sext 32 64 25, .band 0 26, .ushl 64 27 40, .bor 24 28, .const 255, .sext 32 64 30, .band 0 31, .ushl 64 32 56, .bor 29 33, .wr 8 8 34], 0)

/-- bit program of `ASAM::CMP::CaptureModulePayload::setGptpFlags` (void result) -/
def CaptureModulePayload_setGptpFlags_prog (p_flags : Op) : List Op × Nat :=
  ([p_flags, .wr 25 1 0], 0)

/-- bit program of `ASAM::CMP::CaptureModulePayload::setTimeSource` (void result) -/
def CaptureModulePayload_setTimeSource_prog (p_source : Op) : List Op × Nat :=
  ([p_source, .wr 22 1 0], 0)

/-- bit program of `ASAM::CMP::CaptureModulePayload::setUptime` (void result) -/
def CaptureModulePayload_setUptime_prog (p_newUptime : Op) : List Op × Nat :=
  ([p_newUptime, .const 18374686479671623680, .band 0 1, .ushr 64 2 56, .const 71776119061217280, .band 0 4, .ushr 64 5 40, .bor 3 6, .const 280375465082880, .band 0 8, .ushr 64 9 24, .bor 7 10, .const 1095216660480, .band 0 12, .ushr 64 13 8, .bor 11 14, .const 4278190080, .band 0 16, .ushl 64 17 8, .bor 15 18, .const 16711680, .sext 32 64 20, .band 0 21, .ushl 64 22 24, .bor 19 23, .const 65280, .sext 32 64 25, .band 0 26, .ushl 64 27 40, .bor 24 28, .const 255, .sext 32 64 30, .band 0 31, .ushl 64 32 56, .bor 29 33, .wr 0 8 34], 0)

/-- bit program of `ASAM::CMP::CmpHeader::getDeviceId` (val result) -/
def CmpHeader_getDeviceId_prog  : List Op × Nat :=
  ([.rd 2 2, .const 65280, .band 0 1, .sshr 32 2 8, .const 255, .band 0 4, .sshl 32 5 8, .bor 3 6, .trunc 16 7], 8)

/-- bit program of `ASAM::CMP::CmpHeader::getMessageType` (val result) -/
def CmpHeader_getMessageType_prog  : List Op × Nat :=
  ([.rd 4 1], 0)

/-- bit program of `ASAM::CMP::CmpHeader::getSequenceCounter` (val result) -/
def CmpHeader_getSequenceCounter_prog  : List Op × Nat :=
  ([.rd 6 2, .const 65280, .band 0 1, .sshr 32 2 8, .const 255, .band 0 4, .sshl 32 5 8, .bor 3 6, .trunc 16 7], 8)

/-- bit program of `ASAM::CMP::CmpHeader::getStreamId` (val result) -/
def CmpHeader_getStreamId_prog  : List Op × Nat :=
  ([.rd 5 1], 0)

/-- bit program of `ASAM::CMP::CmpHeader::getVersion` (val result) -/
def CmpHeader_getVersion_prog  : List Op × Nat :=
  ([.rd 0 1], 0)

/-- bit program of `ASAM::CMP::CmpHeader::setDeviceId` (void result) -/
def CmpHeader_setDeviceId_prog (p_id : Op) : List Op × Nat :=
  ([p_id, .const 65280, .band 0 1, .sshr 32 2 8, .const 255, .band 0 4, .sshl 32 5 8, .bor 3 6, .trunc 16 7, .wr 2 2 8], 0)

/-- bit program of `ASAM::CMP::CmpHeader::setMessageType` (void result) -/
def CmpHeader_setMessageType_prog (p_type : Op) : List Op × Nat :=
  ([p_type, .wr 4 1 0], 0)

/-- bit program of `ASAM::CMP::CmpHeader::setSequenceCounter` (void result) -/
def CmpHeader_setSequenceCounter_prog (p_counter : Op) : List Op × Nat :=
  ([p_counter, .const 65280, .band 0 1, .sshr 32 2 8, .const 255, .band 0 4, .sshl 32 5 8, .bor 3 6, .trunc 16 7, .wr 6 2 8], 0)

/-- bit program of `ASAM::CMP::CmpHeader::setStreamId` (void result) -/
def CmpHeader_setStreamId_prog (p_id : Op) : List Op × Nat :=
  ([p_id, .wr 5 1 0], 0)

/-- bit program of `ASAM::CMP::CmpHeader::setVersion` (void result) -/
def CmpHeader_setVersion_prog (p_newVersion : Op) : List Op × Nat :=
  ([p_newVersion, .wr 0 1 0], 0)

/-- bit program of `ASAM::CMP::Encoder::getDeviceId` (val result) -/
def Encoder_getDeviceId_prog  : List Op × Nat :=
  ([.rd 16 2], 0)

/-- bit program of `ASAM::CMP::Encoder::getSequenceCounter` (val result) -/
def Encoder_getSequenceCounter_prog  : List Op × Nat :=
  ([.rd 56 2], 0)

/-- bit program of `ASAM::CMP::Encoder::getStreamId` (val result) -/
def Encoder_getStreamId_prog  : List Op × Nat :=
  ([.rd 18 1], 0)

/-- bit program of `ASAM::CMP::Encoder::restart` (void result) -/
def Encoder_restart_prog  : List Op × Nat :=
  ([.const 0, .trunc 16 0, .wr 56 2 1], 0)

/-- bit program of `ASAM::CMP::EthernetPayload::Header::getDataLength` (val result) -/
def EthernetPayload_Header_getDataLength_prog  : List Op × Nat :=
  ([.rd 4 2, .const 65280, .band 0 1, .sshr 32 2 8, .const 255, .band 0 4, .sshl 32 5 8, .bor 3 6, .trunc 16 7], 8)

/-- bit program of `ASAM::CMP::EthernetPayload::Header::getFlag` (ne0 result) -/
def EthernetPayload_Header_getFlag_prog (p_mask : Op) : List Op × Nat :=
  ([p_mask, .rd 0 2, .const 65280, .band 1 2, .sshr 32 3 8, .const 255, .band 1 5, .sshl 32 6 8, .bor 4 7, .trunc 16 8, .band 9 0], 10)

/-- bit program of `ASAM::CMP::EthernetPayload::Header::getFlags` (val result) -/
def EthernetPayload_Header_getFlags_prog  : List Op × Nat :=
  ([.rd 0 2, .const 65280, .band 0 1, .sshr 32 2 8, .const 255, .band 0 4, .sshl 32 5 8, .bor 3 6, .trunc 16 7], 8)

/-- bit program of `ASAM::CMP::EthernetPayload::Header::setDataLength` (void result) -/
def EthernetPayload_Header_setDataLength_prog (p_newDataLength : Op) : List Op × Nat :=
  ([p_newDataLength, .const 65280, .band 0 1, .sshr 32 2 8, .const 255, .band 0 4, .sshl 32 5 8, .bor 3 6, .trunc 16 7, .wr 4 2 8], 0)

/-- bit program of `ASAM::CMP::EthernetPayload::Header::setFlag` (void result) -/
def EthernetPayload_Header_setFlag_prog (p_mask : Op) (p_value : Bool) : List Op × Nat :=
  if p_value then
    ([p_mask, .rd 0 2, .const 65280, .band 1 2, .sshr 32 3 8, .const 255, .band 1 5, .sshl 32 6 8, .bor 4 7, .trunc 16 8, .bor 9 0, .trunc 16 10, .const 65280, .band 11 12, .sshr 32 13 8, .const 255, .band 11 15, .sshl 32 16 8, .bor 14 17, .trunc 16 18, .wr 0 2 19], 0)
  else
    ([p_mask, .rd 0 2, .const 65280, .band 1 2, .sshr 32 3 8, .const 255, .band 1 5, .sshl 32 6 8, .bor 4 7, .trunc 16 8, .bnot 32 0, .band 9 10, .trunc 16 11, .const 65280, .band 12 13, .sshr 32 14 8, .const 255, .band 12 16, .sshl 32 17 8, .bor 15 18, .trunc 16 19, .wr 0 2 20], 0)

/-- bit program of `ASAM::CMP::EthernetPayload::Header::setFlags` (void result) -/
def EthernetPayload_Header_setFlags_prog (p_newFlags : Op) : List Op × Nat :=
  ([p_newFlags, .const 65280, .band 0 1, .sshr 32 2 8, .const 255, .band 0 4, .sshl 32 5 8, .bor 3 6, .trunc 16 7, .wr 0 2 8], 0)

/-- bit program of `ASAM::CMP::EthernetPayload::getDataLength` (val result) -/
def EthernetPayload_getDataLength_prog  : List Op × Nat :=
  ([.rd 4 2, .const 65280, .band 0 1, .sshr 32 2 8, .const 255, .band 0 4, .sshl 32 5 8, .bor 3 6, .trunc 16 7], 8)

/-- bit program of `ASAM::CMP::EthernetPayload::getFlag` (ne0 result) -/
def EthernetPayload_getFlag_prog (p_mask : Op) : List Op × Nat :=
  ([p_mask, .rd 0 2, .const 65280, .band 1 2, .sshr 32 3 8, .const 255, .band 1 5, .sshl 32 6 8, .bor 4 7, .trunc 16 8, .band 9 0], 10)

/-- bit program of `ASAM::CMP::EthernetPayload::getFlags` (val result) -/
def EthernetPayload_getFlags_prog  : List Op × Nat :=
  ([.rd 0 2, .const 65280, .band 0 1, .sshr 32 2 8, .const 255, .band 0 4, .sshl 32 5 8, .bor 3 6, .trunc 16 7], 8)

/-- bit program of `ASAM::CMP::EthernetPayload::setFlag` (void result) -/
def EthernetPayload_setFlag_prog (p_mask : Op) (p_value : Bool) : List Op × Nat :=
  if p_value then
    ([p_mask, .rd 0 2, .const 65280, .band 1 2, .sshr 32 3 8, .const 255, .band 1 5, .sshl 32 6 8, .bor 4 7, .trunc 16 8, .bor 9 0, .trunc 16 10, .const 65280, .band 11 12, .sshr 32 13 8, .const 255, .band 11 15, .sshl 32 16 8, .bor 14 17, .trunc 16 18, .wr 0 2 19], 0)
  else
    ([p_mask, .rd 0 2, .const 65280, .band 1 2, .sshr 32 3 8, .const 255, .band 1 5, .sshl 32 6 8, .bor 4 7, .trunc 16 8, .bnot 32 0, .band 9 10, .trunc 16 11, .const 65280, .band 12 13, .sshr 32 14 8, .const 255, .band 12 16, .sshl 32 17 8, .bor 15 18, .trunc 16 19, .wr 0 2 20], 0)

/-- bit program of `ASAM::CMP::EthernetPayload::setFlags` (void result) -/
def EthernetPayload_setFlags_prog (p_newFlags : Op) : List Op × Nat :=
  ([p_newFlags, .const 65280, .band 0 1, .sshr 32 2 8, .const 255, .band 0 4, .sshl 32 5 8, .bor 3 6, .trunc 16 7, .wr 0 2 8], 0)

/-- bit program of `ASAM::CMP::InterfacePayload::Header::getErrorsTotalRx` (val result) -/
def InterfacePayload_Header_getErrorsTotalRx_prog  : List Op × Nat :=
  ([.rd 20 4, .const 4278190080, .band 0 1, .ushr 32 2 24, .const 16711680, .band 0 4, .ushr 32 5 8, .bor 3 6, .const 65280, .band 0 8, .ushl 32 9 8, .bor 7 10, .const 255, .band 0 12, .ushl 32 13 24, .bor 11 14], 15)

/-- bit program of `ASAM::CMP::InterfacePayload::Header::getErrorsTotalTx` (val result) -/
def InterfacePayload_Header_getErrorsTotalTx_prog  : List Op × Nat :=
  ([.rd 24 4, .const 4278190080, .band 0 1, .ushr 32 2 24, .const 16711680, .band 0 4, .ushr 32 5 8, .bor 3 6, .const 65280, .band 0 8, .ushl 32 9 8, .bor 7 10, .const 255, .band 0 12, .ushl 32 13 24, .bor 11 14], 15)

/-- bit program of `ASAM::CMP::InterfacePayload::Header::getFeatureSupportBitmask` (val result) -/
def InterfacePayload_Header_getFeatureSupportBitmask_prog  : List Op × Nat :=
  ([.rd 32 4, .const 4278190080, .band 0 1, .ushr 32 2 24, .const 16711680, .band 0 4, .ushr 32 5 8, .bor 3 6, .const 65280, .band 0 8, .ushl 32 9 8, .bor 7 10, .const 255, .band 0 12, .ushl 32 13 24, .bor 11 14], 15)

/-- bit program of `ASAM::CMP::InterfacePayload::Header::getInterfaceId` (val result) -/
def InterfacePayload_Header_getInterfaceId_prog  : List Op × Nat :=
  ([.rd 0 4, .const 4278190080, .band 0 1, .ushr 32 2 24, .const 16711680, .band 0 4, .ushr 32 5 8, .bor 3 6, .const 65280, .band 0 8, .ushl 32 9 8, .bor 7 10, .const 255, .band 0 12, .ushl 32 13 24, .bor 11 14], 15)

/-- bit program of `ASAM::CMP::InterfacePayload::Header::getInterfaceStatus` (val result) -/
def InterfacePayload_Header_getInterfaceStatus_prog  : List Op × Nat :=
  ([.rd 29 1], 0)

/-- bit program of `ASAM::CMP::InterfacePayload::Header::getInterfaceType` (val result) -/
def InterfacePayload_Header_getInterfaceType_prog  : List Op × Nat :=
  ([.rd 28 1], 0)

/-- bit program of `ASAM::CMP::InterfacePayload::Header::getMsgDroppedRx` (val result) -/
def InterfacePayload_Header_getMsgDroppedRx_prog  : List Op × Nat :=
  ([.rd 12 4, .const 4278190080, .band 0 1, .ushr 32 2 24, .const 16711680, .band 0 4, .ushr 32 5 8, .bor 3 6, .const 65280, .band 0 8, .ushl 32 9 8, .bor 7 10, .const 255, .band 0 12, .ushl 32 13 24, .bor 11 14], 15)

/-- bit program of `ASAM::CMP::InterfacePayload::Header::getMsgDroppedTx` (val result) -/
def InterfacePayload_Header_getMsgDroppedTx_prog  : List Op × Nat :=
  ([.rd 16 4, .const 4278190080, .band 0 1, .ushr 32 2 24, .const 16711680, .band 0 4, .ushr 32 5 8, .bor 3 6, .const 65280, .band 0 8, .ushl 32 9 8, .bor 7 10, .const 255, .band 0 12, .ushl 32 13 24, .bor 11 14], 15)

/-- bit program of `ASAM::CMP::InterfacePayload::Header::getMsgTotalRx` (val result) -/
def InterfacePayload_Header_getMsgTotalRx_prog  : List Op × Nat :=
  ([.rd 4 4, .const 4278190080, .band 0 1, .ushr 32 2 24, .const 16711680, .band 0 4, .ushr 32 5 8, .bor 3 6, .const 65280, .band 0 8, .ushl 32 9 8, .bor 7 10, .const 255, .band 0 12, .ushl 32 13 24, .bor 11 14], 15)

/-- bit program of `ASAM::CMP::InterfacePayload::Header::getMsgTotalTx` (val result) -/
def InterfacePayload_Header_getMsgTotalTx_prog  : List Op × Nat :=
  ([.rd 8 4, .const 4278190080, .band 0 1, .ushr 32 2 24, .const 16711680, .band 0 4, .ushr 32 5 8, .bor 3 6, .const 65280, .band 0 8, .ushl 32 9 8, .bor 7 10, .const 255, .band 0 12, .ushl 32 13 24, .bor 11 14], 15)

/-- bit program of `ASAM::CMP::InterfacePayload::Header::setErrorsTotalRx` (void result) -/
def InterfacePayload_Header_setErrorsTotalRx_prog (p_errorsTotal : Op) : List Op × Nat :=
  ([p_errorsTotal, .const 4278190080, .band 0 1, .ushr 32 2 24, .const 16711680, .band 0 4, .ushr 32 5 8, .bor 3 6, .const 65280, .band 0 8, .ushl 32 9 8, .bor 7 10, .const 255, .band 0 12, .ushl 32 13 24, .bor 11 14, .wr 20 4 15], 0)

/-- bit program of `ASAM::CMP::InterfacePayload::Header::setErrorsTotalTx` (void result) -/
def InterfacePayload_Header_setErrorsTotalTx_prog (p_errorsTotal : Op) : List Op × Nat :=
  ([p_errorsTotal, .const 4278190080, .band 0 1, .ushr 32 2 24, .const 16711680, .band 0 4, .ushr 32 5 8, .bor 3 6, .const 65280, .band 0 8, .ushl 32 9 8, .bor 7 10, .const 255, .band 0 12, .ushl 32 13 24, .bor 11 14, .wr 24 4 15], 0)

/-- bit program of `ASAM::CMP::InterfacePayload::Header::setFeatureSupportBitmask` (void result) -/
def InterfacePayload_Header_setFeatureSupportBitmask_prog (p_bitmask : Op) : List Op × Nat :=
  ([p_bitmask, .const 4278190080, .band 0 1, .ushr 32 2 24, .const 16711680, .band 0 4, .ushr 32 5 8, .bor 3 6, .const 65280, .band 0 8, .ushl 32 9 8, .bor 7 10, .const 255, .band 0 12, .ushl 32 13 24, .bor 11 14, .wr 32 4 15], 0)

/-- bit program of `ASAM::CMP::InterfacePayload::Header::setInterfaceId` (void result) -/
def InterfacePayload_Header_setInterfaceId_prog (p_id : Op) : List Op × Nat :=
  ([p_id, .const 4278190080, .band 0 1, .ushr 32 2 24, .const 16711680, .band 0 4, .ushr 32 5 8, .bor 3 6, .const 65280, .band 0 8, .ushl 32 9 8, .bor 7 10, .const 255, .band 0 12, .ushl 32 13 24, .bor 11 14, .wr 0 4 15], 0)

/-- bit program of `ASAM::CMP::InterfacePayload::Header::setInterfaceStatus` (void result) -/
def InterfacePayload_Header_setInterfaceStatus_prog (p_status : Op) : List Op × Nat :=
  ([p_status, .wr 29 1 0], 0)

/-- bit program of `ASAM::CMP::InterfacePayload::Header::setInterfaceType` (void result) -/
def InterfacePayload_Header_setInterfaceType_prog (p_ifType : Op) : List Op × Nat :=
  ([p_ifType, .wr 28 1 0], 0)

/-- bit program of `ASAM::CMP::InterfacePayload::Header::setMsgDroppedRx` (void result) -/
def InterfacePayload_Header_setMsgDroppedRx_prog (p_msgDropped : Op) : List Op × Nat :=
  ([p_msgDropped, .const 4278190080, .band 0 1, .ushr 32 2 24, .const 16711680, .band 0 4, .ushr 32 5 8, .bor 3 6, .const 65280, .band 0 8, .ushl 32 9 8, .bor 7 10, .const 255, .band 0 12, .ushl 32 13 24, .bor 11 14, .wr 12 4 15], 0)

/-- bit program of `ASAM::CMP::InterfacePayload::Header::setMsgDroppedTx` (void result) -/
def InterfacePayload_Header_setMsgDroppedTx_prog (p_msgDropped : Op) : List Op × Nat :=
  ([p_msgDropped, .const 4278190080, .band 0 1, .ushr 32 2 24, .const 16711680, .band 0 4, .ushr 32 5 8, .bor 3 6, .const 65280, .band 0 8, .ushl 32 9 8, .bor 7 10, .const 255, .band 0 12, .ushl 32 13 24, .bor 11 14, .wr 16 4 15], 0)

/-- bit program of `ASAM::CMP::InterfacePayload::Header::setMsgTotalRx` (void result) -/
def InterfacePayload_Header_setMsgTotalRx_prog (p_msgTotal : Op) : List Op × Nat :=
  ([p_msgTotal, .const 4278190080, .band 0 1, .ushr 32 2 24, .const 16711680, .band 0 4, .ushr 32 5 8, .bor 3 6, .const 65280, .band 0 8, .ushl 32 9 8, .bor 7 10, .const 255, .band 0 12, .ushl 32 13 24, .bor 11 14, .wr 4 4 15], 0)

/-- bit program of `ASAM::CMP::InterfacePayload::Header::setMsgTotalTx` (void result) -/
def InterfacePayload_Header_setMsgTotalTx_prog (p_msgTotal : Op) : List Op × Nat :=
  ([p_msgTotal, .const 4278190080, .band 0 1, .ushr 32 2 24, .const 16711680, .band 0 4, .ushr 32 5 8, .bor 3 6, .const 65280, .band 0 8, .ushl 32 9 8, .bor 7 10, .const 255, .band 0 12, .ushl 32 13 24, .bor 11 14, .wr 8 4 15], 0)

/-- bit program of `ASAM::CMP::InterfacePayload::getErrorsTotalRx` (val result) -/
def InterfacePayload_getErrorsTotalRx_prog  : List Op × Nat :=
  ([.rd 20 4, .const 4278190080, .band 0 1, .ushr 32 2 24, .const 16711680, .band 0 4, .ushr 32 5 8, .bor 3 6, .const 65280, .band 0 8, .ushl 32 9 8, .bor 7 10, .const 255, .band 0 12, .ushl 32 13 24, .bor 11 14], 15)

/-- bit program of `ASAM::CMP::InterfacePayload::getErrorsTotalTx` (val result) -/
def InterfacePayload_getErrorsTotalTx_prog  : List Op × Nat :=
  ([.rd 24 4, .const 4278190080, .band 0 1, .ushr 32 2 24, .const 16711680, .band 0 4, .ushr 32 5 8, .bor 3 6, .const 65280, .band 0 8, .ushl 32 9 8, .bor 7 10, .const 255, .band 0 12, .ushl 32 13 24, .bor 11 14], 15)

/-- bit program of `ASAM::CMP::InterfacePayload::getFeatureSupportBitmask` (val result) -/
def InterfacePayload_getFeatureSupportBitmask_prog  : List Op × Nat :=
  ([.rd 32 4, .const 4278190080, .band 0 1, .ushr 32 2 24, .const 16711680, .band 0 4, .ushr 32 5 8, .bor 3 6, .const 65280, .band 0 8, .ushl 32 9 8, .bor 7 10, .const 255, .band 0 12, .ushl 32 13 24, .bor 11 14], 15)

/-- bit program of `ASAM::CMP::InterfacePayload::getInterfaceId` (val result) -/
def InterfacePayload_getInterfaceId_prog  : List Op × Nat :=
  ([.rd 0 4, .const 4278190080, .band 0 1, .ushr 32 2 24, .const 16711680, .band 0 4, .ushr 32 5 8, .bor 3 6, .const 65280, .band 0 8, .ushl 32 9 8, .bor 7 10, .const 255, .band 0 12, .ushl 32 13 24, .bor 11 14], 15)

/-- bit program of `ASAM::CMP::InterfacePayload::getInterfaceStatus` (val result) -/
def InterfacePayload_getInterfaceStatus_prog  : List Op × Nat :=
  ([.rd 29 1], 0)

/-- bit program of `ASAM::CMP::InterfacePayload::getInterfaceType` (val result) -/
def InterfacePayload_getInterfaceType_prog  : List Op × Nat :=
  ([.rd 28 1], 0)

/-- bit program of `ASAM::CMP::InterfacePayload::getMsgDroppedRx` (val result) -/
def InterfacePayload_getMsgDroppedRx_prog  : List Op × Nat :=
  ([.rd 12 4, .const 4278190080, .band 0 1, .ushr 32 2 24, .const 16711680, .band 0 4, .ushr 32 5 8, .bor 3 6, .const 65280, .band 0 8, .ushl 32 9 8, .bor 7 10, .const 255, .band 0 12, .ushl 32 13 24, .bor 11 14], 15)

/-- bit program of `ASAM::CMP::InterfacePayload::getMsgDroppedTx` (val result) -/
def InterfacePayload_getMsgDroppedTx_prog  : List Op × Nat :=
  ([.rd 16 4, .const 4278190080, .band 0 1, .ushr 32 2 24, .const 16711680, .band 0 4, .ushr 32 5 8, .bor 3 6, .const 65280, .band 0 8, .ushl 32 9 8, .bor 7 10, .const 255, .band 0 12, .ushl 32 13 24, .bor 11 14], 15)

/-- bit program of `ASAM::CMP::InterfacePayload::getMsgTotalRx` (val result) -/
def InterfacePayload_getMsgTotalRx_prog  : List Op × Nat :=
  ([.rd 4 4, .const 4278190080, .band 0 1, .ushr 32 2 24, .const 16711680, .band 0 4, .ushr 32 5 8, .bor 3 6, .const 65280, .band 0 8, .ushl 32 9 8, .bor 7 10, .const 255, .band 0 12, .ushl 32 13 24, .bor 11 14], 15)

/-- bit program of `ASAM::CMP::InterfacePayload::getMsgTotalTx` (val result) -/
def InterfacePayload_getMsgTotalTx_prog  : List Op × Nat :=
  ([.rd 8 4, .const 4278190080, .band 0 1, .ushr 32 2 24, .const 16711680, .band 0 4, .ushr 32 5 8, .bor 3 6, .const 65280, .band 0 8, .ushl 32 9 8, .bor 7 10, .const 255, .band 0 12, .ushl 32 13 24, .bor 11 14], 15)

/-- bit program of `ASAM::CMP::InterfacePayload::setErrorsTotalRx` (void result) -/
def InterfacePayload_setErrorsTotalRx_prog (p_errorsTotal : Op) : List Op × Nat :=
  ([p_errorsTotal, .const 4278190080, .band 0 1, .ushr 32 2 24, .const 16711680, .band 0 4, .ushr 32 5 8, .bor 3 6, .const 65280, .band 0 8, .ushl 32 9 8, .bor 7 10, .const 255, .band 0 12, .ushl 32 13 24, .bor 11 14, .wr 20 4 15], 0)

/-- bit program of `ASAM::CMP::InterfacePayload::setErrorsTotalTx` (void result) -/
def InterfacePayload_setErrorsTotalTx_prog (p_errorsTotal : Op) : List Op × Nat :=
  ([p_errorsTotal, .const 4278190080, .band 0 1, .ushr 32 2 24, .const 16711680, .band 0 4, .ushr 32 5 8, .bor 3 6, .const 65280, .band 0 8, .ushl 32 9 8, .bor 7 10, .const 255, .band 0 12, .ushl 32 13 24, .bor 11 14, .wr 24 4 15], 0)

/-- bit program of `ASAM::CMP::InterfacePayload::setFeatureSupportBitmask` (void result) -/
def InterfacePayload_setFeatureSupportBitmask_prog (p_bitmask : Op) : List Op × Nat :=
  ([p_bitmask, .const 4278190080, .band 0 1, .ushr 32 2 24, .const 16711680, .band 0 4, .ushr 32 5 8, .bor 3 6, .const 65280, .band 0 8, .ushl 32 9 8, .bor 7 10, .const 255, .band 0 12, .ushl 32 13 24, .bor 11 14, .wr 32 4 15], 0)

/-- bit program of `ASAM::CMP::InterfacePayload::setInterfaceId` (void result) -/
def InterfacePayload_setInterfaceId_prog (p_id : Op) : List Op × Nat :=
  ([p_id, .const 4278190080, .band 0 1, .ushr 32 2 24, .const 16711680, .band 0 4, .ushr 32 5 8, .bor 3 6, .const 65280, .band 0 8, .ushl 32 9 8, .bor 7 10, .const 255, .band 0 12, .ushl 32 13 24, .bor 11 14, .wr 0 4 15], 0)

/-- bit program of `ASAM::CMP::InterfacePayload::setInterfaceStatus` (void result) -/
def InterfacePayload_setInterfaceStatus_prog (p_status : Op) : List Op × Nat :=
  ([p_status, .wr 29 1 0], 0)

/-- bit program of `ASAM::CMP::InterfacePayload::setInterfaceType` (void result) -/
def InterfacePayload_setInterfaceType_prog (p_ifType : Op) : List Op × Nat :=
  ([p_ifType, .wr 28 1 0], 0)

/-- bit program of `ASAM::CMP::InterfacePayload::setMsgDroppedRx` (void result) -/
def InterfacePayload_setMsgDroppedRx_prog (p_msgDropped : Op) : List Op × Nat :=
  ([p_msgDropped, .const 4278190080, .band 0 1, .ushr 32 2 24, .const 16711680, .band 0 4, .ushr 32 5 8, .bor 3 6, .const 65280, .band 0 8, .ushl 32 9 8, .bor 7 10, .const 255, .band 0 12, .ushl 32 13 24, .bor 11 14, .wr 12 4 15], 0)

/-- bit program of `ASAM::CMP::InterfacePayload::setMsgDroppedTx` (void result) -/
def InterfacePayload_setMsgDroppedTx_prog (p_msgDropped : Op) : List Op × Nat :=
  ([p_msgDropped, .const 4278190080, .band 0 1, .ushr 32 2 24, .const 16711680, .band 0 4, .ushr 32 5 8, .bor 3 6, .const 65280, .band 0 8, .ushl 32 9 8, .bor 7 10, .const 255, .band 0 12, .ushl 32 13 24, .bor 11 14, .wr 16 4 15], 0)

/-- bit program of `ASAM::CMP::InterfacePayload::setMsgTotalRx` (void result) -/
def InterfacePayload_setMsgTotalRx_prog (p_msgTotal : Op) : List Op × Nat :=
  ([p_msgTotal, .const 4278190080, .band 0 1, .ushr 32 2 24, .const 16711680, .band 0 4, .ushr 32 5 8, .bor 3 6, .const 65280, .band 0 8, .ushl 32 9 8, .bor 7 10, .const 255, .band 0 12, .ushl 32 13 24, .bor 11 14, .wr 4 4 15], 0)

/-- bit program of `ASAM::CMP::InterfacePayload::setMsgTotalTx` (void result) -/
def InterfacePayload_setMsgTotalTx_prog (p_msgTotal : Op) : List Op × Nat :=
  ([p_msgTotal, .const 4278190080, .band 0 1, .ushr 32 2 24, .const 16711680, .band 0 4, .ushr 32 5 8, .bor 3 6, .const 65280, .band 0 8, .ushl 32 9 8, .bor 7 10, .const 255, .band 0 12, .ushl 32 13 24, .bor 11 14, .wr 8 4 15], 0)

/-- bit program of `ASAM::CMP::InterfaceStatus::getInterfaceId` (val result) -/
def InterfaceStatus_getInterfaceId_prog  : List Op × Nat :=
  ([.rd 32 4], 0)

/-- bit program of `ASAM::CMP::LinPayload::Header::getChecksum` (val result) -/
def LinPayload_Header_getChecksum_prog  : List Op × Nat :=
  ([.rd 6 1], 0)

/-- bit program of `ASAM::CMP::LinPayload::Header::getDataLength` (val result) -/
def LinPayload_Header_getDataLength_prog  : List Op × Nat :=
  ([.rd 7 1], 0)

/-- bit program of `ASAM::CMP::LinPayload::Header::getFlag` (ne0 result) -/
def LinPayload_Header_getFlag_prog (p_mask : Op) : List Op × Nat :=
  ([p_mask, .rd 0 2, .const 65280, .band 1 2, .sshr 32 3 8, .const 255, .band 1 5, .sshl 32 6 8, .bor 4 7, .trunc 16 8, .band 9 0], 10)

/-- bit program of `ASAM::CMP::LinPayload::Header::getFlags` (val result) -/
def LinPayload_Header_getFlags_prog  : List Op × Nat :=
  ([.rd 0 2, .const 65280, .band 0 1, .sshr 32 2 8, .const 255, .band 0 4, .sshl 32 5 8, .bor 3 6, .trunc 16 7], 8)

/-- bit program of `ASAM::CMP::LinPayload::Header::getLinId` (val result) -/
def LinPayload_Header_getLinId_prog  : List Op × Nat :=
  ([.rd 4 1, .const 63, .trunc 8 1, .band 0 2, .trunc 8 3], 4)

/-- bit program of `ASAM::CMP::LinPayload::Header::getParityBits` (val result) -/
def LinPayload_Header_getParityBits_prog  : List Op × Nat :=
  ([.rd 4 1, .const 192, .trunc 8 1, .band 0 2, .sshr 32 3 6, .trunc 8 4], 5)

/-- bit program of `ASAM::CMP::LinPayload::Header::setChecksum` (void result) -/
def LinPayload_Header_setChecksum_prog (p_newChecksum : Op) : List Op × Nat :=
  ([p_newChecksum, .wr 6 1 0], 0)

/-- bit program of `ASAM::CMP::LinPayload::Header::setDataLength` (void result) -/
def LinPayload_Header_setDataLength_prog (p_length : Op) : List Op × Nat :=
  ([p_length, .wr 7 1 0], 0)

/-- bit program of `ASAM::CMP::LinPayload::Header::setFlag` (void result) -/
def LinPayload_Header_setFlag_prog (p_mask : Op) (p_value : Bool) : List Op × Nat :=
  if p_value then
    ([p_mask, .rd 0 2, .const 65280, .band 1 2, .sshr 32 3 8, .const 255, .band 1 5, .sshl 32 6 8, .bor 4 7, .trunc 16 8, .bor 9 0, .trunc 16 10, .const 65280, .band 11 12, .sshr 32 13 8, .const 255, .band 11 15, .sshl 32 16 8, .bor 14 17, .trunc 16 18, .wr 0 2 19], 0)
  else
    ([p_mask, .rd 0 2, .const 65280, .band 1 2, .sshr 32 3 8, .const 255, .band 1 5, .sshl 32 6 8, .bor 4 7, .trunc 16 8, .bnot 32 0, .band 9 10, .trunc 16 11, .const 65280, .band 12 13, .sshr 32 14 8, .const 255, .band 12 16, .sshl 32 17 8, .bor 15 18, .trunc 16 19, .wr 0 2 20], 0)

/-- bit program of `ASAM::CMP::LinPayload::Header::setFlags` (void result) -/
def LinPayload_Header_setFlags_prog (p_newFlags : Op) : List Op × Nat :=
  ([p_newFlags, .const 65280, .band 0 1, .sshr 32 2 8, .const 255, .band 0 4, .sshl 32 5 8, .bor 3 6, .trunc 16 7, .wr 0 2 8], 0)

/-- bit program of `ASAM::CMP::LinPayload::Header::setLinId` (void result) -/
def LinPayload_Header_setLinId_prog (p_id : Op) : List Op × Nat :=
  ([p_id, .const 63, .trunc 8 1, .bnot 32 2, .rd 4 1, .band 4 3, .trunc 8 5, .wr 4 1 6, .const 63, .trunc 8 8, .band 0 9, .rd 4 1, .bor 11 10, .trunc 8 12, .wr 4 1 13], 0)

/-- bit program of `ASAM::CMP::LinPayload::Header::setParityBits` (void result) -/
def LinPayload_Header_setParityBits_prog (p_parity : Op) : List Op × Nat :=
  ([p_parity, .const 192, .trunc 8 1, .bnot 32 2, .rd 4 1, .band 4 3, .trunc 8 5, .wr 4 1 6, .sshl 32 0 6, .rd 4 1, .bor 9 8, .trunc 8 10, .wr 4 1 11], 0)

/-- bit program of `ASAM::CMP::LinPayload::getChecksum` (val result) -/
def LinPayload_getChecksum_prog  : List Op × Nat :=
  ([.rd 6 1], 0)

/-- bit program of `ASAM::CMP::LinPayload::getDataLength` (val result) -/
def LinPayload_getDataLength_prog  : List Op × Nat :=
  ([.rd 7 1], 0)

/-- bit program of `ASAM::CMP::LinPayload::getFlag` (ne0 result) -/
def LinPayload_getFlag_prog (p_mask : Op) : List Op × Nat :=
  ([p_mask, .rd 0 2, .const 65280, .band 1 2, .sshr 32 3 8, .const 255, .band 1 5, .sshl 32 6 8, .bor 4 7, .trunc 16 8, .band 9 0], 10)

/-- bit program of `ASAM::CMP::LinPayload::getFlags` (val result) -/
def LinPayload_getFlags_prog  : List Op × Nat :=
  ([.rd 0 2, .const 65280, .band 0 1, .sshr 32 2 8, .const 255, .band 0 4, .sshl 32 5 8, .bor 3 6, .trunc 16 7], 8)

/-- bit program of `ASAM::CMP::LinPayload::getLinId` (val result) -/
def LinPayload_getLinId_prog  : List Op × Nat :=
  ([.rd 4 1, .const 63, .trunc 8 1, .band 0 2, .trunc 8 3], 4)

/-- bit program of `ASAM::CMP::LinPayload::getParityBits` (val result) -/
def LinPayload_getParityBits_prog  : List Op × Nat :=
  ([.rd 4 1, .const 192, .trunc 8 1, .band 0 2, .sshr 32 3 6, .trunc 8 4], 5)

/-- bit program of `ASAM::CMP::LinPayload::setChecksum` (void result) -/
def LinPayload_setChecksum_prog (p_checksum : Op) : List Op × Nat :=
  ([p_checksum, .wr 6 1 0], 0)

/-- bit program of `ASAM::CMP::LinPayload::setFlag` (void result) -/
def LinPayload_setFlag_prog (p_mask : Op) (p_value : Bool) : List Op × Nat :=
  if p_value then
    ([p_mask, .rd 0 2, .const 65280, .band 1 2, .sshr 32 3 8, .const 255, .band 1 5, .sshl 32 6 8, .bor 4 7, .trunc 16 8, .bor 9 0, .trunc 16 10, .const 65280, .band 11 12, .sshr 32 13 8, .const 255, .band 11 15, .sshl 32 16 8, .bor 14 17, .trunc 16 18, .wr 0 2 19], 0)
  else
    ([p_mask, .rd 0 2, .const 65280, .band 1 2, .sshr 32 3 8, .const 255, .band 1 5, .sshl 32 6 8, .bor 4 7, .trunc 16 8, .bnot 32 0, .band 9 10, .trunc 16 11, .const 65280, .band 12 13, .sshr 32 14 8, .const 255, .band 12 16, .sshl 32 17 8, .bor 15 18, .trunc 16 19, .wr 0 2 20], 0)

/-- bit program of `ASAM::CMP::LinPayload::setFlags` (void result) -/
def LinPayload_setFlags_prog (p_flags : Op) : List Op × Nat :=
  ([p_flags, .const 65280, .band 0 1, .sshr 32 2 8, .const 255, .band 0 4, .sshl 32 5 8, .bor 3 6, .trunc 16 7, .wr 0 2 8], 0)

/-- bit program of `ASAM::CMP::LinPayload::setLinId` (void result) -/
def LinPayload_setLinId_prog (p_id : Op) : List Op × Nat :=
  ([p_id, .const 63, .trunc 8 1, .bnot 32 2, .rd 4 1, .band 4 3, .trunc 8 5, .wr 4 1 6, .const 63, .trunc 8 8, .band 0 9, .rd 4 1, .bor 11 10, .trunc 8 12, .wr 4 1 13], 0)

/-- bit program of `ASAM::CMP::LinPayload::setParityBits` (void result) -/
def LinPayload_setParityBits_prog (p_parity : Op) : List Op × Nat :=
  ([p_parity, .const 192, .trunc 8 1, .bnot 32 2, .rd 4 1, .band 4 3, .trunc 8 5, .wr 4 1 6, .sshl 32 0 6, .rd 4 1, .bor 9 8, .trunc 8 10, .wr 4 1 11], 0)

/-- bit program of `ASAM::CMP::MessageHeader::getCommonFlag` (ne0 result) -/
def MessageHeader_getCommonFlag_prog (p_mask : Op) : List Op × Nat :=
  ([p_mask, .rd 12 1, .band 1 0], 2)

/-- bit program of `ASAM::CMP::MessageHeader::getCommonFlags` (val result) -/
def MessageHeader_getCommonFlags_prog  : List Op × Nat :=
  ([.rd 12 1], 0)

/-- bit program of `ASAM::CMP::MessageHeader::getInterfaceId` (val result) -/
def MessageHeader_getInterfaceId_prog  : List Op × Nat :=
  ([.rd 8 4, .const 4278190080, .band 0 1, .ushr 32 2 24, .const 16711680, .band 0 4, .ushr 32 5 8, .bor 3 6, .const 65280, .band 0 8, .ushl 32 9 8, .bor 7 10, .const 255, .band 0 12, .ushl 32 13 24, .bor 11 14], 15)

/-- bit program of `ASAM::CMP::MessageHeader::getPayloadLength` (val result) -/
def MessageHeader_getPayloadLength_prog  : List Op × Nat :=
  ([.rd 14 2, .const 65280, .band 0 1, .sshr 32 2 8, .const 255, .band 0 4, .sshl 32 5 8, .bor 3 6, .trunc 16 7], 8)

/-- bit program of `ASAM::CMP::MessageHeader::getPayloadType` (val result) -/
def MessageHeader_getPayloadType_prog  : List Op × Nat :=
  ([.rd 13 1], 0)

/-- bit program of `ASAM::CMP::MessageHeader::getSegmentType` (val result) -/
def MessageHeader_getSegmentType_prog  : List Op × Nat :=
  ([.rd 12 1, .const 12, .band 0 1, .trunc 8 2], 3)

/-- bit program of `ASAM::CMP::MessageHeader::getTimestamp` (val result) -/
def MessageHeader_getTimestamp_prog  : List Op × Nat :=
  ([.rd 0 8, .const 18374686479671623680, .band 0 1, .ushr 64 2 56, .const 71776119061217280, .band 0 4, .ushr 64 5 40, .bor 3 6, .const 280375465082880, .band 0 8, .ushr 64 9 24, .bor 7 10, .const 1095216660480, .band 0 12, .ushr 64 13 8, .bor 11 14, .const 4278190080, .band 0 16, .ushl 64 17 8, .bor 15 18, .const 16711680, .sext 32 64 20, .band 0 21, .ushl 64 22 24, .bor 19 23, .const 65280, .sext 32 64 25, .band 0 26, .ushl 64 27 40, .bor 24 28, .const 255, .sext 32 64 30, .band 0 31, .ushl 64 32 56, .bor 29 33], 34)

/-- bit program of `ASAM::CMP::MessageHeader::getVendorId` (val result) -/
def MessageHeader_getVendorId_prog  : List Op × Nat :=
  ([.rd 10 2, .const 65280, .band 0 1, .sshr 32 2 8, .const 255, .band 0 4, .sshl 32 5 8, .bor 3 6, .trunc 16 7], 8)

/-- bit program of `ASAM::CMP::MessageHeader::setCommonFlag` (void result) -/
def MessageHeader_setCommonFlag_prog (p_mask : Op) (p_value : Bool) : List Op × Nat :=
  ([p_mask, .rd 12 1, .bor 1 0, .rd 12 1, .bnot 32 0, .band 3 4, .trunc 8 (if p_value then 2 else 5), .wr 12 1 6], 0)

/-- bit program of `ASAM::CMP::MessageHeader::setCommonFlags` (void result) -/
def MessageHeader_setCommonFlags_prog (p_newFlags : Op) : List Op × Nat :=
  ([p_newFlags, .wr 12 1 0], 0)

/-- bit program of `ASAM::CMP::MessageHeader::setInterfaceId` (void result) -/
def MessageHeader_setInterfaceId_prog (p_id : Op) : List Op × Nat :=
  ([p_id, .const 4278190080, .band 0 1, .ushr 32 2 24, .const 16711680, .band 0 4, .ushr 32 5 8, .bor 3 6, .const 65280, .band 0 8, .ushl 32 9 8, .bor 7 10, .const 255, .band 0 12, .ushl 32 13 24, .bor 11 14, .wr 8 4 15], 0)

/-- bit program of `ASAM::CMP::MessageHeader::setPayloadLength` (void result) -/
def MessageHeader_setPayloadLength_prog (p_length : Op) : List Op × Nat :=
  ([p_length, .const 65280, .band 0 1, .sshr 32 2 8, .const 255, .band 0 4, .sshl 32 5 8, .bor 3 6, .trunc 16 7, .wr 14 2 8], 0)

/-- bit program of `ASAM::CMP::MessageHeader::setPayloadType` (void result) -/
def MessageHeader_setPayloadType_prog (p_type : Op) : List Op × Nat :=
  ([p_type, .wr 13 1 0], 0)

/-- bit program of `ASAM::CMP::MessageHeader::setSegmentType` (void result) -/
def MessageHeader_setSegmentType_prog (p_type : Op) : List Op × Nat :=
  ([p_type, .const 12, .bnot 32 1, .rd 12 1, .band 3 2, .trunc 8 4, .wr 12 1 5, .rd 12 1, .bor 7 0, .trunc 8 8, .wr 12 1 9], 0)

/-- bit program of `ASAM::CMP::MessageHeader::setTimestamp` (void result) -/
def MessageHeader_setTimestamp_prog (p_newTimestamp : Op) : List Op × Nat :=
  ([p_newTimestamp, .const 18374686479671623680, .band 0 1, .ushr 64 2 56, .const 71776119061217280, .band 0 4, .ushr 64 5 40, .bor 3 6, .const 280375465082880, .band 0 8, .ushr 64 9 24, .bor 7 10, .const 1095216660480, .band 0 12, .ushr 64 13 8, .bor 11 14, .const 4278190080, .band 0 16, .ushl 64 17 8, .bor 15 18, .const 16711680, .sext 32 64 20, .band 0 21, .ushl 64 22 24, .bor 19 23, .const 65280, .sext 32 64 25, .band 0 26, .ushl 64 27 40, .bor 24 28, .const 255, .sext 32 64 30, .band 0 31, .ushl 64 32 56, .bor 29 33, .wr 0 8 34], 0)

/-- bit program of `ASAM::CMP::MessageHeader::setVendorId` (void result) -/
def MessageHeader_setVendorId_prog (p_id : Op) : List Op × Nat :=
  ([p_id, .const 65280, .band 0 1, .sshr 32 2 8, .const 255, .band 0 4, .sshl 32 5 8, .bor 3 6, .trunc 16 7, .wr 10 2 8], 0)

/-- bit program of `ASAM::CMP::Packet::getCommonFlag` (ne0 result) -/
def Packet_getCommonFlag_prog (p_mask : Op) : List Op × Nat :=
  ([p_mask, .rd 30 1, .band 1 0], 2)

/-- bit program of `ASAM::CMP::Packet::getCommonFlags` (val result) -/
def Packet_getCommonFlags_prog  : List Op × Nat :=
  ([.rd 30 1], 0)

/-- bit program of `ASAM::CMP::Packet::getDeviceId` (val result) -/
def Packet_getDeviceId_prog  : List Op × Nat :=
  ([.rd 10 2], 0)

/-- bit program of `ASAM::CMP::Packet::getInterfaceId` (val result) -/
def Packet_getInterfaceId_prog  : List Op × Nat :=
  ([.rd 24 4], 0)

/-- bit program of `ASAM::CMP::Packet::getSegmentType` (val result) -/
def Packet_getSegmentType_prog  : List Op × Nat :=
  ([.rd 31 1], 0)

/-- bit program of `ASAM::CMP::Packet::getSequenceCounter` (val result) -/
def Packet_getSequenceCounter_prog  : List Op × Nat :=
  ([.rd 14 2], 0)

/-- bit program of `ASAM::CMP::Packet::getStreamId` (val result) -/
def Packet_getStreamId_prog  : List Op × Nat :=
  ([.rd 12 1], 0)

/-- bit program of `ASAM::CMP::Packet::getTimestamp` (val result) -/
def Packet_getTimestamp_prog  : List Op × Nat :=
  ([.rd 16 8], 0)

/-- bit program of `ASAM::CMP::Packet::getVendorId` (val result) -/
def Packet_getVendorId_prog  : List Op × Nat :=
  ([.rd 28 2], 0)

/-- bit program of `ASAM::CMP::Packet::getVersion` (val result) -/
def Packet_getVersion_prog  : List Op × Nat :=
  ([.rd 8 1], 0)

/-- bit program of `ASAM::CMP::Packet::setCommonFlag` (void result) -/
def Packet_setCommonFlag_prog (p_mask : Op) (p_value : Bool) : List Op × Nat :=
  ([p_mask, .rd 30 1, .bor 1 0, .rd 30 1, .bnot 32 0, .band 3 4, .trunc 8 (if p_value then 2 else 5), .wr 30 1 6], 0)

/-- bit program of `ASAM::CMP::Packet::setCommonFlags` (void result) -/
def Packet_setCommonFlags_prog (p_flags : Op) : List Op × Nat :=
  ([p_flags, .wr 30 1 0], 0)

/-- bit program of `ASAM::CMP::Packet::setDeviceId` (void result) -/
def Packet_setDeviceId_prog (p_value : Op) : List Op × Nat :=
  ([p_value, .wr 10 2 0], 0)

/-- bit program of `ASAM::CMP::Packet::setInterfaceId` (void result) -/
def Packet_setInterfaceId_prog (p_id : Op) : List Op × Nat :=
  ([p_id, .wr 24 4 0], 0)

/-- bit program of `ASAM::CMP::Packet::setSegmentType` (void result) -/
def Packet_setSegmentType_prog (p_type : Op) : List Op × Nat :=
  ([p_type, .wr 31 1 0], 0)

/-- bit program of `ASAM::CMP::Packet::setSequenceCounter` (void result) -/
def Packet_setSequenceCounter_prog (p_counter : Op) : List Op × Nat :=
  ([p_counter, .wr 14 2 0], 0)

/-- bit program of `ASAM::CMP::Packet::setStreamId` (void result) -/
def Packet_setStreamId_prog (p_value : Op) : List Op × Nat :=
  ([p_value, .wr 12 1 0], 0)

/-- bit program of `ASAM::CMP::Packet::setTimestamp` (void result) -/
def Packet_setTimestamp_prog (p_newTimestamp : Op) : List Op × Nat :=
  ([p_newTimestamp, .wr 16 8 0], 0)

/-- bit program of `ASAM::CMP::Packet::setVendorId` (void result) -/
def Packet_setVendorId_prog (p_id : Op) : List Op × Nat :=
  ([p_id, .wr 28 2 0], 0)

/-- bit program of `ASAM::CMP::Packet::setVersion` (void result) -/
def Packet_setVersion_prog (p_value : Op) : List Op × Nat :=
  ([p_value, .wr 8 1 0], 0)

/-- bit program of `ASAM::CMP::PayloadType::getMessageType` (val result) -/
def PayloadType_getMessageType_prog  : List Op × Nat :=
  ([.rd 0 4, .const 65280, .band 0 1, .ushr 32 2 8, .trunc 8 3], 4)

/-- bit program of `ASAM::CMP::PayloadType::getRawPayloadType` (val result) -/
def PayloadType_getRawPayloadType_prog  : List Op × Nat :=
  ([.rd 0 4, .const 255, .band 0 1, .trunc 8 2], 3)

/-- bit program of `ASAM::CMP::PayloadType::getType` (val result) -/
def PayloadType_getType_prog  : List Op × Nat :=
  ([.rd 0 4], 0)

/-- bit program of `ASAM::CMP::PayloadType::setMessageType` (void result) -/
def PayloadType_setMessageType_prog (p_newType : Op) : List Op × Nat :=
  ([p_newType, .const 65280, .bnot 32 1, .rd 0 4, .band 3 2, .wr 0 4 4, .sshl 32 0 8, .rd 0 4, .bor 7 6, .wr 0 4 8], 0)

/-- bit program of `ASAM::CMP::PayloadType::setRawPayloadType` (void result) -/
def PayloadType_setRawPayloadType_prog (p_newType : Op) : List Op × Nat :=
  ([p_newType, .const 255, .bnot 32 1, .rd 0 4, .band 3 2, .wr 0 4 4, .rd 0 4, .bor 6 0, .wr 0 4 7], 0)

/-- bit program of `ASAM::CMP::PayloadType::setType` (void result) -/
def PayloadType_setType_prog (p_newType : Op) : List Op × Nat :=
  ([p_newType, .wr 0 4 0], 0)

/-- bit program of `ASAM::CMP::swapEndian` (val result) -/
def swapEndian_prog (p_inFloat : Op) : List Op × Nat :=
  ([p_inFloat, .const 0, .ushr 32 0 24, .trunc 8 2, .trunc 8 3, .const 4294967040, .band 1 5, .bor 6 4, .ushr 32 0 16, .trunc 8 8, .trunc 8 9, .ushl 32 10 8, .const 4294902015, .band 7 12, .bor 13 11, .ushr 32 0 8, .trunc 8 15, .trunc 8 16, .ushl 32 17 16, .const 4278255615, .band 14 19, .bor 20 18, .trunc 8 0, .trunc 8 22, .ushl 32 23 24, .const 16777215, .band 21 25, .bor 26 24], 27)

/-- bit program of `ASAM::CMP::swapEndian` (val result) -/
def swapEndian_u16_prog (p_value : Op) : List Op × Nat :=
  ([p_value, .const 65280, .band 0 1, .sshr 32 2 8, .const 255, .band 0 4, .sshl 32 5 8, .bor 3 6, .trunc 16 7], 8)

/-- bit program of `ASAM::CMP::swapEndian` (val result) -/
def swapEndian_u32_prog (p_value : Op) : List Op × Nat :=
  ([p_value, .const 4278190080, .band 0 1, .ushr 32 2 24, .const 16711680, .band 0 4, .ushr 32 5 8, .bor 3 6, .const 65280, .band 0 8, .ushl 32 9 8, .bor 7 10, .const 255, .band 0 12, .ushl 32 13 24, .bor 11 14], 15)

/-- bit program of `ASAM::CMP::swapEndian` (val result) -/
def swapEndian_u64_prog (p_value : Op) : List Op × Nat :=
  ([p_value, .const 18374686479671623680, .band 0 1, .ushr 64 2 56, .const 71776119061217280, .band 0 4, .ushr 64 5 40, .bor 3 6, .const 280375465082880, .band 0 8, .ushr 64 9 24, .bor 7 10, .const 1095216660480, .band 0 12, .ushr 64 13 8, .bor 11 14, .const 4278190080, .band 0 16, .ushl 64 17 8, .bor 15 18, .const 16711680, .sext 32 64 20, .band 0 21, .ushl 64 22 24, .bor 19 23, .const 65280, .sext 32 64 25, .band 0 26, .ushl 64 27 40, .bor 24 28, .const 255, .sext 32 64 30, .band 0 31, .ushl 64 32 56, .bor 29 33], 34)

/-- bit program of `ASAM::CMP::swapEndian` (val result) -/
def swapEndian_u8_prog (p_value : Op) : List Op × Nat :=
  ([p_value], 0)

/-- bit program of `ASAM::CMP::to_underlying` (val result) -/
def to_underlying_u83_prog (p_value : Op) : List Op × Nat :=
  ([p_value], 0)

/-- bit program of `ASAM::CMP::to_underlying` (val result) -/
def to_underlying_u162_prog (p_value : Op) : List Op × Nat :=
  ([p_value], 0)

/-- bit program of `ASAM::CMP::to_underlying` (val result) -/
def to_underlying_u84_prog (p_value : Op) : List Op × Nat :=
  ([p_value], 0)

/-- bit program of `ASAM::CMP::to_underlying` (val result) -/
def to_underlying_u82_prog (p_value : Op) : List Op × Nat :=
  ([p_value], 0)

/-- bit program of `ASAM::CMP::to_underlying` (val result) -/
def to_underlying_u86_prog (p_value : Op) : List Op × Nat :=
  ([p_value], 0)

/-- bit program of `ASAM::CMP::to_underlying` (val result) -/
def to_underlying_u16_prog (p_value : Op) : List Op × Nat :=
  ([p_value], 0)

/-- bit program of `ASAM::CMP::to_underlying` (val result) -/
def to_underlying_u85_prog (p_value : Op) : List Op × Nat :=
  ([p_value], 0)

/-- bit program of `ASAM::CMP::to_underlying` (val result) -/
def to_underlying_u8_prog (p_value : Op) : List Op × Nat :=
  ([p_value], 0)

/-- bit program of `TECMP::CanPayload::Header::getArbId` (val result) -/
def TECMP_CanPayload_Header_getArbId_prog  : List Op × Nat :=
  ([.rd 0 4, .const 4278190080, .band 0 1, .ushr 32 2 24, .const 16711680, .band 0 4, .ushr 32 5 8, .bor 3 6, .const 65280, .band 0 8, .ushl 32 9 8, .bor 7 10, .const 255, .band 0 12, .ushl 32 13 24, .bor 11 14], 15)

/-- bit program of `TECMP::CanPayload::Header::getDlc` (val result) -/
def TECMP_CanPayload_Header_getDlc_prog  : List Op × Nat :=
  ([.rd 4 1], 0)

/-- bit program of `TECMP::CanPayload::Header::setArbId` (void result) -/
def TECMP_CanPayload_Header_setArbId_prog (p_newArbId : Op) : List Op × Nat :=
  ([p_newArbId, .const 4278190080, .band 0 1, .ushr 32 2 24, .const 16711680, .band 0 4, .ushr 32 5 8, .bor 3 6, .const 65280, .band 0 8, .ushl 32 9 8, .bor 7 10, .const 255, .band 0 12, .ushl 32 13 24, .bor 11 14, .wr 0 4 15], 0)

/-- bit program of `TECMP::CanPayload::Header::setDlc` (void result) -/
def TECMP_CanPayload_Header_setDlc_prog (p_newDlc : Op) : List Op × Nat :=
  ([p_newDlc, .wr 4 1 0], 0)

/-- bit program of `TECMP::CanPayload::getArbId` (val result) -/
def TECMP_CanPayload_getArbId_prog  : List Op × Nat :=
  ([.rd 0 4, .const 4278190080, .band 0 1, .ushr 32 2 24, .const 16711680, .band 0 4, .ushr 32 5 8, .bor 3 6, .const 65280, .band 0 8, .ushl 32 9 8, .bor 7 10, .const 255, .band 0 12, .ushl 32 13 24, .bor 11 14], 15)

/-- bit program of `TECMP::CanPayload::getDlc` (val result) -/
def TECMP_CanPayload_getDlc_prog  : List Op × Nat :=
  ([.rd 4 1], 0)

/-- bit program of `TECMP::CanPayload::setArbId` (void result) -/
def TECMP_CanPayload_setArbId_prog (p_newArbId : Op) : List Op × Nat :=
  ([p_newArbId, .const 4278190080, .band 0 1, .ushr 32 2 24, .const 16711680, .band 0 4, .ushr 32 5 8, .bor 3 6, .const 65280, .band 0 8, .ushl 32 9 8, .bor 7 10, .const 255, .band 0 12, .ushl 32 13 24, .bor 11 14, .wr 0 4 15], 0)

/-- bit program of `TECMP::CanPayload::setDlc` (void result) -/
def TECMP_CanPayload_setDlc_prog (p_newDlc : Op) : List Op × Nat :=
  ([p_newDlc, .wr 4 1 0], 0)

/-- bit program of `TECMP::CaptureModulePayload::Header::getBufferFill` (val result) -/
def TECMP_CaptureModulePayload_Header_getBufferFill_prog  : List Op × Nat :=
  ([.rd 18 1], 0)

/-- bit program of `TECMP::CaptureModulePayload::Header::getBufferSize` (val result) -/
def TECMP_CaptureModulePayload_Header_getBufferSize_prog  : List Op × Nat :=
  ([.rd 20 4, .const 4278190080, .band 0 1, .ushr 32 2 24, .const 16711680, .band 0 4, .ushr 32 5 8, .bor 3 6, .const 65280, .band 0 8, .ushl 32 9 8, .bor 7 10, .const 255, .band 0 12, .ushl 32 13 24, .bor 11 14], 15)

/-- bit program of `TECMP::CaptureModulePayload::Header::getChassisTemp` (val result) -/
def TECMP_CaptureModulePayload_Header_getChassisTemp_prog  : List Op × Nat :=
  ([.rd 34 1], 0)

/-- bit program of `TECMP::CaptureModulePayload::Header::getDeviceId` (val result) -/
def TECMP_CaptureModulePayload_Header_getDeviceId_prog  : List Op × Nat :=
  ([.rd 6 2, .const 65280, .band 0 1, .sshr 32 2 8, .const 255, .band 0 4, .sshl 32 5 8, .bor 3 6, .trunc 16 7], 8)

/-- bit program of `TECMP::CaptureModulePayload::Header::getDeviceType` (val result) -/
def TECMP_CaptureModulePayload_Header_getDeviceType_prog  : List Op × Nat :=
  ([.rd 2 1], 0)

/-- bit program of `TECMP::CaptureModulePayload::Header::getDeviceVersion` (val result) -/
def TECMP_CaptureModulePayload_Header_getDeviceVersion_prog  : List Op × Nat :=
  ([.rd 1 1], 0)

/-- bit program of `TECMP::CaptureModulePayload::Header::getHwVersionMajor` (val result) -/
def TECMP_CaptureModulePayload_Header_getHwVersionMajor_prog  : List Op × Nat :=
  ([.rd 16 1], 0)

/-- bit program of `TECMP::CaptureModulePayload::Header::getHwVersionMinor` (val result) -/
def TECMP_CaptureModulePayload_Header_getHwVersionMinor_prog  : List Op × Nat :=
  ([.rd 17 1], 0)

/-- bit program of `TECMP::CaptureModulePayload::Header::getIsBufferOverflow` (val result) -/
def TECMP_CaptureModulePayload_Header_getIsBufferOverflow_prog  : List Op × Nat :=
  ([.rd 19 1], 0)

/-- bit program of `TECMP::CaptureModulePayload::Header::getLifecycle` (val result) -/
def TECMP_CaptureModulePayload_Header_getLifecycle_prog  : List Op × Nat :=
  ([.rd 24 8, .const 18374686479671623680, .band 0 1, .ushr 64 2 56, .const 71776119061217280, .band 0 4, .ushr 64 5 40, .bor 3 6, .const 280375465082880, .band 0 8, .ushr 64 9 24, .bor 7 10, .const 1095216660480, .band 0 12, .ushr 64 13 8, .bor 11 14, .const 4278190080, .band 0 16, .ushl 64 17 8, .bor 15 18, .const 16711680, .sext 32 64 20, .band 0 21, .ushl 64 22 24, .bor 19 23, .const 65280, .sext 32 64 25, .band 0 26, .ushl 64 27 40, .bor 24 28, .const 255, .sext 32 64 30, .band 0 31, .ushl 64 32 56, .bor 29 33], 34)

/-- bit program of `TECMP::CaptureModulePayload::Header::getSerialNumber` (val result) -/
def TECMP_CaptureModulePayload_Header_getSerialNumber_prog  : List Op × Nat :=
  ([.rd 8 4, .const 4278190080, .band 0 1, .ushr 32 2 24, .const 16711680, .band 0 4, .ushr 32 5 8, .bor 3 6, .const 65280, .band 0 8, .ushl 32 9 8, .bor 7 10, .const 255, .band 0 12, .ushl 32 13 24, .bor 11 14], 15)

/-- bit program of `TECMP::CaptureModulePayload::Header::getSilliconTemp` (val result) -/
def TECMP_CaptureModulePayload_Header_getSilliconTemp_prog  : List Op × Nat :=
  ([.rd 35 1], 0)

/-- bit program of `TECMP::CaptureModulePayload::Header::getSwVersionMajor` (val result) -/
def TECMP_CaptureModulePayload_Header_getSwVersionMajor_prog  : List Op × Nat :=
  ([.rd 13 1], 0)

/-- bit program of `TECMP::CaptureModulePayload::Header::getSwVersionMinor` (val result) -/
def TECMP_CaptureModulePayload_Header_getSwVersionMinor_prog  : List Op × Nat :=
  ([.rd 14 1], 0)

/-- bit program of `TECMP::CaptureModulePayload::Header::getSwVersionPatch` (val result) -/
def TECMP_CaptureModulePayload_Header_getSwVersionPatch_prog  : List Op × Nat :=
  ([.rd 15 1], 0)

/-- bit program of `TECMP::CaptureModulePayload::Header::getVendorDataLength` (val result) -/
def TECMP_CaptureModulePayload_Header_getVendorDataLength_prog  : List Op × Nat :=
  ([.rd 4 2, .const 65280, .band 0 1, .sshr 32 2 8, .const 255, .band 0 4, .sshl 32 5 8, .bor 3 6, .trunc 16 7], 8)

/-- bit program of `TECMP::CaptureModulePayload::Header::getVendorId` (val result) -/
def TECMP_CaptureModulePayload_Header_getVendorId_prog  : List Op × Nat :=
  ([.rd 0 1], 0)

/-- bit program of `TECMP::CaptureModulePayload::Header::getVoltageFraction` (val result) -/
def TECMP_CaptureModulePayload_Header_getVoltageFraction_prog  : List Op × Nat :=
  ([.rd 33 1], 0)

/-- bit program of `TECMP::CaptureModulePayload::Header::getVoltageWhole` (val result) -/
def TECMP_CaptureModulePayload_Header_getVoltageWhole_prog  : List Op × Nat :=
  ([.rd 32 1], 0)

/-- bit program of `TECMP::CaptureModulePayload::Header::setBufferFill` (void result) -/
def TECMP_CaptureModulePayload_Header_setBufferFill_prog (p_val : Op) : List Op × Nat :=
  ([p_val, .wr 18 1 0], 0)

/-- bit program of `TECMP::CaptureModulePayload::Header::setBufferSize` (void result) -/
def TECMP_CaptureModulePayload_Header_setBufferSize_prog (p_val : Op) : List Op × Nat :=
  ([p_val, .const 4278190080, .band 0 1, .ushr 32 2 24, .const 16711680, .band 0 4, .ushr 32 5 8, .bor 3 6, .const 65280, .band 0 8, .ushl 32 9 8, .bor 7 10, .const 255, .band 0 12, .ushl 32 13 24, .bor 11 14, .wr 20 4 15], 0)

/-- bit program of `TECMP::CaptureModulePayload::Header::setChassisTemp` (void result) -/
def TECMP_CaptureModulePayload_Header_setChassisTemp_prog (p_val : Op) : List Op × Nat :=
  ([p_val, .wr 34 1 0], 0)

/-- bit program of `TECMP::CaptureModulePayload::Header::setDeviceId` (void result) -/
def TECMP_CaptureModulePayload_Header_setDeviceId_prog (p_newDeviceId : Op) : List Op × Nat :=
  ([p_newDeviceId, .const 65280, .band 0 1, .sshr 32 2 8, .const 255, .band 0 4, .sshl 32 5 8, .bor 3 6, .trunc 16 7, .wr 6 2 8], 0)

/-- bit program of `TECMP::CaptureModulePayload::Header::setDeviceType` (void result) -/
def TECMP_CaptureModulePayload_Header_setDeviceType_prog (p_newDeviceType : Op) : List Op × Nat :=
  ([p_newDeviceType, .wr 2 1 0], 0)

/-- bit program of `TECMP::CaptureModulePayload::Header::setDeviceVersion` (void result) -/
def TECMP_CaptureModulePayload_Header_setDeviceVersion_prog (p_newDeviceVersion : Op) : List Op × Nat :=
  ([p_newDeviceVersion, .wr 1 1 0], 0)

/-- bit program of `TECMP::CaptureModulePayload::Header::setHwVersionMajor` (void result) -/
def TECMP_CaptureModulePayload_Header_setHwVersionMajor_prog (p_newValue : Op) : List Op × Nat :=
  ([p_newValue, .wr 16 1 0], 0)

/-- bit program of `TECMP::CaptureModulePayload::Header::setHwVersionMinor` (void result) -/
def TECMP_CaptureModulePayload_Header_setHwVersionMinor_prog (p_newValue : Op) : List Op × Nat :=
  ([p_newValue, .wr 17 1 0], 0)

/-- bit program of `TECMP::CaptureModulePayload::Header::setIsBufferOverflow` (void result) -/
def TECMP_CaptureModulePayload_Header_setIsBufferOverflow_prog (p_val : Op) : List Op × Nat :=
  ([p_val, .wr 19 1 0], 0)

/-- bit program of `TECMP::CaptureModulePayload::Header::setLifecycle` (void result) -/
def TECMP_CaptureModulePayload_Header_setLifecycle_prog (p_val : Op) : List Op × Nat :=
  ([p_val, .const 18374686479671623680, .band 0 1, .ushr 64 2 56, .const 71776119061217280, .band 0 4, .ushr 64 5 40, .bor 3 6, .const 280375465082880, .band 0 8, .ushr 64 9 24, .bor 7 10, .const 1095216660480, .band 0 12, .ushr 64 13 8, .bor 11 14, .const 4278190080, .band 0 16, .ushl 64 17 8, .bor 15 18, .const 16711680, .sext 32 64 20, .band 0 21, .ushl 64 22 24, .bor 19 23, .const 65280, .sext 32 64 25, .band 0 26, .ushl 64 27 40, .bor 24 28, .const 255, .sext 32 64 30, .band 0 31, .ushl 64 32 56, .bor 29 33, .wr 24 8 34], 0)

/-- bit program of `TECMP::CaptureModulePayload::Header::setSerialNumber` (void result) -/
def TECMP_CaptureModulePayload_Header_setSerialNumber_prog (p_newSerialNumber : Op) : List Op × Nat :=
  ([p_newSerialNumber, .const 4278190080, .band 0 1, .ushr 32 2 24, .const 16711680, .band 0 4, .ushr 32 5 8, .bor 3 6, .const 65280, .band 0 8, .ushl 32 9 8, .bor 7 10, .const 255, .band 0 12, .ushl 32 13 24, .bor 11 14, .wr 8 4 15], 0)

/-- bit program of `TECMP::CaptureModulePayload::Header::setSilliconTemp` (void result) -/
def TECMP_CaptureModulePayload_Header_setSilliconTemp_prog (p_val : Op) : List Op × Nat :=
  ([p_val, .wr 35 1 0], 0)

/-- bit program of `TECMP::CaptureModulePayload::Header::setSwVersionMajor` (void result) -/
def TECMP_CaptureModulePayload_Header_setSwVersionMajor_prog (p_newValue : Op) : List Op × Nat :=
  ([p_newValue, .wr 13 1 0], 0)

/-- bit program of `TECMP::CaptureModulePayload::Header::setSwVersionMinor` (void result) -/
def TECMP_CaptureModulePayload_Header_setSwVersionMinor_prog (p_newValue : Op) : List Op × Nat :=
  ([p_newValue, .wr 14 1 0], 0)

/-- bit program of `TECMP::CaptureModulePayload::Header::setSwVersionPatch` (void result) -/
def TECMP_CaptureModulePayload_Header_setSwVersionPatch_prog (p_newValue : Op) : List Op × Nat :=
  ([p_newValue, .wr 15 1 0], 0)

/-- bit program of `TECMP::CaptureModulePayload::Header::setVendorDataLength` (void result) -/
def TECMP_CaptureModulePayload_Header_setVendorDataLength_prog (p_newVendorDataLength : Op) : List Op × Nat :=
  ([p_newVendorDataLength, .const 65280, .band 0 1, .sshr 32 2 8, .const 255, .band 0 4, .sshl 32 5 8, .bor 3 6, .trunc 16 7, .wr 4 2 8], 0)

/-- bit program of `TECMP::CaptureModulePayload::Header::setVendorId` (void result) -/
def TECMP_CaptureModulePayload_Header_setVendorId_prog (p_newId : Op) : List Op × Nat :=
  ([p_newId, .wr 0 1 0], 0)

/-- bit program of `TECMP::CaptureModulePayload::Header::setVoltageFraction` (void result) -/
def TECMP_CaptureModulePayload_Header_setVoltageFraction_prog (p_newValue : Op) : List Op × Nat :=
  ([p_newValue, .wr 33 1 0], 0)

/-- bit program of `TECMP::CaptureModulePayload::Header::setVoltageWhole` (void result) -/
def TECMP_CaptureModulePayload_Header_setVoltageWhole_prog (p_newValue : Op) : List Op × Nat :=
  ([p_newValue, .wr 32 1 0], 0)

/-- bit program of `TECMP::CaptureModulePayload::getBufferFill` (val result) -/
def TECMP_CaptureModulePayload_getBufferFill_prog  : List Op × Nat :=
  ([.rd 18 1], 0)

/-- bit program of `TECMP::CaptureModulePayload::getBufferSize` (val result) -/
def TECMP_CaptureModulePayload_getBufferSize_prog  : List Op × Nat :=
  ([.rd 20 4, .const 4278190080, .band 0 1, .ushr 32 2 24, .const 16711680, .band 0 4, .ushr 32 5 8, .bor 3 6, .const 65280, .band 0 8, .ushl 32 9 8, .bor 7 10, .const 255, .band 0 12, .ushl 32 13 24, .bor 11 14], 15)

/-- bit program of `TECMP::CaptureModulePayload::getChassisTemp` (val result) -/
def TECMP_CaptureModulePayload_getChassisTemp_prog  : List Op × Nat :=
  ([.rd 34 1], 0)

/-- bit program of `TECMP::CaptureModulePayload::getDeviceId` (val result) -/
def TECMP_CaptureModulePayload_getDeviceId_prog  : List Op × Nat :=
  ([.rd 6 2, .const 65280, .band 0 1, .sshr 32 2 8, .const 255, .band 0 4, .sshl 32 5 8, .bor 3 6, .trunc 16 7], 8)

/-- bit program of `TECMP::CaptureModulePayload::getDeviceType` (val result) -/
def TECMP_CaptureModulePayload_getDeviceType_prog  : List Op × Nat :=
  ([.rd 2 1], 0)

/-- bit program of `TECMP::CaptureModulePayload::getDeviceVersion` (val result) -/
def TECMP_CaptureModulePayload_getDeviceVersion_prog  : List Op × Nat :=
  ([.rd 1 1], 0)

/-- bit program of `TECMP::CaptureModulePayload::getHwVersionMajor` (val result) -/
def TECMP_CaptureModulePayload_getHwVersionMajor_prog  : List Op × Nat :=
  ([.rd 16 1], 0)

/-- bit program of `TECMP::CaptureModulePayload::getHwVersionMinor` (val result) -/
def TECMP_CaptureModulePayload_getHwVersionMinor_prog  : List Op × Nat :=
  ([.rd 17 1], 0)

/-- bit program of `TECMP::CaptureModulePayload::getIsBufferOverflow` (val result) -/
def TECMP_CaptureModulePayload_getIsBufferOverflow_prog  : List Op × Nat :=
  ([.rd 19 1], 0)

/-- bit program of `TECMP::CaptureModulePayload::getLifecycle` (val result) -/
def TECMP_CaptureModulePayload_getLifecycle_prog  : List Op × Nat :=
  ([.rd 24 8, .const 18374686479671623680, .band 0 1, .ushr 64 2 56, .const 71776119061217280, .band 0 4, .ushr 64 5 40, .bor 3 6, .const 280375465082880, .band 0 8, .ushr 64 9 24, .bor 7 10, .const 1095216660480, .band 0 12, .ushr 64 13 8, .bor 11 14, .const 4278190080, .band 0 16, .ushl 64 17 8, .bor 15 18, .const 16711680, .sext 32 64 20, .band 0 21, .ushl 64 22 24, .bor 19 23, .const 65280, .sext 32 64 25, .band 0 26, .ushl 64 27 40, .bor 24 28, .const 255, .sext 32 64 30, .band 0 31, .ushl 64 32 56, .bor 29 33], 34)

/-- bit program of `TECMP::CaptureModulePayload::getSerialNumber` (val result) -/
def TECMP_CaptureModulePayload_getSerialNumber_prog  : List Op × Nat :=
  ([.rd 8 4, .const 4278190080, .band 0 1, .ushr 32 2 24, .const 16711680, .band 0 4, .ushr 32 5 8, .bor 3 6, .const 65280, .band 0 8, .ushl 32 9 8, .bor 7 10, .const 255, .band 0 12, .ushl 32 13 24, .bor 11 14], 15)

/-- bit program of `TECMP::CaptureModulePayload::getSilliconTemp` (val result) -/
def TECMP_CaptureModulePayload_getSilliconTemp_prog  : List Op × Nat :=
  ([.rd 35 1], 0)

/-- bit program of `TECMP::CaptureModulePayload::getSwVersionMajor` (val result) -/
def TECMP_CaptureModulePayload_getSwVersionMajor_prog  : List Op × Nat :=
  ([.rd 13 1], 0)

/-- bit program of `TECMP::CaptureModulePayload::getSwVersionMinor` (val result) -/
def TECMP_CaptureModulePayload_getSwVersionMinor_prog  : List Op × Nat :=
  ([.rd 14 1], 0)

/-- bit program of `TECMP::CaptureModulePayload::getSwVersionPatch` (val result) -/
def TECMP_CaptureModulePayload_getSwVersionPatch_prog  : List Op × Nat :=
  ([.rd 15 1], 0)

/-- bit program of `TECMP::CaptureModulePayload::getVendorDataLength` (val result) -/
def TECMP_CaptureModulePayload_getVendorDataLength_prog  : List Op × Nat :=
  ([.rd 4 2, .const 65280, .band 0 1, .sshr 32 2 8, .const 255, .band 0 4, .sshl 32 5 8, .bor 3 6, .trunc 16 7], 8)

/-- bit program of `TECMP::CaptureModulePayload::getVendorId` (val result) -/
def TECMP_CaptureModulePayload_getVendorId_prog  : List Op × Nat :=
  ([.rd 0 1], 0)

/-- bit program of `TECMP::CaptureModulePayload::getVoltageFraction` (val result) -/
def TECMP_CaptureModulePayload_getVoltageFraction_prog  : List Op × Nat :=
  ([.rd 33 1], 0)

/-- bit program of `TECMP::CaptureModulePayload::getVoltageWhole` (val result) -/
def TECMP_CaptureModulePayload_getVoltageWhole_prog  : List Op × Nat :=
  ([.rd 32 1], 0)

/-- bit program of `TECMP::CaptureModulePayload::setBufferFill` (void result) -/
def TECMP_CaptureModulePayload_setBufferFill_prog (p_val : Op) : List Op × Nat :=
  ([p_val, .wr 18 1 0], 0)

/-- bit program of `TECMP::CaptureModulePayload::setBufferSize` (void result) -/
def TECMP_CaptureModulePayload_setBufferSize_prog (p_val : Op) : List Op × Nat :=
  ([p_val, .const 4278190080, .band 0 1, .ushr 32 2 24, .const 16711680, .band 0 4, .ushr 32 5 8, .bor 3 6, .const 65280, .band 0 8, .ushl 32 9 8, .bor 7 10, .const 255, .band 0 12, .ushl 32 13 24, .bor 11 14, .wr 20 4 15], 0)

/-- bit program of `TECMP::CaptureModulePayload::setChassisTemp` (void result) -/
def TECMP_CaptureModulePayload_setChassisTemp_prog (p_val : Op) : List Op × Nat :=
  ([p_val, .wr 34 1 0], 0)

/-- bit program of `TECMP::CaptureModulePayload::setDeviceId` (void result) -/
def TECMP_CaptureModulePayload_setDeviceId_prog (p_newDeviceId : Op) : List Op × Nat :=
  ([p_newDeviceId, .const 65280, .band 0 1, .sshr 32 2 8, .const 255, .band 0 4, .sshl 32 5 8, .bor 3 6, .trunc 16 7, .wr 6 2 8], 0)

/-- bit program of `TECMP::CaptureModulePayload::setDeviceType` (void result) -/
def TECMP_CaptureModulePayload_setDeviceType_prog (p_newDeviceType : Op) : List Op × Nat :=
  ([p_newDeviceType, .wr 2 1 0], 0)

/-- bit program of `TECMP::CaptureModulePayload::setDeviceVersion` (void result) -/
def TECMP_CaptureModulePayload_setDeviceVersion_prog (p_newDeviceVersion : Op) : List Op × Nat :=
  ([p_newDeviceVersion, .wr 1 1 0], 0)

/-- bit program of `TECMP::CaptureModulePayload::setHwVersionMajor` (void result) -/
def TECMP_CaptureModulePayload_setHwVersionMajor_prog (p_newValue : Op) : List Op × Nat :=
  ([p_newValue, .wr 16 1 0], 0)

/-- bit program of `TECMP::CaptureModulePayload::setHwVersionMinor` (void result) -/
def TECMP_CaptureModulePayload_setHwVersionMinor_prog (p_newValue : Op) : List Op × Nat :=
  ([p_newValue, .wr 17 1 0], 0)

/-- bit program of `TECMP::CaptureModulePayload::setIsBufferOverflow` (void result) -/
def TECMP_CaptureModulePayload_setIsBufferOverflow_prog (p_val : Op) : List Op × Nat :=
  ([p_val, .wr 19 1 0], 0)

/-- bit program of `TECMP::CaptureModulePayload::setLifecycle` (void result) -/
def TECMP_CaptureModulePayload_setLifecycle_prog (p_val : Op) : List Op × Nat :=
  ([p_val, .const 18374686479671623680, .band 0 1, .ushr 64 2 56, .const 71776119061217280, .band 0 4, .ushr 64 5 40, .bor 3 6, .const 280375465082880, .band 0 8, .ushr 64 9 24, .bor 7 10, .const 1095216660480, .band 0 12, .ushr 64 13 8, .bor 11 14, .const 4278190080, .band 0 16, .ushl 64 17 8, .bor 15 18, .const 16711680, .sext 32 64 20, .band 0 21, .ushl 64 22 24, .bor 19 23, .const 65280, .sext 32 64 25, .band 0 26, .ushl 64 27 40, .bor 24 28, .const 255, .sext 32 64 30, .band 0 31, .ushl 64 32 56, .bor 29 33, .wr 24 8 34], 0)

/-- bit program of `TECMP::CaptureModulePayload::setSerialNumber` (void result) -/
def TECMP_CaptureModulePayload_setSerialNumber_prog (p_newSerialNumber : Op) : List Op × Nat :=
  ([p_newSerialNumber, .const 4278190080, .band 0 1, .ushr 32 2 24, .const 16711680, .band 0 4, .ushr 32 5 8, .bor 3 6, .const 65280, .band 0 8, .ushl 32 9 8, .bor 7 10, .const 255, .band 0 12, .ushl 32 13 24, .bor 11 14, .wr 8 4 15], 0)

/-- bit program of `TECMP::CaptureModulePayload::setSilliconTemp` (void result) -/
def TECMP_CaptureModulePayload_setSilliconTemp_prog (p_val : Op) : List Op × Nat :=
  ([p_val, .wr 35 1 0], 0)

/-- bit program of `TECMP::CaptureModulePayload::setSwVersionMajor` (void result) -/
def TECMP_CaptureModulePayload_setSwVersionMajor_prog (p_newValue : Op) : List Op × Nat :=
  ([p_newValue, .wr 13 1 0], 0)

/-- bit program of `TECMP::CaptureModulePayload::setSwVersionMinor` (void result) -/
def TECMP_CaptureModulePayload_setSwVersionMinor_prog (p_newValue : Op) : List Op × Nat :=
  ([p_newValue, .wr 14 1 0], 0)

/-- bit program of `TECMP::CaptureModulePayload::setSwVersionPatch` (void result) -/
def TECMP_CaptureModulePayload_setSwVersionPatch_prog (p_newValue : Op) : List Op × Nat :=
  ([p_newValue, .wr 15 1 0], 0)

/-- bit program of `TECMP::CaptureModulePayload::setVendorDataLength` (void result) -/
def TECMP_CaptureModulePayload_setVendorDataLength_prog (p_newVendorDataLength : Op) : List Op × Nat :=
  ([p_newVendorDataLength, .const 65280, .band 0 1, .sshr 32 2 8, .const 255, .band 0 4, .sshl 32 5 8, .bor 3 6, .trunc 16 7, .wr 4 2 8], 0)

/-- bit program of `TECMP::CaptureModulePayload::setVendorId` (void result) -/
def TECMP_CaptureModulePayload_setVendorId_prog (p_newId : Op) : List Op × Nat :=
  ([p_newId, .wr 0 1 0], 0)

/-- bit program of `TECMP::CaptureModulePayload::setVoltageFraction` (void result) -/
def TECMP_CaptureModulePayload_setVoltageFraction_prog (p_newValue : Op) : List Op × Nat :=
  ([p_newValue, .wr 33 1 0], 0)

/-- bit program of `TECMP::CaptureModulePayload::setVoltageWhole` (void result) -/
def TECMP_CaptureModulePayload_setVoltageWhole_prog (p_newValue : Op) : List Op × Nat :=
  ([p_newValue, .wr 32 1 0], 0)

/-- bit program of `TECMP::CmpHeader::getDataType` (val result) -/
def TECMP_CmpHeader_getDataType_prog  : List Op × Nat :=
  ([.rd 6 2, .const 65280, .band 0 1, .sshr 32 2 8, .const 255, .band 0 4, .sshl 32 5 8, .bor 3 6, .trunc 16 7], 8)

/-- bit program of `TECMP::CmpHeader::getDeviceFlags` (val result) -/
def TECMP_CmpHeader_getDeviceFlags_prog  : List Op × Nat :=
  ([.rd 10 2, .const 65280, .band 0 1, .sshr 32 2 8, .const 255, .band 0 4, .sshl 32 5 8, .bor 3 6, .trunc 16 7], 8)

/-- bit program of `TECMP::CmpHeader::getDeviceId` (val result) -/
def TECMP_CmpHeader_getDeviceId_prog  : List Op × Nat :=
  ([.rd 1 1], 0)

/-- bit program of `TECMP::CmpHeader::getInterfaceId` (val result) -/
def TECMP_CmpHeader_getInterfaceId_prog  : List Op × Nat :=
  ([.rd 12 4, .const 4278190080, .band 0 1, .ushr 32 2 24, .const 16711680, .band 0 4, .ushr 32 5 8, .bor 3 6, .const 65280, .band 0 8, .ushl 32 9 8, .bor 7 10, .const 255, .band 0 12, .ushl 32 13 24, .bor 11 14], 15)

/-- bit program of `TECMP::CmpHeader::getMessageType` (val result) -/
def TECMP_CmpHeader_getMessageType_prog  : List Op × Nat :=
  ([.rd 5 1], 0)

/-- bit program of `TECMP::CmpHeader::getPayloadLength` (val result) -/
def TECMP_CmpHeader_getPayloadLength_prog  : List Op × Nat :=
  ([.rd 24 2, .const 65280, .band 0 1, .sshr 32 2 8, .const 255, .band 0 4, .sshl 32 5 8, .bor 3 6, .trunc 16 7], 8)

/-- bit program of `TECMP::CmpHeader::getSequenceCounter` (val result) -/
def TECMP_CmpHeader_getSequenceCounter_prog  : List Op × Nat :=
  ([.rd 2 2, .const 65280, .band 0 1, .sshr 32 2 8, .const 255, .band 0 4, .sshl 32 5 8, .bor 3 6, .trunc 16 7], 8)

/-- bit program of `TECMP::CmpHeader::getTimestamp` (val result) -/
def TECMP_CmpHeader_getTimestamp_prog  : List Op × Nat :=
  ([.rd 16 8, .const 18374686479671623680, .band 0 1, .ushr 64 2 56, .const 71776119061217280, .band 0 4, .ushr 64 5 40, .bor 3 6, .const 280375465082880, .band 0 8, .ushr 64 9 24, .bor 7 10, .const 1095216660480, .band 0 12, .ushr 64 13 8, .bor 11 14, .const 4278190080, .band 0 16, .ushl 64 17 8, .bor 15 18, .const 16711680, .sext 32 64 20, .band 0 21, .ushl 64 22 24, .bor 19 23, .const 65280, .sext 32 64 25, .band 0 26, .ushl 64 27 40, .bor 24 28, .const 255, .sext 32 64 30, .band 0 31, .ushl 64 32 56, .bor 29 33], 34)

/-- bit program of `TECMP::CmpHeader::getVersion` (val result) -/
def TECMP_CmpHeader_getVersion_prog  : List Op × Nat :=
  ([.rd 4 1], 0)

/-- bit program of `TECMP::CmpHeader::setDataType` (void result) -/
def TECMP_CmpHeader_setDataType_prog (p_newType : Op) : List Op × Nat :=
  ([p_newType, .const 65280, .band 0 1, .sshr 32 2 8, .const 255, .band 0 4, .sshl 32 5 8, .bor 3 6, .trunc 16 7, .wr 6 2 8], 0)

/-- bit program of `TECMP::CmpHeader::setDeviceFlags` (void result) -/
def TECMP_CmpHeader_setDeviceFlags_prog (p_newFlags : Op) : List Op × Nat :=
  ([p_newFlags, .const 65280, .band 0 1, .sshr 32 2 8, .const 255, .band 0 4, .sshl 32 5 8, .bor 3 6, .trunc 16 7, .wr 10 2 8], 0)

/-- bit program of `TECMP::CmpHeader::setDeviceId` (void result) -/
def TECMP_CmpHeader_setDeviceId_prog (p_newId : Op) : List Op × Nat :=
  ([p_newId, .wr 1 1 0], 0)

/-- bit program of `TECMP::CmpHeader::setInterfaceId` (void result) -/
def TECMP_CmpHeader_setInterfaceId_prog (p_newId : Op) : List Op × Nat :=
  ([p_newId, .const 4278190080, .band 0 1, .ushr 32 2 24, .const 16711680, .band 0 4, .ushr 32 5 8, .bor 3 6, .const 65280, .band 0 8, .ushl 32 9 8, .bor 7 10, .const 255, .band 0 12, .ushl 32 13 24, .bor 11 14, .wr 12 4 15], 0)

/-- bit program of `TECMP::CmpHeader::setMessageType` (void result) -/
def TECMP_CmpHeader_setMessageType_prog (p_newType : Op) : List Op × Nat :=
  ([p_newType, .wr 5 1 0], 0)

/-- bit program of `TECMP::CmpHeader::setPayloadLength` (void result) -/
def TECMP_CmpHeader_setPayloadLength_prog (p_newLength : Op) : List Op × Nat :=
  ([p_newLength, .const 65280, .band 0 1, .sshr 32 2 8, .const 255, .band 0 4, .sshl 32 5 8, .bor 3 6, .trunc 16 7, .wr 24 2 8], 0)

/-- bit program of `TECMP::CmpHeader::setSequenceCounter` (void result) -/
def TECMP_CmpHeader_setSequenceCounter_prog (p_newCounter : Op) : List Op × Nat :=
  ([p_newCounter, .const 65280, .band 0 1, .sshr 32 2 8, .const 255, .band 0 4, .sshl 32 5 8, .bor 3 6, .trunc 16 7, .wr 2 2 8], 0)

/-- bit program of `TECMP::CmpHeader::setTimestamp` (void result) -/
def TECMP_CmpHeader_setTimestamp_prog (p_newTimestamp : Op) : List Op × Nat :=
  ([p_newTimestamp, .const 18374686479671623680, .band 0 1, .ushr 64 2 56, .const 71776119061217280, .band 0 4, .ushr 64 5 40, .bor 3 6, .const 280375465082880, .band 0 8, .ushr 64 9 24, .bor 7 10, .const 1095216660480, .band 0 12, .ushr 64 13 8, .bor 11 14, .const 4278190080, .band 0 16, .ushl 64 17 8, .bor 15 18, .const 16711680, .sext 32 64 20, .band 0 21, .ushl 64 22 24, .bor 19 23, .const 65280, .sext 32 64 25, .band 0 26, .ushl 64 27 40, .bor 24 28, .const 255, .sext 32 64 30, .band 0 31, .ushl 64 32 56, .bor 29 33, .wr 16 8 34], 0)

/-- bit program of `TECMP::CmpHeader::setVersion` (void result) -/
def TECMP_CmpHeader_setVersion_prog (p_newVersion : Op) : List Op × Nat :=
  ([p_newVersion, .wr 4 1 0], 0)

/-- bit program of `TECMP::InterfacePayload::Header::getCmType` (val result) -/
def TECMP_InterfacePayload_Header_getCmType_prog  : List Op × Nat :=
  ([.rd 2 1], 0)

/-- bit program of `TECMP::InterfacePayload::Header::getCmVersion` (val result) -/
def TECMP_InterfacePayload_Header_getCmVersion_prog  : List Op × Nat :=
  ([.rd 1 1], 0)

/-- bit program of `TECMP::InterfacePayload::Header::getDeviceId` (val result) -/
def TECMP_InterfacePayload_Header_getDeviceId_prog  : List Op × Nat :=
  ([.rd 6 2, .const 65280, .band 0 1, .sshr 32 2 8, .const 255, .band 0 4, .sshl 32 5 8, .bor 3 6, .trunc 16 7], 8)

/-- bit program of `TECMP::InterfacePayload::Header::getErrorsTotal` (val result) -/
def TECMP_InterfacePayload_Header_getErrorsTotal_prog  : List Op × Nat :=
  ([.rd 20 4, .const 4278190080, .band 0 1, .ushr 32 2 24, .const 16711680, .band 0 4, .ushr 32 5 8, .bor 3 6, .const 65280, .band 0 8, .ushl 32 9 8, .bor 7 10, .const 255, .band 0 12, .ushl 32 13 24, .bor 11 14], 15)

/-- bit program of `TECMP::InterfacePayload::Header::getInterfaceId` (val result) -/
def TECMP_InterfacePayload_Header_getInterfaceId_prog  : List Op × Nat :=
  ([.rd 12 4, .const 4278190080, .band 0 1, .ushr 32 2 24, .const 16711680, .band 0 4, .ushr 32 5 8, .bor 3 6, .const 65280, .band 0 8, .ushl 32 9 8, .bor 7 10, .const 255, .band 0 12, .ushl 32 13 24, .bor 11 14], 15)

/-- bit program of `TECMP::InterfacePayload::Header::getMessagesTotal` (val result) -/
def TECMP_InterfacePayload_Header_getMessagesTotal_prog  : List Op × Nat :=
  ([.rd 16 4, .const 4278190080, .band 0 1, .ushr 32 2 24, .const 16711680, .band 0 4, .ushr 32 5 8, .bor 3 6, .const 65280, .band 0 8, .ushl 32 9 8, .bor 7 10, .const 255, .band 0 12, .ushl 32 13 24, .bor 11 14], 15)

/-- bit program of `TECMP::InterfacePayload::Header::getSerialNumber` (val result) -/
def TECMP_InterfacePayload_Header_getSerialNumber_prog  : List Op × Nat :=
  ([.rd 8 4, .const 4278190080, .band 0 1, .ushr 32 2 24, .const 16711680, .band 0 4, .ushr 32 5 8, .bor 3 6, .const 65280, .band 0 8, .ushl 32 9 8, .bor 7 10, .const 255, .band 0 12, .ushl 32 13 24, .bor 11 14], 15)

/-- bit program of `TECMP::InterfacePayload::Header::getVendorDataLength` (val result) -/
def TECMP_InterfacePayload_Header_getVendorDataLength_prog  : List Op × Nat :=
  ([.rd 4 2, .const 65280, .band 0 1, .sshr 32 2 8, .const 255, .band 0 4, .sshl 32 5 8, .bor 3 6, .trunc 16 7], 8)

/-- bit program of `TECMP::InterfacePayload::Header::getVendorDataLinkQuality` (val result) -/
def TECMP_InterfacePayload_Header_getVendorDataLinkQuality_prog  : List Op × Nat :=
  ([.rd 25 1], 0)

/-- bit program of `TECMP::InterfacePayload::Header::getVendorDataLinkStatus` (val result) -/
def TECMP_InterfacePayload_Header_getVendorDataLinkStatus_prog  : List Op × Nat :=
  ([.rd 24 1], 0)

/-- bit program of `TECMP::InterfacePayload::Header::getVendorDataLinkupTime` (val result) -/
def TECMP_InterfacePayload_Header_getVendorDataLinkupTime_prog  : List Op × Nat :=
  ([.rd 26 2, .const 65280, .band 0 1, .sshr 32 2 8, .const 255, .band 0 4, .sshl 32 5 8, .bor 3 6, .trunc 16 7], 8)

/-- bit program of `TECMP::InterfacePayload::Header::getVendorId` (val result) -/
def TECMP_InterfacePayload_Header_getVendorId_prog  : List Op × Nat :=
  ([.rd 0 1], 0)

/-- bit program of `TECMP::InterfacePayload::Header::setCmType` (void result) -/
def TECMP_InterfacePayload_Header_setCmType_prog (p_value : Op) : List Op × Nat :=
  ([p_value, .wr 2 1 0], 0)

/-- bit program of `TECMP::InterfacePayload::Header::setCmVersion` (void result) -/
def TECMP_InterfacePayload_Header_setCmVersion_prog (p_value : Op) : List Op × Nat :=
  ([p_value, .wr 1 1 0], 0)

/-- bit program of `TECMP::InterfacePayload::Header::setDeviceId` (void result) -/
def TECMP_InterfacePayload_Header_setDeviceId_prog (p_value : Op) : List Op × Nat :=
  ([p_value, .const 65280, .band 0 1, .sshr 32 2 8, .const 255, .band 0 4, .sshl 32 5 8, .bor 3 6, .trunc 16 7, .wr 6 2 8], 0)

/-- bit program of `TECMP::InterfacePayload::Header::setErrorsTotal` (void result) -/
def TECMP_InterfacePayload_Header_setErrorsTotal_prog (p_value : Op) : List Op × Nat :=
  ([p_value, .const 4278190080, .band 0 1, .ushr 32 2 24, .const 16711680, .band 0 4, .ushr 32 5 8, .bor 3 6, .const 65280, .band 0 8, .ushl 32 9 8, .bor 7 10, .const 255, .band 0 12, .ushl 32 13 24, .bor 11 14, .wr 20 4 15], 0)

/-- bit program of `TECMP::InterfacePayload::Header::setInterfaceId` (void result) -/
def TECMP_InterfacePayload_Header_setInterfaceId_prog (p_value : Op) : List Op × Nat :=
  ([p_value, .const 4278190080, .band 0 1, .ushr 32 2 24, .const 16711680, .band 0 4, .ushr 32 5 8, .bor 3 6, .const 65280, .band 0 8, .ushl 32 9 8, .bor 7 10, .const 255, .band 0 12, .ushl 32 13 24, .bor 11 14, .wr 12 4 15], 0)

/-- bit program of `TECMP::InterfacePayload::Header::setMessagesTotal` (void result) -/
def TECMP_InterfacePayload_Header_setMessagesTotal_prog (p_value : Op) : List Op × Nat :=
  ([p_value, .const 4278190080, .band 0 1, .ushr 32 2 24, .const 16711680, .band 0 4, .ushr 32 5 8, .bor 3 6, .const 65280, .band 0 8, .ushl 32 9 8, .bor 7 10, .const 255, .band 0 12, .ushl 32 13 24, .bor 11 14, .wr 16 4 15], 0)

/-- bit program of `TECMP::InterfacePayload::Header::setSerialNumber` (void result) -/
def TECMP_InterfacePayload_Header_setSerialNumber_prog (p_value : Op) : List Op × Nat :=
  ([p_value, .const 4278190080, .band 0 1, .ushr 32 2 24, .const 16711680, .band 0 4, .ushr 32 5 8, .bor 3 6, .const 65280, .band 0 8, .ushl 32 9 8, .bor 7 10, .const 255, .band 0 12, .ushl 32 13 24, .bor 11 14, .wr 8 4 15], 0)

/-- bit program of `TECMP::InterfacePayload::Header::setVendorDataLength` (void result) -/
def TECMP_InterfacePayload_Header_setVendorDataLength_prog (p_value : Op) : List Op × Nat :=
  ([p_value, .const 65280, .band 0 1, .sshr 32 2 8, .const 255, .band 0 4, .sshl 32 5 8, .bor 3 6, .trunc 16 7, .wr 4 2 8], 0)

/-- bit program of `TECMP::InterfacePayload::Header::setVendorDataLinkQuality` (void result) -/
def TECMP_InterfacePayload_Header_setVendorDataLinkQuality_prog (p_value : Op) : List Op × Nat :=
  ([p_value, .wr 25 1 0], 0)

/-- bit program of `TECMP::InterfacePayload::Header::setVendorDataLinkStatus` (void result) -/
def TECMP_InterfacePayload_Header_setVendorDataLinkStatus_prog (p_value : Op) : List Op × Nat :=
  ([p_value, .wr 24 1 0], 0)

/-- bit program of `TECMP::InterfacePayload::Header::setVendorDataLinkupTime` (void result) -/
def TECMP_InterfacePayload_Header_setVendorDataLinkupTime_prog (p_value : Op) : List Op × Nat :=
  ([p_value, .const 65280, .band 0 1, .sshr 32 2 8, .const 255, .band 0 4, .sshl 32 5 8, .bor 3 6, .trunc 16 7, .wr 26 2 8], 0)

/-- bit program of `TECMP::InterfacePayload::Header::setVendorId` (void result) -/
def TECMP_InterfacePayload_Header_setVendorId_prog (p_value : Op) : List Op × Nat :=
  ([p_value, .wr 0 1 0], 0)

/-- bit program of `TECMP::InterfacePayload::getCmType` (val result) -/
def TECMP_InterfacePayload_getCmType_prog  : List Op × Nat :=
  ([.rd 2 1], 0)

/-- bit program of `TECMP::InterfacePayload::getCmVersion` (val result) -/
def TECMP_InterfacePayload_getCmVersion_prog  : List Op × Nat :=
  ([.rd 1 1], 0)

/-- bit program of `TECMP::InterfacePayload::getDeviceId` (val result) -/
def TECMP_InterfacePayload_getDeviceId_prog  : List Op × Nat :=
  ([.rd 6 2, .const 65280, .band 0 1, .sshr 32 2 8, .const 255, .band 0 4, .sshl 32 5 8, .bor 3 6, .trunc 16 7], 8)

/-- bit program of `TECMP::InterfacePayload::getErrorsTotal` (val result) -/
def TECMP_InterfacePayload_getErrorsTotal_prog  : List Op × Nat :=
  ([.rd 20 4, .const 4278190080, .band 0 1, .ushr 32 2 24, .const 16711680, .band 0 4, .ushr 32 5 8, .bor 3 6, .const 65280, .band 0 8, .ushl 32 9 8, .bor 7 10, .const 255, .band 0 12, .ushl 32 13 24, .bor 11 14], 15)

/-- bit program of `TECMP::InterfacePayload::getInterfaceId` (val result) -/
def TECMP_InterfacePayload_getInterfaceId_prog  : List Op × Nat :=
  ([.rd 12 4, .const 4278190080, .band 0 1, .ushr 32 2 24, .const 16711680, .band 0 4, .ushr 32 5 8, .bor 3 6, .const 65280, .band 0 8, .ushl 32 9 8, .bor 7 10, .const 255, .band 0 12, .ushl 32 13 24, .bor 11 14], 15)

/-- bit program of `TECMP::InterfacePayload::getMessagesTotal` (val result) -/
def TECMP_InterfacePayload_getMessagesTotal_prog  : List Op × Nat :=
  ([.rd 16 4, .const 4278190080, .band 0 1, .ushr 32 2 24, .const 16711680, .band 0 4, .ushr 32 5 8, .bor 3 6, .const 65280, .band 0 8, .ushl 32 9 8, .bor 7 10, .const 255, .band 0 12, .ushl 32 13 24, .bor 11 14], 15)

/-- bit program of `TECMP::InterfacePayload::getSerialNumber` (val result) -/
def TECMP_InterfacePayload_getSerialNumber_prog  : List Op × Nat :=
  ([.rd 8 4, .const 4278190080, .band 0 1, .ushr 32 2 24, .const 16711680, .band 0 4, .ushr 32 5 8, .bor 3 6, .const 65280, .band 0 8, .ushl 32 9 8, .bor 7 10, .const 255, .band 0 12, .ushl 32 13 24, .bor 11 14], 15)

/-- bit program of `TECMP::InterfacePayload::getVendorDataLength` (val result) -/
def TECMP_InterfacePayload_getVendorDataLength_prog  : List Op × Nat :=
  ([.rd 4 2, .const 65280, .band 0 1, .sshr 32 2 8, .const 255, .band 0 4, .sshl 32 5 8, .bor 3 6, .trunc 16 7], 8)

/-- bit program of `TECMP::InterfacePayload::getVendorDataLinkQuality` (val result) -/
def TECMP_InterfacePayload_getVendorDataLinkQuality_prog  : List Op × Nat :=
  ([.rd 25 1], 0)

/-- bit program of `TECMP::InterfacePayload::getVendorDataLinkStatus` (val result) -/
def TECMP_InterfacePayload_getVendorDataLinkStatus_prog  : List Op × Nat :=
  ([.rd 24 1], 0)

/-- bit program of `TECMP::InterfacePayload::getVendorDataLinkupTime` (val result) -/
def TECMP_InterfacePayload_getVendorDataLinkupTime_prog  : List Op × Nat :=
  ([.rd 26 2, .const 65280, .band 0 1, .sshr 32 2 8, .const 255, .band 0 4, .sshl 32 5 8, .bor 3 6, .trunc 16 7], 8)

/-- bit program of `TECMP::InterfacePayload::getVendorId` (val result) -/
def TECMP_InterfacePayload_getVendorId_prog  : List Op × Nat :=
  ([.rd 0 1], 0)

/-- bit program of `TECMP::InterfacePayload::setCmType` (void result) -/
def TECMP_InterfacePayload_setCmType_prog (p_value : Op) : List Op × Nat :=
  ([p_value, .wr 2 1 0], 0)

/-- bit program of `TECMP::InterfacePayload::setCmVersion` (void result) -/
def TECMP_InterfacePayload_setCmVersion_prog (p_value : Op) : List Op × Nat :=
  ([p_value, .wr 1 1 0], 0)

/-- bit program of `TECMP::InterfacePayload::setDeviceId` (void result) -/
def TECMP_InterfacePayload_setDeviceId_prog (p_value : Op) : List Op × Nat :=
  ([p_value, .const 65280, .band 0 1, .sshr 32 2 8, .const 255, .band 0 4, .sshl 32 5 8, .bor 3 6, .trunc 16 7, .wr 6 2 8], 0)

/-- bit program of `TECMP::InterfacePayload::setErrorsTotal` (void result) -/
def TECMP_InterfacePayload_setErrorsTotal_prog (p_value : Op) : List Op × Nat :=
  ([p_value, .const 4278190080, .band 0 1, .ushr 32 2 24, .const 16711680, .band 0 4, .ushr 32 5 8, .bor 3 6, .const 65280, .band 0 8, .ushl 32 9 8, .bor 7 10, .const 255, .band 0 12, .ushl 32 13 24, .bor 11 14, .wr 20 4 15], 0)

/-- bit program of `TECMP::InterfacePayload::setInterfaceId` (void result) -/
def TECMP_InterfacePayload_setInterfaceId_prog (p_value : Op) : List Op × Nat :=
  ([p_value, .const 4278190080, .band 0 1, .ushr 32 2 24, .const 16711680, .band 0 4, .ushr 32 5 8, .bor 3 6, .const 65280, .band 0 8, .ushl 32 9 8, .bor 7 10, .const 255, .band 0 12, .ushl 32 13 24, .bor 11 14, .wr 12 4 15], 0)

/-- bit program of `TECMP::InterfacePayload::setMessagesTotal` (void result) -/
def TECMP_InterfacePayload_setMessagesTotal_prog (p_value : Op) : List Op × Nat :=
  ([p_value, .const 4278190080, .band 0 1, .ushr 32 2 24, .const 16711680, .band 0 4, .ushr 32 5 8, .bor 3 6, .const 65280, .band 0 8, .ushl 32 9 8, .bor 7 10, .const 255, .band 0 12, .ushl 32 13 24, .bor 11 14, .wr 16 4 15], 0)

/-- bit program of `TECMP::InterfacePayload::setSerialNumber` (void result) -/
def TECMP_InterfacePayload_setSerialNumber_prog (p_value : Op) : List Op × Nat :=
  ([p_value, .const 4278190080, .band 0 1, .ushr 32 2 24, .const 16711680, .band 0 4, .ushr 32 5 8, .bor 3 6, .const 65280, .band 0 8, .ushl 32 9 8, .bor 7 10, .const 255, .band 0 12, .ushl 32 13 24, .bor 11 14, .wr 8 4 15], 0)

/-- bit program of `TECMP::InterfacePayload::setVendorDataLength` (void result) -/
def TECMP_InterfacePayload_setVendorDataLength_prog (p_value : Op) : List Op × Nat :=
  ([p_value, .const 65280, .band 0 1, .sshr 32 2 8, .const 255, .band 0 4, .sshl 32 5 8, .bor 3 6, .trunc 16 7, .wr 4 2 8], 0)

/-- bit program of `TECMP::InterfacePayload::setVendorDataLinkQuality` (void result) -/
def TECMP_InterfacePayload_setVendorDataLinkQuality_prog (p_value : Op) : List Op × Nat :=
  ([p_value, .wr 25 1 0], 0)

/-- bit program of `TECMP::InterfacePayload::setVendorDataLinkStatus` (void result) -/
def TECMP_InterfacePayload_setVendorDataLinkStatus_prog (p_value : Op) : List Op × Nat :=
  ([p_value, .wr 24 1 0], 0)

/-- bit program of `TECMP::InterfacePayload::setVendorDataLinkupTime` (void result) -/
def TECMP_InterfacePayload_setVendorDataLinkupTime_prog (p_value : Op) : List Op × Nat :=
  ([p_value, .const 65280, .band 0 1, .sshr 32 2 8, .const 255, .band 0 4, .sshl 32 5 8, .bor 3 6, .trunc 16 7, .wr 26 2 8], 0)

/-- bit program of `TECMP::InterfacePayload::setVendorId` (void result) -/
def TECMP_InterfacePayload_setVendorId_prog (p_value : Op) : List Op × Nat :=
  ([p_value, .wr 0 1 0], 0)

/-- bit program of `TECMP::LinPayload::Header::getDataLength` (val result) -/
def TECMP_LinPayload_Header_getDataLength_prog  : List Op × Nat :=
  ([.rd 1 1], 0)

/-- bit program of `TECMP::LinPayload::Header::getPid` (val result) -/
def TECMP_LinPayload_Header_getPid_prog  : List Op × Nat :=
  ([.rd 0 1], 0)

/-- bit program of `TECMP::LinPayload::Header::setDataLength` (void result) -/
def TECMP_LinPayload_Header_setDataLength_prog (p_newLength : Op) : List Op × Nat :=
  ([p_newLength, .wr 1 1 0], 0)

/-- bit program of `TECMP::LinPayload::Header::setPid` (void result) -/
def TECMP_LinPayload_Header_setPid_prog (p_newPid : Op) : List Op × Nat :=
  ([p_newPid, .wr 0 1 0], 0)

/-- bit program of `TECMP::LinPayload::getDataLength` (val result) -/
def TECMP_LinPayload_getDataLength_prog  : List Op × Nat :=
  ([.rd 1 1], 0)

/-- bit program of `TECMP::LinPayload::getPid` (val result) -/
def TECMP_LinPayload_getPid_prog  : List Op × Nat :=
  ([.rd 0 1], 0)

/-- bit program of `TECMP::LinPayload::setDataLength` (void result) -/
def TECMP_LinPayload_setDataLength_prog (p_newLength : Op) : List Op × Nat :=
  ([p_newLength, .wr 1 1 0], 0)

/-- bit program of `TECMP::LinPayload::setPid` (void result) -/
def TECMP_LinPayload_setPid_prog (p_newPid : Op) : List Op × Nat :=
  ([p_newPid, .wr 0 1 0], 0)

/-- bit program of `TECMP::PayloadType::getMessageType` (val result) -/
def TECMP_PayloadType_getMessageType_prog  : List Op × Nat :=
  ([.rd 0 4, .const 65280, .band 0 1, .ushr 32 2 8, .trunc 8 3], 4)

/-- bit program of `TECMP::PayloadType::getRawPayloadType` (val result) -/
def TECMP_PayloadType_getRawPayloadType_prog  : List Op × Nat :=
  ([.rd 0 4, .const 255, .band 0 1, .trunc 8 2], 3)

/-- bit program of `TECMP::PayloadType::getType` (val result) -/
def TECMP_PayloadType_getType_prog  : List Op × Nat :=
  ([.rd 0 4], 0)

/-- bit program of `TECMP::PayloadType::setMessageType` (void result) -/
def TECMP_PayloadType_setMessageType_prog (p_newType : Op) : List Op × Nat :=
  ([p_newType, .const 65280, .bnot 32 1, .rd 0 4, .band 3 2, .wr 0 4 4, .sshl 32 0 8, .rd 0 4, .bor 7 6, .wr 0 4 8], 0)

/-- bit program of `TECMP::PayloadType::setRawPayloadType` (void result) -/
def TECMP_PayloadType_setRawPayloadType_prog (p_newType : Op) : List Op × Nat :=
  ([p_newType, .const 255, .bnot 32 1, .rd 0 4, .band 3 2, .wr 0 4 4, .rd 0 4, .bor 6 0, .wr 0 4 7], 0)

/-- bit program of `TECMP::PayloadType::setType` (void result) -/
def TECMP_PayloadType_setType_prog (p_newType : Op) : List Op × Nat :=
  ([p_newType, .wr 0 4 0], 0)


def entries_cmphdr : List Entry := [
  ⟨"version", "get", .get CmpHeader_getVersion_prog 0⟩,
  ⟨"version", "set", .set (CmpHeader_setVersion_prog (.arg 0)) 0 0⟩,
  ⟨"deviceId", "get", .get CmpHeader_getDeviceId_prog 0⟩,
  ⟨"deviceId", "set", .set (CmpHeader_setDeviceId_prog (.arg 0)) 0 0⟩,
  ⟨"messageType", "get", .get CmpHeader_getMessageType_prog 0⟩,
  ⟨"messageType", "set", .set (CmpHeader_setMessageType_prog (.arg 0)) 0 0⟩,
  ⟨"streamId", "get", .get CmpHeader_getStreamId_prog 0⟩,
  ⟨"streamId", "set", .set (CmpHeader_setStreamId_prog (.arg 0)) 0 0⟩,
  ⟨"sequenceCounter", "get", .get CmpHeader_getSequenceCounter_prog 0⟩,
  ⟨"sequenceCounter", "set", .set (CmpHeader_setSequenceCounter_prog (.arg 0)) 0 0⟩
]

def entries_msghdr : List Entry := [
  ⟨"timestamp", "get", .get MessageHeader_getTimestamp_prog 0⟩,
  ⟨"timestamp", "set", .set (MessageHeader_setTimestamp_prog (.arg 0)) 0 0⟩,
  ⟨"interfaceId", "get", .get MessageHeader_getInterfaceId_prog 0⟩,
  ⟨"interfaceId", "set", .set (MessageHeader_setInterfaceId_prog (.arg 0)) 0 0⟩,
  ⟨"vendorId", "get", .get MessageHeader_getVendorId_prog 0⟩,
  ⟨"vendorId", "set", .set (MessageHeader_setVendorId_prog (.arg 0)) 0 0⟩,
  ⟨"commonFlags", "get", .get MessageHeader_getCommonFlags_prog 0⟩,
  ⟨"commonFlags", "set", .set (MessageHeader_setCommonFlags_prog (.arg 0)) 0 0⟩,
  ⟨"recalc", "get", .getNe0 (MessageHeader_getCommonFlag_prog (.const 1))⟩,
  ⟨"recalc", "set", .setConst (MessageHeader_setCommonFlag_prog (.const 1) true) 1⟩,
  ⟨"recalc", "set", .setConst (MessageHeader_setCommonFlag_prog (.const 1) false) 0⟩,
  ⟨"insync", "get", .getNe0 (MessageHeader_getCommonFlag_prog (.const 2))⟩,
  ⟨"insync", "set", .setConst (MessageHeader_setCommonFlag_prog (.const 2) true) 1⟩,
  ⟨"insync", "set", .setConst (MessageHeader_setCommonFlag_prog (.const 2) false) 0⟩,
  ⟨"segmentType", "get", .get MessageHeader_getSegmentType_prog 2⟩,
  ⟨"segmentType", "set", .set (MessageHeader_setSegmentType_prog (.arg 0)) 0 2⟩,
  ⟨"segMask", "get", .get MessageHeader_getSegmentType_prog 2⟩,
  ⟨"segMask", "set", .setConst (MessageHeader_setCommonFlag_prog (.const 12) true) 3⟩,
  ⟨"segMask", "set", .setConst (MessageHeader_setCommonFlag_prog (.const 12) false) 0⟩,
  ⟨"diOnIf", "get", .getNe0 (MessageHeader_getCommonFlag_prog (.const 16))⟩,
  ⟨"diOnIf", "set", .setConst (MessageHeader_setCommonFlag_prog (.const 16) true) 1⟩,
  ⟨"diOnIf", "set", .setConst (MessageHeader_setCommonFlag_prog (.const 16) false) 0⟩,
  ⟨"overflow", "get", .getNe0 (MessageHeader_getCommonFlag_prog (.const 32))⟩,
  ⟨"overflow", "set", .setConst (MessageHeader_setCommonFlag_prog (.const 32) true) 1⟩,
  ⟨"overflow", "set", .setConst (MessageHeader_setCommonFlag_prog (.const 32) false) 0⟩,
  ⟨"errorInPayload", "get", .getNe0 (MessageHeader_getCommonFlag_prog (.const 64))⟩,
  ⟨"errorInPayload", "set", .setConst (MessageHeader_setCommonFlag_prog (.const 64) true) 1⟩,
  ⟨"errorInPayload", "set", .setConst (MessageHeader_setCommonFlag_prog (.const 64) false) 0⟩,
  ⟨"payloadType", "get", .get MessageHeader_getPayloadType_prog 0⟩,
  ⟨"payloadType", "set", .set (MessageHeader_setPayloadType_prog (.arg 0)) 0 0⟩,
  ⟨"payloadLength", "get", .get MessageHeader_getPayloadLength_prog 0⟩,
  ⟨"payloadLength", "set", .set (MessageHeader_setPayloadLength_prog (.arg 0)) 0 0⟩
]

def entries_can : List Entry := [
  ⟨"flags", "get", .get CanPayloadBase_getFlags_prog 0⟩,
  ⟨"flags", "set", .set (CanPayloadBase_setFlags_prog (.arg 0)) 0 0⟩,
  ⟨"crcErr", "get", .getNe0 (CanPayloadBase_getFlag_prog (.const 1))⟩,
  ⟨"crcErr", "set", .setConst (CanPayloadBase_setFlag_prog (.const 1) true) 1⟩,
  ⟨"crcErr", "set", .setConst (CanPayloadBase_setFlag_prog (.const 1) false) 0⟩,
  ⟨"ackErr", "get", .getNe0 (CanPayloadBase_getFlag_prog (.const 2))⟩,
  ⟨"ackErr", "set", .setConst (CanPayloadBase_setFlag_prog (.const 2) true) 1⟩,
  ⟨"ackErr", "set", .setConst (CanPayloadBase_setFlag_prog (.const 2) false) 0⟩,
  ⟨"passiveAckErr", "get", .getNe0 (CanPayloadBase_getFlag_prog (.const 4))⟩,
  ⟨"passiveAckErr", "set", .setConst (CanPayloadBase_setFlag_prog (.const 4) true) 1⟩,
  ⟨"passiveAckErr", "set", .setConst (CanPayloadBase_setFlag_prog (.const 4) false) 0⟩,
  ⟨"activeAckErr", "get", .getNe0 (CanPayloadBase_getFlag_prog (.const 8))⟩,
  ⟨"activeAckErr", "set", .setConst (CanPayloadBase_setFlag_prog (.const 8) true) 1⟩,
  ⟨"activeAckErr", "set", .setConst (CanPayloadBase_setFlag_prog (.const 8) false) 0⟩,
  ⟨"ackDelErr", "get", .getNe0 (CanPayloadBase_getFlag_prog (.const 16))⟩,
  ⟨"ackDelErr", "set", .setConst (CanPayloadBase_setFlag_prog (.const 16) true) 1⟩,
  ⟨"ackDelErr", "set", .setConst (CanPayloadBase_setFlag_prog (.const 16) false) 0⟩,
  ⟨"formErr", "get", .getNe0 (CanPayloadBase_getFlag_prog (.const 32))⟩,
  ⟨"formErr", "set", .setConst (CanPayloadBase_setFlag_prog (.const 32) true) 1⟩,
  ⟨"formErr", "set", .setConst (CanPayloadBase_setFlag_prog (.const 32) false) 0⟩,
  ⟨"stuffErr", "get", .getNe0 (CanPayloadBase_getFlag_prog (.const 64))⟩,
  ⟨"stuffErr", "set", .setConst (CanPayloadBase_setFlag_prog (.const 64) true) 1⟩,
  ⟨"stuffErr", "set", .setConst (CanPayloadBase_setFlag_prog (.const 64) false) 0⟩,
  ⟨"crcDelErr", "get", .getNe0 (CanPayloadBase_getFlag_prog (.const 128))⟩,
  ⟨"crcDelErr", "set", .setConst (CanPayloadBase_setFlag_prog (.const 128) true) 1⟩,
  ⟨"crcDelErr", "set", .setConst (CanPayloadBase_setFlag_prog (.const 128) false) 0⟩,
  ⟨"eofErr", "get", .getNe0 (CanPayloadBase_getFlag_prog (.const 256))⟩,
  ⟨"eofErr", "set", .setConst (CanPayloadBase_setFlag_prog (.const 256) true) 1⟩,
  ⟨"eofErr", "set", .setConst (CanPayloadBase_setFlag_prog (.const 256) false) 0⟩,
  ⟨"bitErr", "get", .getNe0 (CanPayloadBase_getFlag_prog (.const 512))⟩,
  ⟨"bitErr", "set", .setConst (CanPayloadBase_setFlag_prog (.const 512) true) 1⟩,
  ⟨"bitErr", "set", .setConst (CanPayloadBase_setFlag_prog (.const 512) false) 0⟩,
  ⟨"r0", "get", .getNe0 (CanPayloadBase_getFlag_prog (.const 1024))⟩,
  ⟨"r0", "set", .setConst (CanPayloadBase_setFlag_prog (.const 1024) true) 1⟩,
  ⟨"r0", "set", .setConst (CanPayloadBase_setFlag_prog (.const 1024) false) 0⟩,
  ⟨"srrDom", "get", .getNe0 (CanPayloadBase_getFlag_prog (.const 2048))⟩,
  ⟨"srrDom", "set", .setConst (CanPayloadBase_setFlag_prog (.const 2048) true) 1⟩,
  ⟨"srrDom", "set", .setConst (CanPayloadBase_setFlag_prog (.const 2048) false) 0⟩,
  ⟨"brs", "get", .getNe0 (CanPayloadBase_getFlag_prog (.const 4096))⟩,
  ⟨"brs", "set", .setConst (CanPayloadBase_setFlag_prog (.const 4096) true) 1⟩,
  ⟨"brs", "set", .setConst (CanPayloadBase_setFlag_prog (.const 4096) false) 0⟩,
  ⟨"esi", "get", .getNe0 (CanPayloadBase_getFlag_prog (.const 8192))⟩,
  ⟨"esi", "set", .setConst (CanPayloadBase_setFlag_prog (.const 8192) true) 1⟩,
  ⟨"esi", "set", .setConst (CanPayloadBase_setFlag_prog (.const 8192) false) 0⟩,
  ⟨"id", "get", .get CanPayloadBase_getId_prog 0⟩,
  ⟨"id", "set", .set (CanPayloadBase_setId_prog (.arg 0)) 0 0⟩,
  ⟨"rsvd", "get", .getNe0 CanPayloadBase_getRsvd_prog⟩,
  ⟨"rsvd", "set", .setConst (CanPayloadBase_setRsvd_prog true) 1⟩,
  ⟨"rsvd", "set", .setConst (CanPayloadBase_setRsvd_prog false) 0⟩,
  ⟨"ide", "get", .getNe0 CanPayloadBase_getIde_prog⟩,
  ⟨"ide", "set", .setConst (CanPayloadBase_setIde_prog true) 1⟩,
  ⟨"ide", "set", .setConst (CanPayloadBase_setIde_prog false) 0⟩,
  ⟨"crcSupport", "get", .getNe0 CanPayloadBase_getCrcSupport_prog⟩,
  ⟨"crcSupport", "set", .setConst (CanPayloadBase_setCrcSupport_prog true) 1⟩,
  ⟨"crcSupport", "set", .setConst (CanPayloadBase_setCrcSupport_prog false) 0⟩,
  ⟨"errorPosition", "get", .get CanPayloadBase_getErrorPosition_prog 0⟩,
  ⟨"errorPosition", "set", .set (CanPayloadBase_setErrorPosition_prog (.arg 0)) 0 0⟩,
  ⟨"rtr", "get", .getNe0 CanPayload_getRtr_prog⟩,
  ⟨"rtr", "set", .setConst (CanPayload_setRtr_prog true) 1⟩,
  ⟨"rtr", "set", .setConst (CanPayload_setRtr_prog false) 0⟩,
  ⟨"crc", "get", .get CanPayload_getCrc_prog 0⟩,
  ⟨"crc", "set", .set (CanPayload_setCrc_prog (.arg 0)) 0 0⟩,
  ⟨"dlc", "get", .get CanPayloadBase_getDlc_prog 0⟩,
  ⟨"dlc", "set", .set (CanPayloadBase_Header_setDlc_prog (.arg 0)) 0 0⟩,
  ⟨"dataLength", "get", .get CanPayloadBase_getDataLength_prog 0⟩,
  ⟨"dataLength", "set", .set (CanPayloadBase_Header_setDataLength_prog (.arg 0)) 0 0⟩
]

def entries_canfd : List Entry := [
  ⟨"flags", "get", .get CanPayloadBase_getFlags_prog 0⟩,
  ⟨"flags", "set", .set (CanPayloadBase_setFlags_prog (.arg 0)) 0 0⟩,
  ⟨"crcErr", "get", .getNe0 (CanPayloadBase_getFlag_prog (.const 1))⟩,
  ⟨"crcErr", "set", .setConst (CanPayloadBase_setFlag_prog (.const 1) true) 1⟩,
  ⟨"crcErr", "set", .setConst (CanPayloadBase_setFlag_prog (.const 1) false) 0⟩,
  ⟨"ackErr", "get", .getNe0 (CanPayloadBase_getFlag_prog (.const 2))⟩,
  ⟨"ackErr", "set", .setConst (CanPayloadBase_setFlag_prog (.const 2) true) 1⟩,
  ⟨"ackErr", "set", .setConst (CanPayloadBase_setFlag_prog (.const 2) false) 0⟩,
  ⟨"passiveAckErr", "get", .getNe0 (CanPayloadBase_getFlag_prog (.const 4))⟩,
  ⟨"passiveAckErr", "set", .setConst (CanPayloadBase_setFlag_prog (.const 4) true) 1⟩,
  ⟨"passiveAckErr", "set", .setConst (CanPayloadBase_setFlag_prog (.const 4) false) 0⟩,
  ⟨"activeAckErr", "get", .getNe0 (CanPayloadBase_getFlag_prog (.const 8))⟩,
  ⟨"activeAckErr", "set", .setConst (CanPayloadBase_setFlag_prog (.const 8) true) 1⟩,
  ⟨"activeAckErr", "set", .setConst (CanPayloadBase_setFlag_prog (.const 8) false) 0⟩,
  ⟨"ackDelErr", "get", .getNe0 (CanPayloadBase_getFlag_prog (.const 16))⟩,
  ⟨"ackDelErr", "set", .setConst (CanPayloadBase_setFlag_prog (.const 16) true) 1⟩,
  ⟨"ackDelErr", "set", .setConst (CanPayloadBase_setFlag_prog (.const 16) false) 0⟩,
  ⟨"formErr", "get", .getNe0 (CanPayloadBase_getFlag_prog (.const 32))⟩,
  ⟨"formErr", "set", .setConst (CanPayloadBase_setFlag_prog (.const 32) true) 1⟩,
  ⟨"formErr", "set", .setConst (CanPayloadBase_setFlag_prog (.const 32) false) 0⟩,
  ⟨"stuffErr", "get", .getNe0 (CanPayloadBase_getFlag_prog (.const 64))⟩,
  ⟨"stuffErr", "set", .setConst (CanPayloadBase_setFlag_prog (.const 64) true) 1⟩,
  ⟨"stuffErr", "set", .setConst (CanPayloadBase_setFlag_prog (.const 64) false) 0⟩,
  ⟨"crcDelErr", "get", .getNe0 (CanPayloadBase_getFlag_prog (.const 128))⟩,
  ⟨"crcDelErr", "set", .setConst (CanPayloadBase_setFlag_prog (.const 128) true) 1⟩,
  ⟨"crcDelErr", "set", .setConst (CanPayloadBase_setFlag_prog (.const 128) false) 0⟩,
  ⟨"eofErr", "get", .getNe0 (CanPayloadBase_getFlag_prog (.const 256))⟩,
  ⟨"eofErr", "set", .setConst (CanPayloadBase_setFlag_prog (.const 256) true) 1⟩,
  ⟨"eofErr", "set", .setConst (CanPayloadBase_setFlag_prog (.const 256) false) 0⟩,
  ⟨"bitErr", "get", .getNe0 (CanPayloadBase_getFlag_prog (.const 512))⟩,
  ⟨"bitErr", "set", .setConst (CanPayloadBase_setFlag_prog (.const 512) true) 1⟩,
  ⟨"bitErr", "set", .setConst (CanPayloadBase_setFlag_prog (.const 512) false) 0⟩,
  ⟨"r0", "get", .getNe0 (CanPayloadBase_getFlag_prog (.const 1024))⟩,
  ⟨"r0", "set", .setConst (CanPayloadBase_setFlag_prog (.const 1024) true) 1⟩,
  ⟨"r0", "set", .setConst (CanPayloadBase_setFlag_prog (.const 1024) false) 0⟩,
  ⟨"srrDom", "get", .getNe0 (CanPayloadBase_getFlag_prog (.const 2048))⟩,
  ⟨"srrDom", "set", .setConst (CanPayloadBase_setFlag_prog (.const 2048) true) 1⟩,
  ⟨"srrDom", "set", .setConst (CanPayloadBase_setFlag_prog (.const 2048) false) 0⟩,
  ⟨"brs", "get", .getNe0 (CanPayloadBase_getFlag_prog (.const 4096))⟩,
  ⟨"brs", "set", .setConst (CanPayloadBase_setFlag_prog (.const 4096) true) 1⟩,
  ⟨"brs", "set", .setConst (CanPayloadBase_setFlag_prog (.const 4096) false) 0⟩,
  ⟨"esi", "get", .getNe0 (CanPayloadBase_getFlag_prog (.const 8192))⟩,
  ⟨"esi", "set", .setConst (CanPayloadBase_setFlag_prog (.const 8192) true) 1⟩,
  ⟨"esi", "set", .setConst (CanPayloadBase_setFlag_prog (.const 8192) false) 0⟩,
  ⟨"id", "get", .get CanPayloadBase_getId_prog 0⟩,
  ⟨"id", "set", .set (CanPayloadBase_setId_prog (.arg 0)) 0 0⟩,
  ⟨"rsvd", "get", .getNe0 CanPayloadBase_getRsvd_prog⟩,
  ⟨"rsvd", "set", .setConst (CanPayloadBase_setRsvd_prog true) 1⟩,
  ⟨"rsvd", "set", .setConst (CanPayloadBase_setRsvd_prog false) 0⟩,
  ⟨"ide", "get", .getNe0 CanPayloadBase_getIde_prog⟩,
  ⟨"ide", "set", .setConst (CanPayloadBase_setIde_prog true) 1⟩,
  ⟨"ide", "set", .setConst (CanPayloadBase_setIde_prog false) 0⟩,
  ⟨"crcSupport", "get", .getNe0 CanPayloadBase_getCrcSupport_prog⟩,
  ⟨"crcSupport", "set", .setConst (CanPayloadBase_setCrcSupport_prog true) 1⟩,
  ⟨"crcSupport", "set", .setConst (CanPayloadBase_setCrcSupport_prog false) 0⟩,
  ⟨"errorPosition", "get", .get CanPayloadBase_getErrorPosition_prog 0⟩,
  ⟨"errorPosition", "set", .set (CanPayloadBase_setErrorPosition_prog (.arg 0)) 0 0⟩,
  ⟨"rrs", "get", .getNe0 CanFdPayload_getRrs_prog⟩,
  ⟨"rrs", "set", .setConst (CanFdPayload_setRrs_prog true) 1⟩,
  ⟨"rrs", "set", .setConst (CanFdPayload_setRrs_prog false) 0⟩,
  ⟨"crc", "get", .get CanFdPayload_getCrc_prog 0⟩,
  ⟨"crc", "set", .set (CanFdPayload_setCrc_prog (.arg 0)) 0 0⟩,
  ⟨"sbc", "get", .get CanFdPayload_getSbc_prog 0⟩,
  ⟨"sbc", "set", .set (CanFdPayload_setSbc_prog (.arg 0)) 0 0⟩,
  ⟨"sbcParity", "get", .getNe0 CanFdPayload_getSbcParity_prog⟩,
  ⟨"sbcParity", "set", .setConst (CanFdPayload_setSbcParity_prog true) 1⟩,
  ⟨"sbcParity", "set", .setConst (CanFdPayload_setSbcParity_prog false) 0⟩,
  ⟨"sbcSupport", "get", .getNe0 CanFdPayload_getSbcSupport_prog⟩,
  ⟨"sbcSupport", "set", .setConst (CanFdPayload_setSbcSupport_prog true) 1⟩,
  ⟨"sbcSupport", "set", .setConst (CanFdPayload_setSbcSupport_prog false) 0⟩,
  ⟨"dlc", "get", .get CanPayloadBase_getDlc_prog 0⟩,
  ⟨"dlc", "set", .set (CanPayloadBase_Header_setDlc_prog (.arg 0)) 0 0⟩,
  ⟨"dataLength", "get", .get CanPayloadBase_getDataLength_prog 0⟩,
  ⟨"dataLength", "set", .set (CanPayloadBase_Header_setDataLength_prog (.arg 0)) 0 0⟩
]

def entries_lin : List Entry := [
  ⟨"flags", "get", .get LinPayload_getFlags_prog 0⟩,
  ⟨"flags", "set", .set (LinPayload_setFlags_prog (.arg 0)) 0 0⟩,
  ⟨"checksumErr", "get", .getNe0 (LinPayload_getFlag_prog (.const 1))⟩,
  ⟨"checksumErr", "set", .setConst (LinPayload_setFlag_prog (.const 1) true) 1⟩,
  ⟨"checksumErr", "set", .setConst (LinPayload_setFlag_prog (.const 1) false) 0⟩,
  ⟨"collisionErr", "get", .getNe0 (LinPayload_getFlag_prog (.const 2))⟩,
  ⟨"collisionErr", "set", .setConst (LinPayload_setFlag_prog (.const 2) true) 1⟩,
  ⟨"collisionErr", "set", .setConst (LinPayload_setFlag_prog (.const 2) false) 0⟩,
  ⟨"parityErr", "get", .getNe0 (LinPayload_getFlag_prog (.const 4))⟩,
  ⟨"parityErr", "set", .setConst (LinPayload_setFlag_prog (.const 4) true) 1⟩,
  ⟨"parityErr", "set", .setConst (LinPayload_setFlag_prog (.const 4) false) 0⟩,
  ⟨"noSlaveRespErr", "get", .getNe0 (LinPayload_getFlag_prog (.const 8))⟩,
  ⟨"noSlaveRespErr", "set", .setConst (LinPayload_setFlag_prog (.const 8) true) 1⟩,
  ⟨"noSlaveRespErr", "set", .setConst (LinPayload_setFlag_prog (.const 8) false) 0⟩,
  ⟨"syncErr", "get", .getNe0 (LinPayload_getFlag_prog (.const 16))⟩,
  ⟨"syncErr", "set", .setConst (LinPayload_setFlag_prog (.const 16) true) 1⟩,
  ⟨"syncErr", "set", .setConst (LinPayload_setFlag_prog (.const 16) false) 0⟩,
  ⟨"framingErr", "get", .getNe0 (LinPayload_getFlag_prog (.const 32))⟩,
  ⟨"framingErr", "set", .setConst (LinPayload_setFlag_prog (.const 32) true) 1⟩,
  ⟨"framingErr", "set", .setConst (LinPayload_setFlag_prog (.const 32) false) 0⟩,
  ⟨"shortDomErr", "get", .getNe0 (LinPayload_getFlag_prog (.const 64))⟩,
  ⟨"shortDomErr", "set", .setConst (LinPayload_setFlag_prog (.const 64) true) 1⟩,
  ⟨"shortDomErr", "set", .setConst (LinPayload_setFlag_prog (.const 64) false) 0⟩,
  ⟨"longDomErr", "get", .getNe0 (LinPayload_getFlag_prog (.const 128))⟩,
  ⟨"longDomErr", "set", .setConst (LinPayload_setFlag_prog (.const 128) true) 1⟩,
  ⟨"longDomErr", "set", .setConst (LinPayload_setFlag_prog (.const 128) false) 0⟩,
  ⟨"wup", "get", .getNe0 (LinPayload_getFlag_prog (.const 256))⟩,
  ⟨"wup", "set", .setConst (LinPayload_setFlag_prog (.const 256) true) 1⟩,
  ⟨"wup", "set", .setConst (LinPayload_setFlag_prog (.const 256) false) 0⟩,
  ⟨"linId", "get", .get LinPayload_getLinId_prog 0⟩,
  ⟨"linId", "set", .set (LinPayload_setLinId_prog (.arg 0)) 0 0⟩,
  ⟨"parityBits", "get", .get LinPayload_getParityBits_prog 0⟩,
  ⟨"parityBits", "set", .set (LinPayload_setParityBits_prog (.arg 0)) 0 0⟩,
  ⟨"checksum", "get", .get LinPayload_getChecksum_prog 0⟩,
  ⟨"checksum", "set", .set (LinPayload_setChecksum_prog (.arg 0)) 0 0⟩,
  ⟨"dataLength", "get", .get LinPayload_getDataLength_prog 0⟩,
  ⟨"dataLength", "set", .set (LinPayload_Header_setDataLength_prog (.arg 0)) 0 0⟩
]

def entries_eth : List Entry := [
  ⟨"flags", "get", .get EthernetPayload_getFlags_prog 0⟩,
  ⟨"flags", "set", .set (EthernetPayload_setFlags_prog (.arg 0)) 0 0⟩,
  ⟨"fcsErr", "get", .getNe0 (EthernetPayload_getFlag_prog (.const 1))⟩,
  ⟨"fcsErr", "set", .setConst (EthernetPayload_setFlag_prog (.const 1) true) 1⟩,
  ⟨"fcsErr", "set", .setConst (EthernetPayload_setFlag_prog (.const 1) false) 0⟩,
  ⟨"frameShorterThan64b", "get", .getNe0 (EthernetPayload_getFlag_prog (.const 2))⟩,
  ⟨"frameShorterThan64b", "set", .setConst (EthernetPayload_setFlag_prog (.const 2) true) 1⟩,
  ⟨"frameShorterThan64b", "set", .setConst (EthernetPayload_setFlag_prog (.const 2) false) 0⟩,
  ⟨"txPortDown", "get", .getNe0 (EthernetPayload_getFlag_prog (.const 4))⟩,
  ⟨"txPortDown", "set", .setConst (EthernetPayload_setFlag_prog (.const 4) true) 1⟩,
  ⟨"txPortDown", "set", .setConst (EthernetPayload_setFlag_prog (.const 4) false) 0⟩,
  ⟨"collision", "get", .getNe0 (EthernetPayload_getFlag_prog (.const 8))⟩,
  ⟨"collision", "set", .setConst (EthernetPayload_setFlag_prog (.const 8) true) 1⟩,
  ⟨"collision", "set", .setConst (EthernetPayload_setFlag_prog (.const 8) false) 0⟩,
  ⟨"frameTooLongErr", "get", .getNe0 (EthernetPayload_getFlag_prog (.const 16))⟩,
  ⟨"frameTooLongErr", "set", .setConst (EthernetPayload_setFlag_prog (.const 16) true) 1⟩,
  ⟨"frameTooLongErr", "set", .setConst (EthernetPayload_setFlag_prog (.const 16) false) 0⟩,
  ⟨"phyErr", "get", .getNe0 (EthernetPayload_getFlag_prog (.const 32))⟩,
  ⟨"phyErr", "set", .setConst (EthernetPayload_setFlag_prog (.const 32) true) 1⟩,
  ⟨"phyErr", "set", .setConst (EthernetPayload_setFlag_prog (.const 32) false) 0⟩,
  ⟨"frameTruncated", "get", .getNe0 (EthernetPayload_getFlag_prog (.const 64))⟩,
  ⟨"frameTruncated", "set", .setConst (EthernetPayload_setFlag_prog (.const 64) true) 1⟩,
  ⟨"frameTruncated", "set", .setConst (EthernetPayload_setFlag_prog (.const 64) false) 0⟩,
  ⟨"fcsSupport", "get", .getNe0 (EthernetPayload_getFlag_prog (.const 128))⟩,
  ⟨"fcsSupport", "set", .setConst (EthernetPayload_setFlag_prog (.const 128) true) 1⟩,
  ⟨"fcsSupport", "set", .setConst (EthernetPayload_setFlag_prog (.const 128) false) 0⟩,
  ⟨"dataLength", "get", .get EthernetPayload_getDataLength_prog 0⟩,
  ⟨"dataLength", "set", .set (EthernetPayload_Header_setDataLength_prog (.arg 0)) 0 0⟩
]

def entries_analog : List Entry := [
  ⟨"flags", "get", .get AnalogPayload_getFlags_prog 0⟩,
  ⟨"flags", "set", .set (AnalogPayload_setFlags_prog (.arg 0)) 0 0⟩,
  ⟨"sampleDt", "get", .get AnalogPayload_getSampleDt_prog 8⟩,
  ⟨"sampleDt", "set", .set (AnalogPayload_setSampleDt_prog (.arg 0)) 0 8⟩,
  ⟨"unit", "get", .get AnalogPayload_getUnit_prog 0⟩,
  ⟨"unit", "set", .set (AnalogPayload_setUnit_prog (.arg 0)) 0 0⟩,
  ⟨"sampleInterval", "get", .get AnalogPayload_getSampleInterval_prog 0⟩,
  ⟨"sampleInterval", "set", .set (AnalogPayload_setSampleInterval_prog (.arg 0)) 0 0⟩,
  ⟨"sampleOffset", "get", .get AnalogPayload_getSampleOffset_prog 0⟩,
  ⟨"sampleOffset", "set", .set (AnalogPayload_setSampleOffset_prog (.arg 0)) 0 0⟩,
  ⟨"sampleScalar", "get", .get AnalogPayload_getSampleScalar_prog 0⟩,
  ⟨"sampleScalar", "set", .set (AnalogPayload_setSampleScalar_prog (.arg 0)) 0 0⟩
]

def entries_cm : List Entry := [
  ⟨"uptime", "get", .get CaptureModulePayload_getUptime_prog 0⟩,
  ⟨"uptime", "set", .set (CaptureModulePayload_setUptime_prog (.arg 0)) 0 0⟩,
  ⟨"gmIdentity", "get", .get CaptureModulePayload_getGmIdentity_prog 0⟩,
  ⟨"gmIdentity", "set", .set (CaptureModulePayload_setGmIdentity_prog (.arg 0)) 0 0⟩,
  ⟨"gmClockQuality", "get", .get CaptureModulePayload_getGmClockQuality_prog 0⟩,
  ⟨"gmClockQuality", "set", .set (CaptureModulePayload_setGmClockQuality_prog (.arg 0)) 0 0⟩,
  ⟨"currentUtcOffset", "get", .get CaptureModulePayload_getCurrentUtcOffset_prog 0⟩,
  ⟨"currentUtcOffset", "set", .set (CaptureModulePayload_setCurrentUtcOffset_prog (.arg 0)) 0 0⟩,
  ⟨"timeSource", "get", .get CaptureModulePayload_getTimeSource_prog 0⟩,
  ⟨"timeSource", "set", .set (CaptureModulePayload_setTimeSource_prog (.arg 0)) 0 0⟩,
  ⟨"domainNumber", "get", .get CaptureModulePayload_getDomainNumber_prog 0⟩,
  ⟨"domainNumber", "set", .set (CaptureModulePayload_setDomainNumber_prog (.arg 0)) 0 0⟩,
  ⟨"gptpFlags", "get", .get CaptureModulePayload_getGptpFlags_prog 0⟩,
  ⟨"gptpFlags", "set", .set (CaptureModulePayload_setGptpFlags_prog (.arg 0)) 0 0⟩
]

def entries_if : List Entry := [
  ⟨"interfaceId", "get", .get InterfacePayload_getInterfaceId_prog 0⟩,
  ⟨"interfaceId", "set", .set (InterfacePayload_setInterfaceId_prog (.arg 0)) 0 0⟩,
  ⟨"msgTotalRx", "get", .get InterfacePayload_getMsgTotalRx_prog 0⟩,
  ⟨"msgTotalRx", "set", .set (InterfacePayload_setMsgTotalRx_prog (.arg 0)) 0 0⟩,
  ⟨"msgTotalTx", "get", .get InterfacePayload_getMsgTotalTx_prog 0⟩,
  ⟨"msgTotalTx", "set", .set (InterfacePayload_setMsgTotalTx_prog (.arg 0)) 0 0⟩,
  ⟨"msgDroppedRx", "get", .get InterfacePayload_getMsgDroppedRx_prog 0⟩,
  ⟨"msgDroppedRx", "set", .set (InterfacePayload_setMsgDroppedRx_prog (.arg 0)) 0 0⟩,
  ⟨"msgDroppedTx", "get", .get InterfacePayload_getMsgDroppedTx_prog 0⟩,
  ⟨"msgDroppedTx", "set", .set (InterfacePayload_setMsgDroppedTx_prog (.arg 0)) 0 0⟩,
  ⟨"errorsTotalRx", "get", .get InterfacePayload_getErrorsTotalRx_prog 0⟩,
  ⟨"errorsTotalRx", "set", .set (InterfacePayload_setErrorsTotalRx_prog (.arg 0)) 0 0⟩,
  ⟨"errorsTotalTx", "get", .get InterfacePayload_getErrorsTotalTx_prog 0⟩,
  ⟨"errorsTotalTx", "set", .set (InterfacePayload_setErrorsTotalTx_prog (.arg 0)) 0 0⟩,
  ⟨"interfaceType", "get", .get InterfacePayload_getInterfaceType_prog 0⟩,
  ⟨"interfaceType", "set", .set (InterfacePayload_setInterfaceType_prog (.arg 0)) 0 0⟩,
  ⟨"interfaceStatus", "get", .get InterfacePayload_getInterfaceStatus_prog 0⟩,
  ⟨"interfaceStatus", "set", .set (InterfacePayload_setInterfaceStatus_prog (.arg 0)) 0 0⟩,
  ⟨"featureSupportBitmask", "get", .get InterfacePayload_getFeatureSupportBitmask_prog 0⟩,
  ⟨"featureSupportBitmask", "set", .set (InterfacePayload_setFeatureSupportBitmask_prog (.arg 0)) 0 0⟩
]

def entries_tecmphdr : List Entry := [
  ⟨"deviceId", "get", .get TECMP_CmpHeader_getDeviceId_prog 0⟩,
  ⟨"deviceId", "set", .set (TECMP_CmpHeader_setDeviceId_prog (.arg 0)) 0 0⟩,
  ⟨"sequenceCounter", "get", .get TECMP_CmpHeader_getSequenceCounter_prog 0⟩,
  ⟨"sequenceCounter", "set", .set (TECMP_CmpHeader_setSequenceCounter_prog (.arg 0)) 0 0⟩,
  ⟨"version", "get", .get TECMP_CmpHeader_getVersion_prog 0⟩,
  ⟨"version", "set", .set (TECMP_CmpHeader_setVersion_prog (.arg 0)) 0 0⟩,
  ⟨"messageType", "get", .get TECMP_CmpHeader_getMessageType_prog 0⟩,
  ⟨"messageType", "set", .set (TECMP_CmpHeader_setMessageType_prog (.arg 0)) 0 0⟩,
  ⟨"dataType", "get", .get TECMP_CmpHeader_getDataType_prog 0⟩,
  ⟨"dataType", "set", .set (TECMP_CmpHeader_setDataType_prog (.arg 0)) 0 0⟩,
  ⟨"deviceFlags", "get", .get TECMP_CmpHeader_getDeviceFlags_prog 0⟩,
  ⟨"deviceFlags", "set", .set (TECMP_CmpHeader_setDeviceFlags_prog (.arg 0)) 0 0⟩,
  ⟨"interfaceId", "get", .get TECMP_CmpHeader_getInterfaceId_prog 0⟩,
  ⟨"interfaceId", "set", .set (TECMP_CmpHeader_setInterfaceId_prog (.arg 0)) 0 0⟩,
  ⟨"timestamp", "get", .get TECMP_CmpHeader_getTimestamp_prog 0⟩,
  ⟨"timestamp", "set", .set (TECMP_CmpHeader_setTimestamp_prog (.arg 0)) 0 0⟩,
  ⟨"payloadLength", "get", .get TECMP_CmpHeader_getPayloadLength_prog 0⟩,
  ⟨"payloadLength", "set", .set (TECMP_CmpHeader_setPayloadLength_prog (.arg 0)) 0 0⟩
]

def entries_tecmpcan : List Entry := [
  ⟨"arbId", "get", .get TECMP_CanPayload_getArbId_prog 0⟩,
  ⟨"arbId", "set", .set (TECMP_CanPayload_setArbId_prog (.arg 0)) 0 0⟩,
  ⟨"dlc", "get", .get TECMP_CanPayload_getDlc_prog 0⟩,
  ⟨"dlc", "set", .set (TECMP_CanPayload_setDlc_prog (.arg 0)) 0 0⟩
]

def entries_tecmplin : List Entry := [
  ⟨"pid", "get", .get TECMP_LinPayload_getPid_prog 0⟩,
  ⟨"pid", "set", .set (TECMP_LinPayload_setPid_prog (.arg 0)) 0 0⟩,
  ⟨"dataLength", "get", .get TECMP_LinPayload_getDataLength_prog 0⟩,
  ⟨"dataLength", "set", .set (TECMP_LinPayload_setDataLength_prog (.arg 0)) 0 0⟩
]

def entries_tecmpif : List Entry := [
  ⟨"vendorId", "get", .get TECMP_InterfacePayload_getVendorId_prog 0⟩,
  ⟨"vendorId", "set", .set (TECMP_InterfacePayload_setVendorId_prog (.arg 0)) 0 0⟩,
  ⟨"cmVersion", "get", .get TECMP_InterfacePayload_getCmVersion_prog 0⟩,
  ⟨"cmVersion", "set", .set (TECMP_InterfacePayload_setCmVersion_prog (.arg 0)) 0 0⟩,
  ⟨"cmType", "get", .get TECMP_InterfacePayload_getCmType_prog 0⟩,
  ⟨"cmType", "set", .set (TECMP_InterfacePayload_setCmType_prog (.arg 0)) 0 0⟩,
  ⟨"vendorDataLength", "get", .get TECMP_InterfacePayload_getVendorDataLength_prog 0⟩,
  ⟨"vendorDataLength", "set", .set (TECMP_InterfacePayload_setVendorDataLength_prog (.arg 0)) 0 0⟩,
  ⟨"deviceId", "get", .get TECMP_InterfacePayload_getDeviceId_prog 0⟩,
  ⟨"deviceId", "set", .set (TECMP_InterfacePayload_setDeviceId_prog (.arg 0)) 0 0⟩,
  ⟨"serialNumber", "get", .get TECMP_InterfacePayload_getSerialNumber_prog 0⟩,
  ⟨"serialNumber", "set", .set (TECMP_InterfacePayload_setSerialNumber_prog (.arg 0)) 0 0⟩,
  ⟨"interfaceId", "get", .get TECMP_InterfacePayload_getInterfaceId_prog 0⟩,
  ⟨"interfaceId", "set", .set (TECMP_InterfacePayload_setInterfaceId_prog (.arg 0)) 0 0⟩,
  ⟨"messagesTotal", "get", .get TECMP_InterfacePayload_getMessagesTotal_prog 0⟩,
  ⟨"messagesTotal", "set", .set (TECMP_InterfacePayload_setMessagesTotal_prog (.arg 0)) 0 0⟩,
  ⟨"errorsTotal", "get", .get TECMP_InterfacePayload_getErrorsTotal_prog 0⟩,
  ⟨"errorsTotal", "set", .set (TECMP_InterfacePayload_setErrorsTotal_prog (.arg 0)) 0 0⟩,
  ⟨"vendorDataLinkStatus", "get", .get TECMP_InterfacePayload_getVendorDataLinkStatus_prog 0⟩,
  ⟨"vendorDataLinkStatus", "set", .set (TECMP_InterfacePayload_setVendorDataLinkStatus_prog (.arg 0)) 0 0⟩,
  ⟨"vendorDataLinkQuality", "get", .get TECMP_InterfacePayload_getVendorDataLinkQuality_prog 0⟩,
  ⟨"vendorDataLinkQuality", "set", .set (TECMP_InterfacePayload_setVendorDataLinkQuality_prog (.arg 0)) 0 0⟩,
  ⟨"vendorDataLinkupTime", "get", .get TECMP_InterfacePayload_getVendorDataLinkupTime_prog 0⟩,
  ⟨"vendorDataLinkupTime", "set", .set (TECMP_InterfacePayload_setVendorDataLinkupTime_prog (.arg 0)) 0 0⟩
]

def entries_tecmpcm : List Entry := [
  ⟨"vendorId", "get", .get TECMP_CaptureModulePayload_getVendorId_prog 0⟩,
  ⟨"vendorId", "set", .set (TECMP_CaptureModulePayload_setVendorId_prog (.arg 0)) 0 0⟩,
  ⟨"deviceVersion", "get", .get TECMP_CaptureModulePayload_getDeviceVersion_prog 0⟩,
  ⟨"deviceVersion", "set", .set (TECMP_CaptureModulePayload_setDeviceVersion_prog (.arg 0)) 0 0⟩,
  ⟨"deviceType", "get", .get TECMP_CaptureModulePayload_getDeviceType_prog 0⟩,
  ⟨"deviceType", "set", .set (TECMP_CaptureModulePayload_setDeviceType_prog (.arg 0)) 0 0⟩,
  ⟨"vendorDataLength", "get", .get TECMP_CaptureModulePayload_getVendorDataLength_prog 0⟩,
  ⟨"vendorDataLength", "set", .set (TECMP_CaptureModulePayload_setVendorDataLength_prog (.arg 0)) 0 0⟩,
  ⟨"deviceId", "get", .get TECMP_CaptureModulePayload_getDeviceId_prog 0⟩,
  ⟨"deviceId", "set", .set (TECMP_CaptureModulePayload_setDeviceId_prog (.arg 0)) 0 0⟩,
  ⟨"serialNumber", "get", .get TECMP_CaptureModulePayload_getSerialNumber_prog 0⟩,
  ⟨"serialNumber", "set", .set (TECMP_CaptureModulePayload_setSerialNumber_prog (.arg 0)) 0 0⟩,
  ⟨"swVersionMajor", "get", .get TECMP_CaptureModulePayload_getSwVersionMajor_prog 0⟩,
  ⟨"swVersionMajor", "set", .set (TECMP_CaptureModulePayload_setSwVersionMajor_prog (.arg 0)) 0 0⟩,
  ⟨"swVersionMinor", "get", .get TECMP_CaptureModulePayload_getSwVersionMinor_prog 0⟩,
  ⟨"swVersionMinor", "set", .set (TECMP_CaptureModulePayload_setSwVersionMinor_prog (.arg 0)) 0 0⟩,
  ⟨"swVersionPatch", "get", .get TECMP_CaptureModulePayload_getSwVersionPatch_prog 0⟩,
  ⟨"swVersionPatch", "set", .set (TECMP_CaptureModulePayload_setSwVersionPatch_prog (.arg 0)) 0 0⟩,
  ⟨"hwVersionMajor", "get", .get TECMP_CaptureModulePayload_getHwVersionMajor_prog 0⟩,
  ⟨"hwVersionMajor", "set", .set (TECMP_CaptureModulePayload_setHwVersionMajor_prog (.arg 0)) 0 0⟩,
  ⟨"hwVersionMinor", "get", .get TECMP_CaptureModulePayload_getHwVersionMinor_prog 0⟩,
  ⟨"hwVersionMinor", "set", .set (TECMP_CaptureModulePayload_setHwVersionMinor_prog (.arg 0)) 0 0⟩,
  ⟨"bufferFill", "get", .get TECMP_CaptureModulePayload_getBufferFill_prog 0⟩,
  ⟨"bufferFill", "set", .set (TECMP_CaptureModulePayload_setBufferFill_prog (.arg 0)) 0 0⟩,
  ⟨"isBufferOverflow", "get", .get TECMP_CaptureModulePayload_getIsBufferOverflow_prog 0⟩,
  ⟨"isBufferOverflow", "set", .set (TECMP_CaptureModulePayload_setIsBufferOverflow_prog (.arg 0)) 0 0⟩,
  ⟨"bufferSize", "get", .get TECMP_CaptureModulePayload_getBufferSize_prog 0⟩,
  ⟨"bufferSize", "set", .set (TECMP_CaptureModulePayload_setBufferSize_prog (.arg 0)) 0 0⟩,
  ⟨"lifecycle", "get", .get TECMP_CaptureModulePayload_getLifecycle_prog 0⟩,
  ⟨"lifecycle", "set", .set (TECMP_CaptureModulePayload_setLifecycle_prog (.arg 0)) 0 0⟩,
  ⟨"voltageWhole", "get", .get TECMP_CaptureModulePayload_getVoltageWhole_prog 0⟩,
  ⟨"voltageWhole", "set", .set (TECMP_CaptureModulePayload_setVoltageWhole_prog (.arg 0)) 0 0⟩,
  ⟨"voltageFraction", "get", .get TECMP_CaptureModulePayload_getVoltageFraction_prog 0⟩,
  ⟨"voltageFraction", "set", .set (TECMP_CaptureModulePayload_setVoltageFraction_prog (.arg 0)) 0 0⟩,
  ⟨"chassisTemp", "get", .get TECMP_CaptureModulePayload_getChassisTemp_prog 0⟩,
  ⟨"chassisTemp", "set", .set (TECMP_CaptureModulePayload_setChassisTemp_prog (.arg 0)) 0 0⟩,
  ⟨"silliconTemp", "get", .get TECMP_CaptureModulePayload_getSilliconTemp_prog 0⟩,
  ⟨"silliconTemp", "set", .set (TECMP_CaptureModulePayload_setSilliconTemp_prog (.arg 0)) 0 0⟩
]

def entries_packet : List Entry := [

]

def entries_ptype : List Entry := [

]

/-- accessors of the protocol table's fields without an entry, with the reason -/
def notCovered : List String := [

]

end AsamCmp.SrcGen
