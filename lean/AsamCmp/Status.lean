/-
  Status tracker (C16): `Status` = vector of `DeviceStatus`, each holding the latest capture-module
  status packet of a device and a vector of `InterfaceStatus` (interface id, latest packet).
  Vectors are lists; removal is swap-with-last + pop, modelled literally.
-/
import AsamCmp.Packet
namespace AsamCmp

structure IfSt where
  id : Nat
  pkt : Packet
deriving Repr, DecidableEq, Inhabited

structure DevSt where
  pkt : Packet
  ifs : List IfSt
deriving Repr, DecidableEq, Inhabited

abbrev StatusSt := List DevSt

/-- payload type of a packet (0 without payload; the C++ requires a payload) -/
def Packet.pty (p : Packet) : Nat := match p.payload with | none => 0 | some pl => pl.ty

/-- interface id of an interface status payload: bytes 0..3 -/
def Packet.payloadIfId (p : Packet) : Nat := beAt p.data 0 4

/-- `find_if` + `distance`: index of the first element satisfying `f`, or the length -/
def findIdx {α} (f : α → Bool) : List α → Nat
  | [] => 0
  | x :: xs => if f x then 0 else findIdx f xs + 1

/-- `std::swap(v[i], v.back()); v.pop_back()` for `i < v.size()` -/
def swapRemove {α} (l : List α) (i : Nat) : List α :=
  match l.getLast? with
  | none => l
  | some lastEl => (l.set i lastEl).dropLast

def DevSt.indexOfIf (d : DevSt) (id : Nat) : Nat := findIdx (fun i => i.id == id) d.ifs

/-- `DeviceStatus::updateInterfaces` -/
def DevSt.updateIfs (d : DevSt) (p : Packet) : DevSt :=
  let id := p.payloadIfId
  let i := d.indexOfIf id
  if i ≠ d.ifs.length then { d with ifs := d.ifs.set i ⟨id, p⟩ }
  else { d with ifs := d.ifs ++ [⟨id, p⟩] }

/-- `DeviceStatus::update` -/
def DevSt.update (d : DevSt) (p : Packet) : DevSt :=
  let d1 := if p.pty = tyIf then d.updateIfs p else d
  if p.pty = tyCm then { d1 with pkt := p } else d1

def DevSt.removeIf (d : DevSt) (id : Nat) : DevSt :=
  let i := d.indexOfIf id
  if i ≠ d.ifs.length then { d with ifs := swapRemove d.ifs i } else d

def indexOfDev (s : StatusSt) (id : Nat) : Nat := findIdx (fun d => d.pkt.deviceId == id) s

/-- `Status::update` -/
def statusUpdate (s : StatusSt) (p : Packet) : StatusSt :=
  let i := indexOfDev s p.deviceId
  if i < s.length then s.modify i (fun d => d.update p)
  else if p.pty = tyCm then s ++ [(({ pkt := Packet.mk none 1 0 0 0 0 0 0 0 0, ifs := [] } : DevSt).update p)]
  else s

def statusRemoveDev (s : StatusSt) (id : Nat) : StatusSt :=
  let i := indexOfDev s id
  if i ≠ s.length then swapRemove s i else s

/-- `getDeviceStatus(getIndexByDeviceId(dev)).removeInterfaceById(id)` when the device exists -/
def statusRemoveIf (s : StatusSt) (dev id : Nat) : StatusSt :=
  let i := indexOfDev s dev
  if i < s.length then s.modify i (fun d => d.removeIf id) else s

inductive StOp
  | update (p : Packet)
  | rmDev (id : Nat)
  | rmIf (dev id : Nat)
  | clear

def statusStep (s : StatusSt) : StOp → StatusSt
  | .update p => statusUpdate s p
  | .rmDev id => statusRemoveDev s id
  | .rmIf dev id => statusRemoveIf s dev id
  | .clear => []

def statusRun (s : StatusSt) (ops : List StOp) : StatusSt := ops.foldl statusStep s

end AsamCmp
