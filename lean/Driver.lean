/-
  Line-protocol driver: interprets the same operation scripts as the C++ harness, using the
  model definitions the theorems are about.  One output line per operation.
-/
import AsamCmp
open AsamCmp

structure EncSlot where
  enc : Enc := {}
  frames : List Bytes := []

structure DecSlot where
  st : DecState := DecState.empty
  eps : List Ep := []
  last : List Packet := []
  /-- pending table of the low-level decoder model (DecoderLL.lean), driven by `feedll` -/
  tbl : Table := []

structure DState where
  tpls : List (String × Payload) := []
  pls : List (String × Payload) := []
  stats : List (String × StatusSt) := []
  pkts : List (String × Packet) := []
  encs : List (String × EncSlot) := []
  decs : List (String × DecSlot) := []

def lookup {α} [Inhabited α] (l : List (String × α)) (k : String) : α :=
  match l.find? (·.1 == k) with
  | some (_, v) => v
  | none => default

def upsert {α} (l : List (String × α)) (k : String) (v : α) : List (String × α) :=
  (k, v) :: l.filter (·.1 != k)

instance : Inhabited EncSlot := ⟨{}⟩
instance : Inhabited DecSlot := ⟨{}⟩
instance : Inhabited StatusSt := ⟨[]⟩

def hex4 (n : Nat) : String := toHex (beEnc 2 n)

def showPacket (p : Packet) : String :=
  match p.payload with
  | none => s!"nopayload:{p.version}:{p.deviceId}:{p.streamId}:{p.seq}:{p.ts}:{p.ifId}:{p.vendorId}:{p.flags}:{p.segType}"
  | some pl =>
    s!"{toHex (beEnc 4 pl.ty)}:{p.version}:{p.deviceId}:{p.streamId}:{p.seq}:{p.ts}:{p.ifId}:{p.vendorId}:{p.flags}:{p.segType}:{if pl.isValid then 1 else 0}:{pl.data.length}:{showBytes pl.data}"

def showPayload (pl : Payload) : String :=
  s!"{toHex (beEnc 4 pl.ty)}:{if pl.isValid then 1 else 0}:{pl.data.length}:{showBytes pl.data}"

def has {α} (l : List (String × α)) (k : String) : Bool := l.any (·.1 == k)
def remove {α} (l : List (String × α)) (k : String) : List (String × α) := l.filter (·.1 != k)

def mkPayload (ty : String) (d : Bytes) : Option Payload :=
  match ofHexChars ty.toList with
  | some tb => if tb.isEmpty || tb.length > 4 then none else
      let t := beDec tb
      some ⟨t, if t = 0 then zeros d.length else d⟩
  | none => none

def setPacketField (p : Packet) (f : String) (v : Nat) : Option Packet :=
  if f == "version" then some { p with version := v % 256 }
  else if f == "deviceId" then some { p with deviceId := v % 65536 }
  else if f == "streamId" then some { p with streamId := v % 256 }
  else if f == "sequenceCounter" then some { p with seq := v % 65536 }
  else if f == "timestamp" then some { p with ts := v % 2 ^ 64 }
  else if f == "interfaceId" then some { p with ifId := v % 2 ^ 32 }
  else if f == "vendorId" then some { p with vendorId := v % 65536 }
  else if f == "commonFlags" then some { p with flags := v % 256 }
  else if f == "segmentType" then some { p with segType := v % 256 }
  else none

def showStatus (s : StatusSt) : String :=
  s!"devs {s.length}" ++ String.join (s.map fun d =>
    s!" | dev {d.pkt.deviceId} {showPacket d.pkt} ifs {d.ifs.length}" ++
      String.join (d.ifs.map fun i => s!" ; {i.id} {showPacket i.pkt}"))

def showPackets (ps : List Packet) : String :=
  s!"pk {ps.length}" ++ String.join (ps.map fun p => " " ++ showPacket p)

def nat! (s : String) : Nat := s.toNat?.getD 0

/-- a payload byte overwritten in place (`none`: no payload, or offset behind the payload) -/
def plWrite (p : Packet) (off v : Nat) : Option Packet :=
  match p.payload with
  | some pl => if off < pl.data.length then some { p with payload := some { pl with data := writeAt pl.data off [UInt8.ofNat v] } } else none
  | none => none

/-- parse a packet view as printed by `showPacket` (of either side) -/
def parsePacketView (t : String) : Option Packet :=
  match t.splitOn ":" with
  | [ty, ver, dev, stream, seq, ts, ifid, vend, flags, seg, _valid, _len, data] =>
    match ofHexChars ty.toList, parseBytes data with
    | some tb, some d =>
      some { payload := some ⟨beDec tb, d⟩, version := nat! ver, deviceId := nat! dev, streamId := nat! stream, seq := nat! seq,
             ts := nat! ts, ifId := nat! ifid, vendorId := nat! vend, flags := nat! flags, segType := nat! seg }
    | _, _ => none
  | _ => none

def splitAt (sep : String) (w : List String) : List String × List String :=
  (w.takeWhile (· != sep), (w.dropWhile (· != sep)).drop 1)

/-- decode one buffer on a decoder slot (capture-module path only; TECMP handled by caller) -/
def decodeBuf (d : DecSlot) (b : Bytes) : DecSlot × List Packet :=
  if b.length < 8 then (d, [])
  else if byteAt b 0 = 0 then (d, tecmpDecode b)
  else
    let f := parseFrame b
    let r := step d.st f
    ({ d with st := r.1, eps := if d.eps.contains f.ep then d.eps else f.ep :: d.eps }, r.2)

def insertSorted (x : Ep × Nat) : List (Ep × Nat) → List (Ep × Nat)
  | [] => [x]
  | y :: ys => if x.1.1 < y.1.1 ∨ (x.1.1 = y.1.1 ∧ x.1.2 ≤ y.1.2) then x :: y :: ys else y :: insertSorted x ys

def showPending (d : DecSlot) : String :=
  let l := d.eps.filterMap fun e => (d.st e).map fun p => (e, p.buf.length)
  let l := l.foldr insertSorted []
  s!"pending {l.length}" ++ String.join (l.map fun x => s!" {x.1.1}:{x.1.2}:{x.2}")

/-- apply the corruption suffixes of a `feedsel` item to a frame: `v<n>` version, `t<n>` type -/
def corrupt (b : Bytes) (mods : List String) : Bytes :=
  mods.foldl (fun b m =>
    if m.startsWith "v" then writeAt b 0 [UInt8.ofNat (nat! (m.drop 1).toString)]
    else if m.startsWith "t" then writeAt b 4 [UInt8.ofNat (nat! (m.drop 1).toString)]
    else b) b

def stepLine (s : DState) (w : List String) : DState × String :=
  match w with
  | ["case", _] => ({}, "case")
  | ["pkt", id, ty, ver, dev, stream, seq, ts, ifid, vend, flags, seg, data] =>
    match parseBytes data with
    | none => (s, "bad-op")
    | some d =>
      let pl : Option Payload :=
        if ty == "none" then none
        else mkPayload ty d
      let p : Packet := { payload := pl, version := nat! ver, deviceId := nat! dev, streamId := nat! stream,
                          seq := nat! seq, ts := nat! ts, ifId := nat! ifid, vendorId := nat! vend,
                          flags := nat! flags, segType := nat! seg }
      ({ s with pkts := upsert s.pkts id p }, "ok")
  | ["pk", "copy", d, src] =>
    if has s.pkts src then ({ s with pkts := upsert s.pkts d (copyCtor (lookup s.pkts src)) }, "ok") else (s, "bad-op")
  | ["pk", "move", d, src] =>
    if has s.pkts src && d != src then
      let r := moveCtor (lookup s.pkts src)
      ({ s with pkts := upsert (upsert s.pkts src r.2) d r.1 }, "ok")
    else (s, "bad-op")
  | ["pk", "assign", d, src] =>
    if has s.pkts src then
      let dst := if has s.pkts d then lookup s.pkts d else Packet.dflt
      ({ s with pkts := upsert s.pkts d (copyAssign dst (lookup s.pkts src)) }, "ok")
    else (s, "bad-op")
  | ["pk", "massign", d, src] =>
    if has s.pkts src then
      if d == src then (s, "ok")
      else
        let dst := if has s.pkts d then lookup s.pkts d else Packet.dflt
        let r := moveAssign dst (lookup s.pkts src)
        ({ s with pkts := upsert (upsert s.pkts src r.2) d r.1 }, "ok")
    else (s, "bad-op")
  | ["pk", "eq", a, b] =>
    if has s.pkts a && has s.pkts b then
      let e := packetEq (lookup s.pkts a) (lookup s.pkts b)
      let n := packetNe (lookup s.pkts a) (lookup s.pkts b)
      (s, s!"eq={if e then 1 else 0} ne={if n then 1 else 0}")
    else (s, "bad-op")
  | ["pk", "show", a] => if has s.pkts a then (s, showPacket (lookup s.pkts a)) else (s, "bad-op")
  | ["pk", "rawhdr", a] =>
    if has s.pkts a && (lookup s.pkts a).payload.isSome then
      let p := lookup s.pkts a
      (s, "cmp=" ++ showBytes (frameHeader (p.version % 256) p.deviceId p.mt p.streamId p.seq) ++
          " msg=" ++ showBytes (msgHeader p (p.flags % 256 &&& 0x0C) p.payloadLength))
    else (s, "bad-op")
  | ["pk", "set", a, f, v] =>
    if has s.pkts a then
      match setPacketField (lookup s.pkts a) f (nat! v) with
      | some p => ({ s with pkts := upsert s.pkts a p }, "ok")
      | none => (s, "bad-op")
    else (s, "bad-op")
  | ["pk", "setpayload", a, ty, hx] =>
    match (if has s.pkts a then parseBytes hx else none) with
    | some d =>
      match mkPayload ty d with
      | some pl => ({ s with pkts := upsert s.pkts a { lookup s.pkts a with payload := some pl } }, "ok")
      | none => (s, "bad-op")
    | none => (s, "bad-op")
  | ["pk", "drop", a] => ({ s with pkts := remove s.pkts a }, "ok")
  -- one payload byte written in place through the reference `getPayload()` returns (C14 / C19: a copy shares no state)
  | ["pk", "plwrite", a, off, v] =>
    match (if has s.pkts a then plWrite (lookup s.pkts a) (nat! off) (nat! v) else none) with
    | some p => ({ s with pkts := upsert s.pkts a p }, "ok")
    | none => (s, "bad-op")
  -- the payload replaced / re-tagged IN PLACE through the reference `getPayload()` returns (the packet object is not told)
  | ["pk", "plassign", a, ty, hx] =>
    match (if has s.pkts a && (lookup s.pkts a).payload.isSome then parseBytes hx else none) with
    | some d =>
      match mkPayload ty d with
      | some pl => ({ s with pkts := upsert s.pkts a { lookup s.pkts a with payload := some pl } }, "ok")
      | none => (s, "bad-op")
    | none => (s, "bad-op")
  | ["pk", "plsettype", a, ty] =>
    if has s.pkts a then
      let p := lookup s.pkts a
      match p.payload with
      | some pl => ({ s with pkts := upsert s.pkts a { p with payload := some { pl with ty := nat! ty % 2 ^ 32 } } }, "ok")
      | none => (s, "bad-op")
    else (s, "bad-op")
  -- the reference is taken BEFORE the copy / assignment and written through AFTER it: only the source changes
  | ["pk", "refcopy", d, src, off, v] =>
    match (if has s.pkts src && d != src then plWrite (lookup s.pkts src) (nat! off) (nat! v) else none) with
    | some p => ({ s with pkts := upsert (upsert s.pkts d (copyCtor (lookup s.pkts src))) src p }, "ok")
    | none => (s, "bad-op")
  | ["pk", "refassign", d, src, off, v] =>
    match (if has s.pkts src && d != src then plWrite (lookup s.pkts src) (nat! off) (nat! v) else none) with
    | some p =>
      let dst := if has s.pkts d then lookup s.pkts d else Packet.dflt
      ({ s with pkts := upsert (upsert s.pkts d (copyAssign dst (lookup s.pkts src))) src p }, "ok")
    | none => (s, "bad-op")
  | ["pl", "new", a, ty, hx] =>
    match parseBytes hx with
    | some d =>
      match mkPayload ty d with
      | some pl => ({ s with pls := upsert s.pls a pl }, "ok")
      | none => (s, "bad-op")
    | none => (s, "bad-op")
  | ["pl", "copy", d, src] =>
    if has s.pls src then ({ s with pls := upsert s.pls d (lookup s.pls src) }, "ok") else (s, "bad-op")
  | ["pl", "move", d, src] =>
    if has s.pls src && d != src then ({ s with pls := upsert (remove s.pls src) d (lookup s.pls src) }, "ok") else (s, "bad-op")
  | ["pl", "assign", d, src] =>
    if has s.pls src && has s.pls d then ({ s with pls := upsert s.pls d (lookup s.pls src) }, "ok") else (s, "bad-op")
  | ["pl", "massign", d, src] =>
    if has s.pls src && has s.pls d && d != src then ({ s with pls := upsert (remove s.pls src) d (lookup s.pls src) }, "ok")
    else (s, "bad-op")
  | ["pl", "eq", a, b] =>
    if has s.pls a && has s.pls b then (s, s!"eq={if payloadEq (lookup s.pls a) (lookup s.pls b) then 1 else 0}") else (s, "bad-op")
  | ["pl", "show", a] => if has s.pls a then (s, showPayload (lookup s.pls a)) else (s, "bad-op")
  | ["pl", "drop", a] => ({ s with pls := remove s.pls a }, "ok")
  | ["pl", op, a, v] =>
    if has s.pls a && (op == "settype" || op == "setmt" || op == "setraw") then
      let p := lookup s.pls a
      let ty := if op == "settype" then nat! v % 2 ^ 32
                else if op == "setmt" then (p.ty - p.ty / 256 % 256 * 256) + nat! v % 256 * 256
                else p.ty - p.ty % 256 + nat! v % 256
      let p' : Payload := { p with ty := ty }
      ({ s with pls := upsert s.pls a p' }, showPayload p' ++ s!" mt={p'.mt} raw={p'.raw}")
    else (s, "bad-op")
  -- TECMP payload objects: same value model; validity is `type != 0xFFFF`
  | ["tpl", "new", a, ty, hx] =>
    match parseBytes hx, ofHexChars ty.toList with
    | some d, some tb =>
      if tb.isEmpty || tb.length > 4 then (s, "bad-op")
      else
        let t := beDec tb
        ({ s with tpls := upsert s.tpls a ⟨t, if t = 0xFFFF then zeros d.length else d⟩ }, "ok")
    | _, _ => (s, "bad-op")
  | ["tpl", "copy", d, src] =>
    if has s.tpls src then ({ s with tpls := upsert s.tpls d (lookup s.tpls src) }, "ok") else (s, "bad-op")
  | ["tpl", "assign", d, src] =>
    if has s.tpls src && has s.tpls d then ({ s with tpls := upsert s.tpls d (lookup s.tpls src) }, "ok") else (s, "bad-op")
  | ["tpl", "eq", a, b] =>
    if has s.tpls a && has s.tpls b then (s, s!"eq={if payloadEq (lookup s.tpls a) (lookup s.tpls b) then 1 else 0}") else (s, "bad-op")
  | ["tpl", "lindata", prior, hx] =>
    match parseBytes prior, parseBytes hx with
    | some b, some d =>
      if b.length < 2 || d.length > 255 then (s, "bad-op")
      else
        let o := writeAt (setTail 2 b d) 1 [UInt8.ofNat d.length]
        (s, s!"raw={showBytes o} len={byteAt o 1} pid={byteAt o 0}")
    | _, _ => (s, "bad-op")
  | ["tpl", op, a] =>
    if op == "show" && has s.tpls a then
      let p := lookup s.tpls a
      (s, s!"{toHex (beEnc 4 p.ty)}:{if p.ty != 0xFFFF then 1 else 0}:{p.data.length}:{showBytes p.data} mt={p.mt} raw={p.raw}")
    else (s, "bad-op")
  | ["tpl", op, a, v] =>
    if has s.tpls a && (op == "settype" || op == "setmt" || op == "setraw") then
      let p := lookup s.tpls a
      let ty := if op == "settype" then nat! v % 2 ^ 32
                else if op == "setmt" then (p.ty - p.ty / 256 % 256 * 256) + nat! v % 256 * 256
                else p.ty - p.ty % 256 + nat! v % 256
      let p' : Payload := { p with ty := ty }
      ({ s with tpls := upsert s.tpls a p' },
        s!"{toHex (beEnc 4 p'.ty)}:{if p'.ty != 0xFFFF then 1 else 0}:{p'.data.length}:{showBytes p'.data} mt={p'.mt} raw={p'.raw}")
    else (s, "bad-op")
  | "st" :: sid :: rest =>
    let st : StatusSt := lookup s.stats sid
    match rest with
    | ["update", pid] =>
      if has s.pkts pid && (lookup s.pkts pid).payload.isSome then
        ({ s with stats := upsert s.stats sid (statusUpdate st (lookup s.pkts pid)) }, "ok")
      else (s, "bad-op")
    | ["rmdev", id] => ({ s with stats := upsert s.stats sid (statusRemoveDev st (nat! id % 65536)) }, "ok")
    | ["rmif", dev, id] => ({ s with stats := upsert s.stats sid (statusRemoveIf st (nat! dev % 65536) (nat! id % 2 ^ 32)) }, "ok")
    | ["clear"] => ({ s with stats := upsert s.stats sid [] }, "ok")
    -- this tracker becomes a COPY of another one (Status copy assignment): a value, nothing shared afterwards
    | ["copyfrom", other] => if has s.stats other then ({ s with stats := upsert s.stats sid (lookup s.stats other) }, "ok") else (s, "bad-op")
    | ["idx", id] => (s, s!"idx={indexOfDev st (nat! id % 65536)} count={st.length}")
    | ["ifidx", dev, id] =>
      let i := indexOfDev st (nat! dev % 65536)
      match st[i]? with
      | none => (s, "nodev")
      | some d => (s, s!"ifidx={d.indexOfIf (nat! id % 2 ^ 32)} count={d.ifs.length}")
    | ["dump"] => (s, showStatus st)
    | ["dumpmut"] => (s, showStatus st)
    | _ => (s, "bad-op")
  | "enc" :: e :: rest =>
    let slot := lookup s.encs e
    match rest with
    | ["dev", n] => ({ s with encs := upsert s.encs e { slot with enc := slot.enc.setDevice (nat! n) } }, "ok")
    | ["stream", n] => ({ s with encs := upsert s.encs e { slot with enc := slot.enc.setStream (nat! n) } }, "ok")
    | ["restart"] => ({ s with encs := upsert s.encs e { slot with enc := slot.enc.restart } }, "ok")
    | ["seq"] => (s, s!"seq {slot.enc.seqc}")
    | ["ids"] => (s, s!"ids {slot.enc.dev} {slot.enc.stream}")
    | "encodethrow" :: mn :: mx :: k :: ids =>
      -- an encode call left by an exception of the caller's iterator after `k` packets were put: no frames are handed out; the
      -- encoder keeps what `putPacket` did to the counter and the message type (the next call resets the rest)
      let c : Ctx := ⟨nat! mn, nat! mx⟩
      let batch := ids.map (lookup s.pkts)
      if !c.ok then (s, "bad-ctx")
      else if batch.any (fun p => p.payload.isNone) || nat! k >= batch.length then (s, "bad-batch")
      else
        let pre := batch.take (nat! k)
        let s0 : Enc := { slot.enc with closed := [], cur := none, tmpl := none }
        let st := ((List.range pre.length).zip pre).foldl (putPacket c) s0
        ({ s with encs := upsert s.encs e { slot with enc := { slot.enc with seqc := st.seqc, curMt := st.curMt } } }, "threw")
    | kind :: mn :: mx :: ids =>
      let c : Ctx := ⟨nat! mn, nat! mx⟩
      if kind == "encodell" then
        -- the low-level model (EncoderLL.lean); proved equal to the structured one on the properties' domain (Props/C07b.lean)
        if !c.ok then (s, "bad-ctx")
        else
          let batch := ids.map (lookup s.pkts)
          if batch.any (fun p => p.payload.isNone) then (s, "bad-batch")
          else
            let r := slot.enc.toLL.encode batch c
            ({ s with encs := upsert s.encs e { enc := { slot.enc with seqc := r.1.seqc, curMt := r.1.mt }, frames := r.2 } },
              s!"frames {r.2.length}" ++ String.join (r.2.map fun f => " " ++ toHex f))
      else if kind == "encodeacc" then
        if !c.ok then (s, "bad-ctx")
        else
          let batch := ids.map (lookup s.pkts)
          if batch.any (fun p => p.payload.isNone) then (s, "bad-batch")
          else
            let r := slot.enc.encode batch c
            let frames := r.2.map (EFrame.bytes c.min)
            ({ s with encs := upsert s.encs e { enc := r.1, frames := slot.frames ++ frames } },
              s!"frames {frames.length}" ++ String.join (frames.map fun f => " " ++ toHex f))
      else if kind != "encode" && kind != "encodep" && kind != "encode1" then (s, "bad-op")
      -- (plain encode operations: only a maximum below 25 is outside the library's precondition; a minimum above the maximum is accepted
      --  by the library, which pads every frame to the minimum — so does the model)
      else if kind == "encode1" && ids.length != 1 then (s, if c.max ≥ 25 then "bad-batch" else "bad-ctx")
      else if c.max < 25 then (s, "bad-ctx")
      else
        let batch := ids.map (lookup s.pkts)
        if batch.any (fun p => p.payload.isNone) then (s, "bad-batch")
        else
          let r := slot.enc.encode batch c
          let frames := r.2.map (EFrame.bytes c.min)
          ({ s with encs := upsert s.encs e { enc := r.1, frames := frames } },
            s!"frames {frames.length}" ++ String.join (frames.map fun f => " " ++ toHex f))
    | _ => (s, "bad-op")
  | "dec" :: d :: rest =>
    let slot := lookup s.decs d
    match rest with
    | ["feed", hx] =>
      match parseBytes hx with
      | none => (s, "bad-op")
      | some b =>
        let r := decodeBuf slot b
        ({ s with decs := upsert s.decs d { r.1 with last := r.2 } }, showPackets r.2)
    -- a buffer of n bytes (n may exceed 2^31): the given bytes followed by zeros.  The generator only emits prefixes that END in a
    -- segmented message whose declared payload lies inside the prefix: the walk stops at the first segmented message and bytes behind
    -- a segment's declared length never enter it (C05b.segFrame_parse, C17S.parseFrame_seg_wire), so the answer does not depend on how
    -- many zeros follow and the model is asked with 64 of them instead of 2^31
    | ["feedhuge", n, hx] =>
      match parseBytes hx with
      | none => (s, "bad-op")
      | some b =>
        if nat! n < b.length then (s, "bad-op")
        else
          let r := decodeBuf slot (b ++ zeros (min (nat! n - b.length) 64))
          ({ s with decs := upsert s.decs d { r.1 with last := r.2 } }, showPackets r.2)
    | ["null"] => ({ s with decs := upsert s.decs d { slot with last := [] } }, showPackets [])
    | ["reprint"] => (s, showPackets slot.last)
    | ["destroy"] => ({ s with decs := upsert s.decs d { slot with st := DecState.empty, eps := [] } }, "ok")
    | ["copyfrom", other] =>
      if has s.decs other then
        let o := lookup s.decs other
        ({ s with decs := upsert s.decs d { slot with st := o.st, eps := o.eps, tbl := o.tbl } }, "ok")
      else (s, "bad-op")
    | ["feedlast", e] =>
      let frames := (lookup s.encs e).frames
      let r := frames.foldl (fun (acc : DecSlot × List Packet) b =>
        let r := decodeBuf acc.1 b; (r.1, acc.2 ++ r.2)) (slot, [])
      ({ s with decs := upsert s.decs d { r.1 with last := r.2 } }, showPackets r.2)
    | "feedsel" :: e :: items =>
      let frames := (lookup s.encs e).frames
      let r := items.foldl (fun (acc : DecSlot × List String) it =>
        match it.splitOn ":" with
        | idx :: mods =>
          match frames[nat! idx]? with
          | none => acc
          | some b =>
            let r := decodeBuf acc.1 (corrupt b mods)
            (r.1, acc.2 ++ [showPackets r.2])
        | [] => acc) (slot, [])
      ({ s with decs := upsert s.decs d r.1 }, "sel " ++ " | ".intercalate r.2)
    | ["pending"] => (s, showPending slot)
    | ["feedll", hx] =>
      match parseBytes hx with
      | none => (s, "bad-op")
      | some b =>
        let r := decodeLL slot.tbl (some b)
        ({ s with decs := upsert s.decs d { slot with tbl := r.1, last := r.2 } }, showPackets r.2)
    | ["pendingll"] =>
      let l := (slot.tbl.map fun x => (x.1, x.2.payload.length)).foldr insertSorted []
      (s, s!"pending {l.length}" ++ String.join (l.map fun x => s!" {x.1.1}:{x.1.2}:{x.2}"))
    | ["access"] =>
      let items := slot.last.map fun p =>
        match p.payload with
        | some pl =>
          if pl.isValid then
            match kindOfTy pl.ty with
            | some k =>
              match (kindAccess k).bind (fun a => a pl.data) with
              | some vs => k ++ String.join (vs.map fun x => " " ++ showView x)
              | none => k ++ " OOB"
            | none => "-"
          else "-"
        | none => "-"
      (s, s!"access {slot.last.length}" ++ String.join (items.map fun x => " | " ++ x))
    | _ => (s, "bad-op")
  | "fld" :: cls :: bg :: rest =>
    match Layout.all.find? (·.name == cls), (if bg == "default" then (Layout.all.find? (·.name == cls)).bind (fun c => ofHexChars c.dflt.toList) else parseBytes bg) with
    | some c, some b =>
      if b.length < c.size then (s, "bad-op")
      else
        let rec go (b : Bytes) : List String → Option Bytes
          | [] => some b
          | "set" :: f :: v :: more =>
            match c.find f with
            | some fld => if nat! v < 2 ^ fld.bits then go (setField fld (nat! v) b) more else none
            | none => none
          | _ => none
        match go b rest with
        | none => (s, "bad-op")
        | some b' => (s, "raw=" ++ showBytes b' ++ String.join (c.fields.map fun f => s!" {f.name}={getField f b'}"))
    | _, _ => (s, "bad-op")
  -- chkfr <min> <max> <pkt ids…> | <frame hex…> : P_C07 / P_C08 on frames produced by the implementation
  | "chkfr" :: mn :: mx :: rest =>
    let (ids, frames) := splitAt "|" rest
    let c : Ctx := ⟨nat! mn, nat! mx⟩
    let batch := ids.map (lookup s.pkts)
    match (frames.map parseBytes).foldr (fun o acc => match o, acc with | some b, some l => some (b :: l) | _, _ => none) (some []) with
    | none => (s, "bad-op")
    | some fb =>
      match tileFrames fb with
      | none => (s, "chk C07=false C08=false tiling-failed")
      | some fs =>
        let dom7 := batch.all fun p => p.payload.isSome && decide (p.data.length < 65536)
        let dom8 := dom7 && batch.all fun p => decide (1 ≤ p.data.length)
        let r7 := if dom7 then toString (P_C07 c (batch.map Packet.data) fs) else "na"
        let r8 := if dom8 then toString (P_C08 c (batch.map fun p => (p.mt, p.data.length)) fs) else "na"
        -- C09: every frame announces the message type of the messages it carries
        let r9 := if dom7 then toString ((fs.flatMap fun f => f.msgs.map fun _ => f.mt) == pieceMts c.cap (batch.map fun p => (p.mt, p.data.length))) else "na"
        (s, s!"chk C07={r7} C08={r8} C09={r9}")
  -- chkrt <dev> <stream> <pkt ids…> | <packet views…> : P_C01 on packets decoded by the implementation
  | "chkrt" :: dev :: stream :: rest =>
    let (ids, views) := splitAt "|" rest
    let batch := ids.map (lookup s.pkts)
    match (views.map parsePacketView).foldr (fun o acc => match o, acc with | some b, some l => some (b :: l) | _, _ => none) (some []) with
    | none => (s, "chk C01=false unparsable")
    | some dec =>
      let vers := batch.map (·.version)
      let dom := batch.all (fun p => p.wf) && !batch.isEmpty && vers.all (· == vers.headD 0)
      (s, if dom then s!"chk C01={P_C01 (nat! dev) (nat! stream) batch dec}" else "chk C01=na")
  | "bld" :: k :: prior :: args =>
    let hdr : Nat := if k == "can" || k == "canfd" || k == "analog" then 16 else if k == "lin" then 8 else if k == "eth" then 6
                     else if k == "cm" then 26 else if k == "if" then 36 else 0
    let dflt : Bytes := if k == "can" || k == "canfd" then canDefault else if k == "lin" then linDefault else if k == "eth" then ethDefault
                        else if k == "analog" then analogDefault else if k == "cm" then cmDefault else ifDefault
    let ty : Nat := if k == "can" then tyCan else if k == "canfd" then tyCanFd else if k == "lin" then tyLin else if k == "eth" then tyEth
                    else if k == "analog" then tyAnalog else if k == "cm" then tyCm else tyIf
    let maxLen : Nat := if k == "can" || k == "canfd" || k == "lin" then 255 else 65535
    match (if prior == "default" then some dflt else parseBytes prior),
          (args.map parseBytes).foldr (fun o acc => match o, acc with | some b, some l => some (b :: l) | _, _ => none) (some []) with
    | some b0, some as =>
      if hdr = 0 || b0.length < hdr || as.isEmpty then (s, "bad-op")
      else
        let rec goB (b : Bytes) : List Bytes → Option Bytes
          | [] => some b
          | l =>
            if k == "cm" then
              match l with
              | a :: b2 :: c :: d :: v :: rest => goB (cmSetData b a b2 c d v) rest
              | _ => none
            else if k == "if" then
              match l with
              | ids :: v :: rest => if ids.length > 65535 then none else goB (ifSetData b ids v) rest
              | _ => none
            else
              match l with
              | d :: rest =>
                if d.length > maxLen && k != "analog" then none
                else goB (if k == "can" || k == "canfd" then canSetData b d else if k == "lin" then linSetData b d
                         else if k == "eth" then ethSetData b d else analogSetData b d) rest
              | [] => some b
        match goB b0 as with
        | none => (s, "bad-op")
        | some o =>
          let valid := match kindValid k with | some v => v o | none => false
          let views := if valid then
              match (kindAccess k).bind (fun a => a o) with
              | some vs => String.join (vs.map fun x => " " ++ showView x)
              | none => " OOB"
            else ""
          let pk := if o.length < 65536 then
              let pl := create ty o
              s!" pkt={toHex (beEnc 4 pl.ty)}:{if pl.isValid then 1 else 0}"
            else ""
          (s, "raw=" ++ showBytes o ++ s!" valid={if valid then 1 else 0}" ++ views ++ pk)
    | _, _ => (s, "bad-op")
  | ["val", k, hx] =>
    match kindValid k, kindAccess k, parseBytes hx with
    | some v, some a, some b =>
      if v b then
        match a b with
        | some vs => (s, "valid=1" ++ String.join (vs.map fun x => " " ++ showView x))
        | none => (s, "valid=1 OOB")
      else (s, "valid=0")
    | _, _, _ => (s, "bad-op")
  | ["mkpkt", mt, hx] =>
    match parseBytes hx with
    | none => (s, "bad-op")
    | some b => if msgValid b then (s, showPacket (Packet.ofMsg (nat! mt % 256) b)) else (s, "invalid")
  | ["tecmp", hx] =>
    match parseBytes hx with
    | none => (s, "bad-op")
    | some b => (s, showPackets (tecmpDecode b))
  -- a packet constructed from wire bytes (typed payload object inside) and kept in the store
  | ["pk", "wire", a, mt, hx] =>
    match parseBytes hx with
    | none => (s, "bad-op")
    | some b => if msgValid b then ({ s with pkts := upsert s.pkts a (Packet.ofMsg (nat! mt % 256) b) }, "ok") else (s, "invalid")
  | _ => (s, "bad-op")

partial def loop (h : IO.FS.Stream) (out : IO.FS.Stream) (s : DState) : IO Unit := do
  let line ← h.getLine
  if line.isEmpty then return ()
  let t := line.trimAscii.toString
  if t.isEmpty || t.startsWith "#" then loop h out s
  else
    let (s', o) := stepLine s (t.splitOn " ")
    out.putStrLn o
    loop h out s'

def main : IO Unit := do
  let out ← IO.getStdout
  loop (← IO.getStdin) out {}
  out.flush
