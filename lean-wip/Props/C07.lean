/-
  C07  Every encoded frame is well-formed and within the configured size bounds.
  C08  Segmentation and aggregation follow the protocol rules.

  Domain: every batch of packets with a payload of 1..65535 bytes (C07/C08 put no condition on
  message types or versions; zero-length payloads are covered too: they emit nothing) and every
  configuration with 25 ≤ max and min ≤ max.
-/
import AsamCmp.Tile
namespace AsamCmp

/-- the packets of the domain: a payload is present and shorter than 2^16 -/
def Packet.Enc (p : Packet) : Prop := p.payload.isSome ∧ p.data.length < 65536

/-- bridging lemma: the independent tiler, run on the serialised bytes of a frame the encoder can
    build, finds exactly the frame's shape.  (Frames of an encode call hold ≥ 1 message, every
    message body has 1..65535 bytes, and the frame is not longer than 2^16 + 24.) -/
theorem tile_bytes (min : Nat) (f : EFrame)
    (hmsgs : ∀ m ∈ f.msgs, 1 ≤ m.body.length ∧ m.body.length < 65536 ∧ (m.seg = 0 ∨ m.seg = 4 ∨ m.seg = 8 ∨ m.seg = 12)) :
    tileFrame (EFrame.bytes min f) = some (EFrame.shape min f) := by
  sorry

/-- C07 on the model, for every encoder state, batch and configuration of the domain -/
theorem C07_frames_wf (e : Enc) (batch : List Packet) (c : Ctx) (hc : c.ok = true)
    (hb : ∀ p ∈ batch, p.Enc) :
    P_C07 c (batch.map Packet.data) ((e.encode batch c).2.map (EFrame.shape c.min)) = true := by
  sorry

/-- C08 on the model (payloads of at least one byte, as in the property's domain: a zero-length
    payload emits no message but may still open a frame of its own message type) -/
theorem C08_seg_rules (e : Enc) (batch : List Packet) (c : Ctx) (hc : c.ok = true)
    (hb : ∀ p ∈ batch, p.Enc ∧ 1 ≤ p.data.length) :
    P_C08 c (batch.map fun p => (p.mt, p.data.length)) ((e.encode batch c).2.map (EFrame.shape c.min)) = true := by
  sorry

/-- the same two statements on bytes: tiling the serialised frames succeeds and the predicates hold -/
theorem C07_C08_bytes (e : Enc) (batch : List Packet) (c : Ctx) (hc : c.ok = true)
    (hb : ∀ p ∈ batch, p.Enc ∧ 1 ≤ p.data.length) :
    ∃ fs, tileFrames ((e.encode batch c).2.map (EFrame.bytes c.min)) = some fs ∧
      P_C07 c (batch.map Packet.data) fs = true ∧
      P_C08 c (batch.map fun p => (p.mt, p.data.length)) fs = true := by
  sorry

/-- every byte of a serialised frame is a header byte, a message header byte, a payload byte or a
    zero pad byte, and its length is max(8 + used, min) -/
theorem frame_length (min : Nat) (f : EFrame) :
    (EFrame.bytes min f).length = max (8 + f.used) min := by
  sorry

/-- the empty batch produces no frames and leaves the counter alone -/
theorem C07_empty (e : Enc) (c : Ctx) : (e.encode [] c).2 = [] ∧ (e.encode [] c).1.seqc = e.seqc := by
  sorry

end AsamCmp
