/-
  C05  Segmented messages reassemble correctly under any interleaving.

  For any set of endpoints, each sending well-formed segmented messages (first, intermediaries,
  last, one per frame, consecutive 16-bit sequence counters including across the wrap), and any
  interleaving of their frames with each other and with traffic of other endpoints, the decoder
  delivers each message exactly once, at the moment its last segment arrives.  The delivered
  payload is the concatenation of the segments' declared payload bytes, and version, message type
  and header fields are those of the first segment.
-/
import AsamCmp.Decoder
import AsamCmp.Props.C18
namespace AsamCmp

/-- run the single-endpoint automaton over a list of frames -/
def runLocal (p : Option Pending) : List PFrame → Option Pending × List Packet
  | [] => (p, [])
  | f :: fs =>
    let r := localStep p f
    let r' := runLocal r.1 fs
    (r'.1, r.2 ++ r'.2)

/-- one segmented message as sent: header (16 bytes) and declared body of each segment -/
structure SegMsg where
  ep : Ep
  ver : Nat
  mt : Nat
  /-- counter of the frame carrying the first segment -/
  seq0 : Nat
  first : Bytes × Bytes
  middle : List (Bytes × Bytes)
  last : Bytes × Bytes

namespace SegMsg
def segs (M : SegMsg) : List (Bytes × Bytes) := M.first :: (M.middle ++ [M.last])

def WF (M : SegMsg) : Prop :=
  (∀ s ∈ M.segs, s.1.length = 16) ∧
  segTypeOf M.first.1 = 4 ∧ (∀ s ∈ M.middle, segTypeOf s.1 = 8) ∧ segTypeOf M.last.1 = 12

/-- the frames on the wire: one segment per frame, consecutive counters modulo 2^16 -/
def frames (M : SegMsg) : List PFrame :=
  (List.range M.segs.length).zip M.segs |>.map fun (i, s) =>
    { ep := M.ep, ver := M.ver, mt := M.mt, seq := (M.seq0 + i) % 65536, unseg := [], term := .seg (s.1 ++ s.2) }

def body (M : SegMsg) : Bytes := (M.segs.map (·.2)).flatten

/-- the packet the decoder must deliver: first segment's header fields with the total length,
    all declared bytes in order, the first segment's version and message type -/
def expected (M : SegMsg) : Packet :=
  tagPacket M.ep M.ver (Packet.ofMsg M.mt (writeAt M.first.1 14 (beEnc 2 M.body.length) ++ M.body))
end SegMsg

/-- the payload handed to `Packet::create` for the reassembled message is exactly the
    concatenation of the declared segment bodies -/
theorem expected_payload (M : SegMsg) (hwf : M.WF) (hlen : M.body.length ≤ 65535) :
    M.expected.payload = some (create (M.mt * 256 + byteAt M.first.1 13) M.body) := by
  sorry

/-- single endpoint: whatever was pending before, the message is delivered exactly once, at its
    last frame, and nothing stays pending -/
theorem reassemble_single (M : SegMsg) (hwf : M.WF) (hlen : M.body.length ≤ 65535) (p0 : Option Pending) :
    runLocal p0 M.frames = (none, [M.expected]) ∧
    (runLocal p0 M.frames.dropLast).2 = [] := by
  sorry

/-- a sequence of messages on one endpoint (each starts wherever the previous ended) -/
theorem reassemble_many (Ms : List SegMsg) (hwf : ∀ M ∈ Ms, M.WF ∧ M.body.length ≤ 65535)
    (p0 : Option Pending) (hne : Ms ≠ []) :
    runLocal p0 (Ms.flatMap SegMsg.frames) = (none, Ms.map SegMsg.expected) := by
  sorry

/-- C05: any interleaving.  If the frames of endpoint `e` inside an arbitrary history `fs` (other
    endpoints may send anything) are the frames of the messages `Ms`, the packets delivered for
    `e` are exactly `Ms`' packets, in order, each once -/
theorem C05_interleaved (e : Ep) (Ms : List SegMsg) (hwf : ∀ M ∈ Ms, M.WF ∧ M.body.length ≤ 65535 ∧ M.ep = e)
    (fs : List PFrame) (s : DecState)
    (hproj : fs.filter (fun f => f.ep = e) = Ms.flatMap SegMsg.frames) :
    ((runT s fs).2.filter (fun x => x.1 = e)).map (·.2) = Ms.map SegMsg.expected := by
  sorry

/-- the counter wrap is inside the quantifier: a message whose first segment has counter 65535 -/
example : ((65535 + 1) % 65536 = 0) := by decide

end AsamCmp
