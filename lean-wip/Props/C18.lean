/-
  C18  Endpoints are isolated from each other.

  For any history of frames, the packets delivered for one (device id, stream id) endpoint are
  the same, in the same order, as if only that endpoint's frames had been fed to the decoder.
  TECMP frames and buffers too short to be a frame never change what is delivered for
  capture-module endpoints.
-/
import AsamCmp.Decoder
namespace AsamCmp

/-- outputs tagged with the endpoint of the frame that produced them -/
def runT (s : DecState) : List PFrame → DecState × List (Ep × Packet)
  | [] => (s, [])
  | f :: fs =>
    let r := step s f
    let r' := runT r.1 fs
    (r'.1, r.2.map (fun p => (f.ep, p)) ++ r'.2)

theorem runT_untag (s : DecState) (fs : List PFrame) :
    (runT s fs).1 = (run s fs).1 ∧ (runT s fs).2.map (·.2) = (run s fs).2 := by
  sorry

/-- every packet a capture-module frame delivers carries that frame's endpoint -/
theorem delivered_tagged (s : DecState) (b : Bytes) :
    ∀ p ∈ (step s (parseFrame b)).2, (p.deviceId, p.streamId) = (parseFrame b).ep := by
  sorry

/-- C18 on Layer B, for arbitrary parsed frames: the outputs and the state at endpoint `e` of any
    history are those of the history projected to `e`, from any two states agreeing at `e` -/
theorem run_filter (e : Ep) : ∀ (fs : List PFrame) (s s' : DecState), s e = s' e →
    (runT s fs).2.filter (fun x => x.1 = e) = (runT s' (fs.filter (fun f => f.ep = e))).2 ∧
    (runT s fs).1 e = (runT s' (fs.filter (fun f => f.ep = e))).1 e := by
  sorry

/-- byte level: packets of endpoint `e` delivered over a history of arbitrary buffers equal the
    packets delivered for the sub-history of buffers that address `e` -/
theorem C18_isolation (tecmp : Bytes → List Packet) (e : Ep) :
    ∀ (bufs : List (Option Bytes)) (s s' : DecState), s e = s' e →
    let isE := fun (b : Option Bytes) => bufEp b = some e
    ((bufs.filter isE).foldl (fun (acc : DecState × List Packet) b =>
        let r := decodeWith tecmp acc.1 b; (r.1, acc.2 ++ r.2)) (s', [])).2 =
    (bufs.foldl (fun (acc : DecState × List Packet) b =>
        let r := decodeWith tecmp acc.1 b; (r.1, acc.2 ++ (if isE b then r.2 else []))) (s, [])).2 := by
  sorry

/-- null pointers, buffers shorter than a frame header and TECMP buffers leave the reassembly
    state untouched -/
theorem decode_foreign_state (tecmp : Bytes → List Packet) (s : DecState) (buf : Option Bytes)
    (h : bufEp buf = none) : (decodeWith tecmp s buf).1 = s := by
  sorry

/-- a capture-module frame changes the state of its own endpoint only -/
theorem decode_other_endpoint (tecmp : Bytes → List Packet) (s : DecState) (buf : Option Bytes) (e : Ep)
    (h : bufEp buf ≠ some e) : (decodeWith tecmp s buf).1 e = s e := by
  sorry

end AsamCmp
