/-
  C17  Decoder keeps reassembly state only for messages still in progress.

  After any history of frames the decoder holds pending reassembly data for exactly those
  endpoints whose most recent frame opened or continued a still-incomplete segmented message;
  completing, aborting or superseding a message releases its buffer.  Pending bytes never exceed
  the segment bytes received for the open messages, so traffic without open messages leaves the
  decoder's memory at its baseline however long it runs.
-/
import AsamCmp.Decoder
import AsamCmp.Props.C18
namespace AsamCmp

/-- a segment terminator carries at least a message header (true of everything `parseFrame` yields) -/
def PFrame.WF (f : PFrame) : Prop :=
  match f.term with
  | .seg m => 16 ≤ m.length
  | _ => True

theorem parseFrame_WF (b : Bytes) : (parseFrame b).WF := by
  sorry

/-- Specification automaton, independent of buffers: the descriptor of the message in progress on
    one endpoint — (version, message type, counter of its latest segment) — or `none`.
    A first segment opens; an intermediary segment that arrives alone in its frame with the same
    version and type and the successor counter continues; everything else (unsegmented or invalid
    message, last segment, mismatch, header-only frame) closes. -/
def openSpec (o : Option (Nat × Nat × Nat)) (f : PFrame) : Option (Nat × Nat × Nat) :=
  match f.term with
  | .seg m =>
    if segTypeOf m = 4 then some (f.ver, f.mt, f.seq)
    else if segTypeOf m = 8 ∧ f.unseg.isEmpty then
      match o with
      | some (v, t, q) => if v = f.ver ∧ t = f.mt ∧ f.seq = (q + 1) % 65536 then some (v, t, f.seq) else none
      | none => none
    else none
  | _ => none

def openAfter (fs : List PFrame) : Option (Nat × Nat × Nat) := fs.foldl openSpec none

/-- bytes of the message in progress: segment bytes received since its first segment -/
def openBytesStep (acc : Nat) (f : PFrame) : Nat :=
  match f.term with
  | .seg m => if segTypeOf m = 4 then m.length - 16 else acc + (m.length - 16)
  | _ => 0

def openBytes (fs : List PFrame) : Nat := fs.foldl openBytesStep 0

def Pending.descr (p : Pending) : Nat × Nat × Nat := (p.ver, p.mt, p.seq)

/-- stored reassemblies always come from a first or an intermediary segment -/
def PendingOk (p : Option Pending) : Prop :=
  match p with
  | none => True
  | some q => (q.last = 4 ∨ q.last = 8) ∧ 16 ≤ q.buf.length

/-- one step refines the specification automaton -/
theorem localStep_refines (p : Option Pending) (f : PFrame) (hp : PendingOk p) (hf : f.WF) :
    (localStep p f).1.map Pending.descr = openSpec (p.map Pending.descr) f ∧ PendingOk (localStep p f).1 := by
  sorry

/-- C17 (which endpoints hold state): after any history from the empty decoder, endpoint `e` has a
    pending reassembly exactly when the specification automaton, run over `e`'s own frames, says a
    message is in progress — and then with that message's descriptor -/
theorem C17_pending_iff_open (fs : List PFrame) (hwf : ∀ f ∈ fs, f.WF) (e : Ep) :
    ((run DecState.empty fs).1 e).map Pending.descr = openAfter (fs.filter (fun f => f.ep = e)) := by
  sorry

/-- C17 (how much): pending bytes never exceed the 16 header bytes plus the segment bytes received
    for the open message -/
theorem C17_pending_bytes (fs : List PFrame) (hwf : ∀ f ∈ fs, f.WF) (e : Ep) :
    match (run DecState.empty fs).1 e with
    | none => True
    | some q => q.buf.length ≤ 16 + openBytes (fs.filter (fun f => f.ep = e)) := by
  sorry

/-- C17 (baseline): if no endpoint has a message in progress, the table is empty -/
theorem C17_idle_empty (fs : List PFrame) (hwf : ∀ f ∈ fs, f.WF)
    (hidle : ∀ e, openAfter (fs.filter (fun f => f.ep = e)) = none) :
    ∀ e, (run DecState.empty fs).1 e = none := by
  sorry

/-- endpoints that never sent a frame hold nothing -/
theorem C17_support (fs : List PFrame) (e : Ep) (h : ∀ f ∈ fs, f.ep ≠ e) :
    (run DecState.empty fs).1 e = none := by
  sorry

/-- a frame whose walk ends without a segment (all messages unsegmented, an invalid message, or no
    message bytes at all) always releases its endpoint's buffer, whatever was pending -/
theorem C17_release (p : Option Pending) (f : PFrame) (h : ∀ m, f.term ≠ .seg m) :
    (localStep p f).1 = none := by
  sorry

/-- completing a message releases its buffer: a last segment never leaves anything pending -/
theorem C17_last_releases (p : Option Pending) (f : PFrame) (m : Bytes) (h : f.term = .seg m)
    (hl : segTypeOf m = 12) : (localStep p f).1 = none := by
  sorry

end AsamCmp
