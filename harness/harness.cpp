// Operation-script interpreter over the real library (linked from /repo's objects).
// Reads the same line protocol as the Lean driver; one output line per operation.
// Built with -fno-access-control so that private state can be *read* (never written).
#include <algorithm>
#include <cstdint>
#include <cstdio>
#include <cstdlib>
#include <cstring>
#include <iostream>
#include <map>
#include <memory>
#include <sstream>
#include <stdexcept>
#include <iterator>
#include <string>
#include <vector>

#include <asam_cmp/analog_payload.h>
#include <asam_cmp/can_fd_payload.h>
#include <asam_cmp/can_payload.h>
#include <asam_cmp/capture_module_payload.h>
#include <asam_cmp/decoder.h>
#include <asam_cmp/encoder.h>
#include <asam_cmp/ethernet_payload.h>
#include <asam_cmp/interface_payload.h>
#include <asam_cmp/lin_payload.h>
#include <asam_cmp/packet.h>
#include <asam_cmp/status.h>
#include <asam_cmp/tecmp_can_payload.h>
#include <asam_cmp/tecmp_capture_module_payload.h>
#include <asam_cmp/tecmp_decoder.h>
#include <asam_cmp/tecmp_header.h>
#include <asam_cmp/tecmp_interface_payload.h>
#include <asam_cmp/tecmp_lin_payload.h>

using namespace ASAM::CMP;
using Bytes = std::vector<uint8_t>;

static std::string toHex(const uint8_t* d, size_t n)
{
    static const char* digits = "0123456789abcdef";
    std::string s;
    s.reserve(2 * n);
    for (size_t i = 0; i < n; ++i)
    {
        s.push_back(digits[d[i] >> 4]);
        s.push_back(digits[d[i] & 15]);
    }
    return s;
}
static std::string showBytes(const uint8_t* d, size_t n)
{
    return n ? toHex(d, n) : std::string("-");
}
static std::string showBytes(const Bytes& b)
{
    return showBytes(b.data(), b.size());
}
static int hexVal(char c)
{
    if (c >= '0' && c <= '9') return c - '0';
    if (c >= 'a' && c <= 'f') return c - 'a' + 10;
    if (c >= 'A' && c <= 'F') return c - 'A' + 10;
    return -1;
}
static std::vector<std::string> split(const std::string& s, char sep)
{
    std::vector<std::string> out;
    std::string cur;
    for (char c : s)
    {
        if (c == sep) { out.push_back(cur); cur.clear(); }
        else cur.push_back(c);
    }
    out.push_back(cur);
    return out;
}
static unsigned long long nat(const std::string& s)
{
    return std::strtoull(s.c_str(), nullptr, 10);
}
static bool parseBytes(const std::string& s, Bytes& out)
{
    out.clear();
    if (s == "-") return true;
    if (s.rfind("gen:", 0) == 0)
    {
        auto p = split(s, ':');
        if (p.size() != 3) return false;
        size_t len = nat(p[1]), seed = nat(p[2]);
        out.resize(len);
        for (size_t i = 0; i < len; ++i) out[i] = static_cast<uint8_t>((seed + 7 * i + 13 * (i >> 8)) & 0xFF);
        return true;
    }
    if (s.size() % 2) return false;
    out.reserve(s.size() / 2);
    for (size_t i = 0; i < s.size(); i += 2)
    {
        int a = hexVal(s[i]), b = hexVal(s[i + 1]);
        if (a < 0 || b < 0) return false;
        out.push_back(static_cast<uint8_t>(a * 16 + b));
    }
    return true;
}

// exact-size heap copy, so that one byte past the end is poisoned under ASan
struct HeapBuf
{
    uint8_t* p;
    size_t n;
    explicit HeapBuf(const Bytes& b) : p(new uint8_t[b.size()]), n(b.size()) { if (n) memcpy(p, b.data(), n); }
    ~HeapBuf() { delete[] p; }
    HeapBuf(const HeapBuf&) = delete;
};

static std::string hex32(uint32_t v)
{
    uint8_t b[4] = {uint8_t(v >> 24), uint8_t(v >> 16), uint8_t(v >> 8), uint8_t(v)};
    return toHex(b, 4);
}

static std::string showPacket(const Packet& p)
{
    std::ostringstream o;
    const Payload* pl = p.payload.get();
    if (!pl)
        o << "nopayload";
    else
        o << hex32(pl->getType().getType());
    o << ":" << unsigned(p.getVersion()) << ":" << p.getDeviceId() << ":" << unsigned(p.getStreamId()) << ":" << p.getSequenceCounter()
      << ":" << (unsigned long long) p.getTimestamp() << ":" << p.getInterfaceId() << ":" << p.getVendorId() << ":"
      << unsigned(p.getCommonFlags()) << ":" << unsigned(static_cast<uint8_t>(p.getSegmentType()));
    if (pl)
        o << ":" << (pl->isValid() ? 1 : 0) << ":" << pl->getLength() << ":" << showBytes(pl->getRawPayload(), pl->getLength());
    return o.str();
}
static std::string showPackets(const std::vector<std::shared_ptr<Packet>>& ps)
{
    std::ostringstream o;
    o << "pk " << ps.size();
    for (auto& p : ps)
        o << " " << (p ? showPacket(*p) : std::string("NULLPACKET"));
    return o.str();
}

struct EncSlot
{
    Encoder enc;
    std::vector<Bytes> frames;
};
struct DecSlot
{
    std::unique_ptr<Decoder> dec{new Decoder};
    std::vector<std::shared_ptr<Packet>> last;
};

struct State
{
    std::map<std::string, Packet> pkts;
    std::map<std::string, EncSlot> encs;
    std::map<std::string, DecSlot> decs;
    std::map<std::string, Status> stats;
    std::map<std::string, std::unique_ptr<Payload>> pls;
    std::map<std::string, std::unique_ptr<TECMP::Payload>> tpls;
};

static std::vector<std::shared_ptr<Packet>> decodeBuf(DecSlot& d, const Bytes& b)
{
    std::vector<std::shared_ptr<Packet>> r;
    {
        HeapBuf hb(b);
        r = d.dec->decode(hb.p, hb.n);
    }  // input buffer released (and poisoned) before anything is read back
    return r;
}

static std::string showPending(DecSlot& d)
{
    std::vector<std::tuple<unsigned, unsigned, size_t>> l;
    for (auto& kv : d.dec->segmentedPackets)
        l.emplace_back(kv.first.deviceId, kv.first.streamId, kv.second.payload.size());
    std::sort(l.begin(), l.end());
    std::ostringstream o;
    o << "pending " << l.size();
    for (auto& t : l)
        o << " " << std::get<0>(t) << ":" << std::get<1>(t) << ":" << std::get<2>(t);
    return o.str();
}

static Bytes corrupt(Bytes b, const std::vector<std::string>& parts)
{
    for (size_t i = 1; i < parts.size(); ++i)
    {
        const auto& m = parts[i];
        if (m.empty()) continue;
        if (m[0] == 'v' && b.size() > 0) b[0] = static_cast<uint8_t>(nat(m.substr(1)));
        else if (m[0] == 't' && b.size() > 4) b[4] = static_cast<uint8_t>(nat(m.substr(1)));
    }
    return b;
}

// a forward iterator over packets that throws when the k-th packet is dereferenced: an encode call that is left by an exception
struct ThrowingIt
{
    using iterator_category = std::forward_iterator_tag;
    using value_type = Packet;
    using difference_type = std::ptrdiff_t;
    using pointer = const Packet*;
    using reference = const Packet&;
    const std::vector<Packet>* v;
    size_t i;
    size_t k;
    reference operator*() const
    {
        if (i >= k) throw std::runtime_error("source iterator failed");
        return (*v)[i];
    }
    ThrowingIt& operator++() { ++i; return *this; }
    ThrowingIt operator++(int) { auto t = *this; ++i; return t; }
    bool operator==(const ThrowingIt& o) const { return i == o.i; }
    bool operator!=(const ThrowingIt& o) const { return i != o.i; }
};

#include "ops_extra.inc"

static std::string stepLine(State& s, const std::vector<std::string>& w)
{
    if (w.size() == 2 && w[0] == "case")
    {
        s = State{};
        return "case";
    }
    {
        std::string extra;
        if (stepExtra(s, w, extra)) return extra;
    }
    if (w[0] == "pkt" && w.size() == 13)
    {
        Bytes d;
        if (!parseBytes(w[12], d)) return "bad-op";
        Bytes tb;
        if (w[2] != "none" && (!parseBytes(w[2], tb) || tb.empty() || tb.size() > 4)) return "bad-op";
        // constructed IN PLACE and filled through the setters: no copy, move or assignment of the library's value types is involved in
        // defining a packet — those are exercised (and judged) by the `pk` operations only
        s.pkts.erase(w[1]);
        Packet& p = s.pkts.emplace(std::piecewise_construct, std::forward_as_tuple(w[1]), std::forward_as_tuple()).first->second;
        p.setVersion(static_cast<uint8_t>(nat(w[3])));
        p.setDeviceId(static_cast<uint16_t>(nat(w[4])));
        p.setStreamId(static_cast<uint8_t>(nat(w[5])));
        p.setSequenceCounter(static_cast<uint16_t>(nat(w[6])));
        p.setTimestamp(nat(w[7]));
        p.setInterfaceId(static_cast<uint32_t>(nat(w[8])));
        p.setVendorId(static_cast<uint16_t>(nat(w[9])));
        p.setCommonFlags(static_cast<uint8_t>(nat(w[10])));
        p.setSegmentType(static_cast<MessageHeader::SegmentType>(nat(w[11])));
        if (w[2] != "none")
        {
            uint32_t ty = 0;
            for (auto x : tb) ty = (ty << 8) | x;
            HeapBuf hb(d);
            Payload pl(PayloadType(ty), hb.p, hb.n);
            p.setPayload(pl);
        }
        return "ok";
    }
    if (w[0] == "enc" && w.size() >= 3)
    {
        auto& slot = s.encs[w[1]];
        if (w[2] == "dev" && w.size() == 4) { slot.enc.setDeviceId(static_cast<uint16_t>(nat(w[3]))); return "ok"; }
        if (w[2] == "stream" && w.size() == 4) { slot.enc.setStreamId(static_cast<uint8_t>(nat(w[3]))); return "ok"; }
        if (w[2] == "restart" && w.size() == 3) { slot.enc.restart(); return "ok"; }
        if (w[2] == "seq" && w.size() == 3) return "seq " + std::to_string(slot.enc.getSequenceCounter());
        if (w[2] == "ids" && w.size() == 3) return "ids " + std::to_string(slot.enc.getDeviceId()) + " " + std::to_string(unsigned(slot.enc.getStreamId()));
        if (w[2] == "encodethrow" && w.size() >= 6)
        {
            DataContext ctx{static_cast<size_t>(nat(w[3])), static_cast<size_t>(nat(w[4]))};
            if (!(ctx.maxBytesPerMessage >= 25 && ctx.minBytesPerMessage <= ctx.maxBytesPerMessage)) return "bad-ctx";
            std::vector<Packet> batch;
            for (size_t i = 6; i < w.size(); ++i)
            {
                auto it = s.pkts.find(w[i]);
                if (it == s.pkts.end() || !it->second.payload) return "bad-batch";
                batch.push_back(it->second);
            }
            const size_t k = nat(w[5]);
            if (k >= batch.size()) return "bad-batch";
            try
            {
                slot.enc.encode(ThrowingIt{&batch, 0, k}, ThrowingIt{&batch, batch.size(), k}, ctx);
                return "no-throw";
            }
            catch (const std::runtime_error&)
            {
                return "threw";
            }
        }
        // `encodell`: the same call on the real encoder; the driver answers it with the low-level model (EncoderLL.lean)
        if ((w[2] == "encode" || w[2] == "encodep" || w[2] == "encode1" || w[2] == "encodell" || w[2] == "encodeacc") && w.size() >= 5)
        {
            DataContext ctx{static_cast<size_t>(nat(w[3])), static_cast<size_t>(nat(w[4]))};
            // a maximum below 25 is outside the library's precondition (no frame can hold a message).  A MINIMUM ABOVE THE MAXIMUM is not: the
            // library accepts it and pads every frame to the minimum; the plain encode operations pass it on (C10 quantifies over arbitrary
            // configurations), the operations answered by the low-level / accumulating models keep the domain those models are proved on
            const bool plain = (w[2] == "encode" || w[2] == "encodep" || w[2] == "encode1");
            if (!(ctx.maxBytesPerMessage >= 25 && (plain || ctx.minBytesPerMessage <= ctx.maxBytesPerMessage))) return "bad-ctx";
            std::vector<Packet> batch;
            for (size_t i = 5; i < w.size(); ++i)
            {
                auto it = s.pkts.find(w[i]);
                if (it == s.pkts.end() || !it->second.payload) return "bad-batch";
                batch.push_back(it->second);
            }
            if (w[2] == "encodep")
            {
                // the overload taking iterators over shared_ptr<Packet>
                std::vector<std::shared_ptr<Packet>> ptrs;
                for (auto& p : batch) ptrs.push_back(std::make_shared<Packet>(p));
                slot.frames = slot.enc.encode(ptrs.begin(), ptrs.end(), ctx);
            }
            else if (w[2] == "encode1")
            {
                // the single-packet overload
                if (batch.size() != 1) return "bad-batch";
                slot.frames = slot.enc.encode(batch[0], ctx);
            }
            else if (w[2] == "encodeacc")
            {
                // the frames of this call are appended to those of the earlier calls (one encoder stream over several calls)
                auto fr = slot.enc.encode(batch.begin(), batch.end(), ctx);
                std::ostringstream o;
                o << "frames " << fr.size();
                for (auto& f : fr) o << " " << toHex(f.data(), f.size());
                slot.frames.insert(slot.frames.end(), fr.begin(), fr.end());
                return o.str();
            }
            else
                slot.frames = slot.enc.encode(batch.begin(), batch.end(), ctx);
            std::ostringstream o;
            o << "frames " << slot.frames.size();
            for (auto& f : slot.frames) o << " " << toHex(f.data(), f.size());
            return o.str();
        }
        return "bad-op";
    }
    if (w[0] == "dec" && w.size() >= 3)
    {
        auto& slot = s.decs[w[1]];
        if ((w[2] == "feed" || w[2] == "feedll") && w.size() == 4)  // feedll: same real decoder; the driver answers from the low-level model
        {
            Bytes b;
            if (!parseBytes(w[3], b)) return "bad-op";
            slot.last = decodeBuf(slot, b);
            return showPackets(slot.last);
        }
        if (w[2] == "feedhuge" && w.size() == 5)
        {
            // a buffer of N bytes (N may exceed 2^31): the given bytes followed by zeros; the given bytes end in a segmented message whose
            // declared payload lies inside them, so decoding stops there and only touches the front of the buffer
            Bytes b;
            if (!parseBytes(w[4], b)) return "bad-op";
            const size_t n = static_cast<size_t>(std::stoull(w[3]));
            if (n < b.size()) return "bad-op";
            uint8_t* p = static_cast<uint8_t*>(calloc(n, 1));
            if (!p) return "bad-op";
            if (!b.empty()) memcpy(p, b.data(), b.size());
            slot.last = slot.dec->decode(p, n);
            free(p);
            return showPackets(slot.last);
        }
        if (w[2] == "null" && w.size() == 3)
        {
            slot.last = slot.dec->decode(nullptr, 0);
            return showPackets(slot.last);
        }
        if (w[2] == "feedlast" && w.size() == 4)
        {
            std::vector<std::shared_ptr<Packet>> all;
            for (auto& f : s.encs[w[3]].frames)
            {
                auto r = decodeBuf(slot, f);
                all.insert(all.end(), r.begin(), r.end());
            }
            slot.last = all;
            return showPackets(all);
        }
        if (w[2] == "feedsel" && w.size() >= 4)
        {
            auto& frames = s.encs[w[3]].frames;
            std::string out = "sel ";
            bool first = true;
            for (size_t i = 4; i < w.size(); ++i)
            {
                auto parts = split(w[i], ':');
                size_t idx = nat(parts[0]);
                if (idx >= frames.size()) continue;
                auto r = decodeBuf(slot, corrupt(frames[idx], parts));
                if (!first) out += " | ";
                first = false;
                out += showPackets(r);
            }
            return out;
        }
        if ((w[2] == "pending" || w[2] == "pendingll") && w.size() == 3) return showPending(slot);
        if (w[2] == "reprint" && w.size() == 3) return showPackets(slot.last);
        if (w[2] == "destroy" && w.size() == 3)
        {
            slot.dec.reset(new Decoder);
            return "ok";
        }
        if (w[2] == "copyfrom" && w.size() == 4)
        {
            // a Decoder is a value: the copy owns its own table of open reassemblies (Decoder's implicit copy constructor)
            if (!s.decs.count(w[3])) return "bad-op";
            std::unique_ptr<Decoder> c(new Decoder(*s.decs[w[3]].dec));
            slot.dec = std::move(c);
            return "ok";
        }
        return "bad-op";
    }
    return "bad-op";
}

// painted before every operation so that an uninitialised local or struct member takes the pattern (C20)
static int g_stackFill = -1;
__attribute__((noinline)) static void paintStack(int pattern)
{
    volatile unsigned char area[48 * 1024];
    for (size_t i = 0; i < sizeof(area); ++i) area[i] = static_cast<unsigned char>(pattern);
}

#include <thread>
// --threads N: the cases of the script are distributed over N threads, each with its own State (its own
// Encoder / Decoder / Status objects); outputs are printed in script order after all threads joined (C19)
static int runThreaded(int n, bool all = false)
{
    std::vector<std::vector<std::vector<std::string>>> cases;   // case -> op -> words
    std::string line;
    while (std::getline(std::cin, line))
    {
        while (!line.empty() && (line.back() == '\r' || line.back() == ' ')) line.pop_back();
        if (line.empty() || line[0] == '#') continue;
        auto w = split(line, ' ');
        if (w[0] == "case" || cases.empty()) cases.emplace_back();
        cases.back().push_back(w);
    }
    if (all)
    {
        // every thread runs EVERY case on its own objects: each code path of the library is executed by all threads, so any shared
        // mutable static is touched by several threads without synchronisation (what ThreadSanitizer needs to see)
        std::vector<std::vector<std::vector<std::string>>> outsT(n, std::vector<std::vector<std::string>>(cases.size()));
        std::vector<std::thread> ts;
        for (int t = 0; t < n; ++t)
        {
            ts.emplace_back([&, t]() {
                State s;
                for (size_t k = 0; k < cases.size(); ++k)
                {
                    size_t c = (k + t * (cases.size() / n + 1)) % cases.size();   // staggered start
                    for (auto& w : cases[c]) outsT[t][c].push_back(stepLine(s, w));
                }
            });
        }
        for (auto& t : ts) t.join();
        int bad = 0;
        for (int t = 1; t < n; ++t)
            if (outsT[t] != outsT[0]) ++bad;
        for (auto& o : outsT[0])
            for (auto& l : o) std::cout << l << "\n";
        std::cout << std::flush;
        if (bad) { std::cerr << "THREAD-MISMATCH " << bad << " thread(s) differ from thread 0\n"; return 3; }
        return 0;
    }
    std::vector<std::vector<std::string>> outs(cases.size());
    std::vector<std::thread> ts;
    for (int t = 0; t < n; ++t)
    {
        ts.emplace_back([&, t]() {
            State s;
            for (size_t c = t; c < cases.size(); c += n)
                for (auto& w : cases[c]) outs[c].push_back(stepLine(s, w));
        });
    }
    for (auto& t : ts) t.join();
    for (auto& o : outs)
        for (auto& l : o) std::cout << l << "\n";
    std::cout << std::flush;
    return 0;
}

int main(int argc, char** argv)
{
    std::ios::sync_with_stdio(false);
    if (argc == 3 && std::string(argv[1]) == "--threads") return runThreaded(std::atoi(argv[2]));
    if (argc == 4 && std::string(argv[1]) == "--threads" && std::string(argv[3]) == "--all") return runThreaded(std::atoi(argv[2]), true);
    if (const char* f = std::getenv("VERIF_STACK_FILL")) g_stackFill = std::atoi(f);
    State s;
    std::string line;
    while (std::getline(std::cin, line))
    {
        while (!line.empty() && (line.back() == '\r' || line.back() == ' ')) line.pop_back();
        size_t st = 0;
        while (st < line.size() && line[st] == ' ') ++st;
        line = line.substr(st);
        if (line.empty() || line[0] == '#') continue;
        auto w = split(line, ' ');
        if (g_stackFill >= 0) paintStack(g_stackFill);
        std::string o = stepLine(s, w);
        std::cout << o << "\n" << std::flush;
    }
    return 0;
}
