// Reflective dumper: writes lean/AsamCmp/Generated.lean from /repo's current headers and objects.
// Compiled with -fno-access-control so that private members, masks and encodeDlc are reachable.
#include <cstddef>
#include <cstdio>
#include <cstring>
#include <string>

#include <asam_cmp/analog_payload.h>
#include <asam_cmp/can_fd_payload.h>
#include <asam_cmp/can_payload.h>
#include <asam_cmp/capture_module_payload.h>
#include <asam_cmp/cmp_header.h>
#include <asam_cmp/decoder.h>
#include <asam_cmp/ethernet_payload.h>
#include <asam_cmp/interface_payload.h>
#include <asam_cmp/lin_payload.h>
#include <asam_cmp/message_header.h>
#include <asam_cmp/packet.h>
#include <asam_cmp/payload_type.h>
#include <asam_cmp/tecmp_can_payload.h>
#include <asam_cmp/tecmp_capture_module_payload.h>
#include <asam_cmp/tecmp_header.h>
#include <asam_cmp/tecmp_interface_payload.h>
#include <asam_cmp/tecmp_lin_payload.h>

using namespace ASAM::CMP;

static bool firstItem;
static void open(const char* name, const char* type) { printf("def %s : List (%s) := [", name, type); firstItem = true; }
static void item(const std::string& k, unsigned long long v) { printf("%s\n  (\"%s\", %llu)", firstItem ? "" : ",", k.c_str(), v); firstItem = false; }
static void close() { printf("]\n\n"); }

// a raw (little-endian host) mask constant as the mask it is on the big-endian field value
static unsigned long long be16(uint16_t m) { return swapEndian(m); }
static unsigned long long be32(uint32_t m) { return swapEndian(m); }

static void item2(const std::string& c, const std::string& f, unsigned long long v) { printf("%s\n  (\"%s\", \"%s\", %llu)", firstItem ? "" : ",", c.c_str(), f.c_str(), v); firstItem = false; }
#define OFF(cls, T, m) item2(cls, #m, offsetof(T, m))

int main()
{
    printf("/-\n  GENERATED on every run by harness/dumper.cpp from /repo's current headers - do not edit.\n-/\nnamespace AsamCmp.Generated\n\n");
    open("sizes", "String × Nat");
    item("cmphdr", sizeof(CmpHeader));
    item("msghdr", sizeof(MessageHeader));
    item("can", sizeof(CanPayloadBase::Header));
    item("canfd", sizeof(CanPayloadBase::Header));
    item("lin", sizeof(LinPayload::Header));
    item("eth", sizeof(EthernetPayload::Header));
    item("analog", sizeof(AnalogPayload::Header));
    item("cm", sizeof(CaptureModulePayload::Header));
    item("if", sizeof(InterfacePayload::Header));
    item("tecmphdr", sizeof(TECMP::CmpHeader));
    item("tecmpcan", sizeof(TECMP::CanPayload::Header));
    item("tecmplin", sizeof(TECMP::LinPayload::Header));
    item("tecmpif", sizeof(TECMP::InterfacePayload::Header));
    item("tecmpcm", sizeof(TECMP::CaptureModulePayload::Header));
    close();

    open("offsets", "String × String × Nat");
    OFF("cmphdr", CmpHeader, version); OFF("cmphdr", CmpHeader, deviceId); OFF("cmphdr", CmpHeader, messageType); OFF("cmphdr", CmpHeader, streamId);
    OFF("cmphdr", CmpHeader, sequenceCounter);
    OFF("msghdr", MessageHeader, timestamp); OFF("msghdr", MessageHeader, interfaceId); OFF("msghdr", MessageHeader, commonFlags);
    OFF("msghdr", MessageHeader, payloadType); OFF("msghdr", MessageHeader, payloadLength);
    item2("msghdr", "vendorId", offsetof(MessageHeader, vendor) + offsetof(MessageHeader::Vendor, vendorId));
    OFF("can", CanPayloadBase::Header, flags); OFF("can", CanPayloadBase::Header, id); OFF("can", CanPayloadBase::Header, crc);
    OFF("can", CanPayloadBase::Header, errorPosition); OFF("can", CanPayloadBase::Header, dlc); OFF("can", CanPayloadBase::Header, dataLength);
    OFF("lin", LinPayload::Header, flags); item2("lin", "linId", offsetof(LinPayload::Header, pid)); OFF("lin", LinPayload::Header, checksum);
    OFF("lin", LinPayload::Header, dataLength);
    OFF("eth", EthernetPayload::Header, flags); OFF("eth", EthernetPayload::Header, dataLength);
    OFF("analog", AnalogPayload::Header, flags); OFF("analog", AnalogPayload::Header, unit); OFF("analog", AnalogPayload::Header, sampleInterval);
    OFF("analog", AnalogPayload::Header, sampleOffset); OFF("analog", AnalogPayload::Header, sampleScalar);
    OFF("cm", CaptureModulePayload::Header, uptime); OFF("cm", CaptureModulePayload::Header, gmIdentity); OFF("cm", CaptureModulePayload::Header, gmClockQuality);
    OFF("cm", CaptureModulePayload::Header, currentUtcOffset); OFF("cm", CaptureModulePayload::Header, timeSource);
    OFF("cm", CaptureModulePayload::Header, domainNumber); item2("cm", "gptpFlags", offsetof(CaptureModulePayload::Header, gPtpFlags));
    OFF("if", InterfacePayload::Header, interfaceId); OFF("if", InterfacePayload::Header, msgTotalRx); OFF("if", InterfacePayload::Header, msgTotalTx);
    OFF("if", InterfacePayload::Header, msgDroppedRx); OFF("if", InterfacePayload::Header, msgDroppedTx); OFF("if", InterfacePayload::Header, errorsTotalRx);
    OFF("if", InterfacePayload::Header, errorsTotalTx); OFF("if", InterfacePayload::Header, interfaceType); OFF("if", InterfacePayload::Header, interfaceStatus);
    OFF("if", InterfacePayload::Header, featureSupportBitmask);
    OFF("tecmphdr", TECMP::CmpHeader, deviceId); OFF("tecmphdr", TECMP::CmpHeader, sequenceCounter); OFF("tecmphdr", TECMP::CmpHeader, version);
    OFF("tecmphdr", TECMP::CmpHeader, messageType); OFF("tecmphdr", TECMP::CmpHeader, dataType); OFF("tecmphdr", TECMP::CmpHeader, deviceFlags);
    OFF("tecmphdr", TECMP::CmpHeader, interfaceId); OFF("tecmphdr", TECMP::CmpHeader, timestamp); OFF("tecmphdr", TECMP::CmpHeader, payloadLength);
    OFF("tecmpcan", TECMP::CanPayload::Header, arbId); OFF("tecmpcan", TECMP::CanPayload::Header, dlc);
    OFF("tecmplin", TECMP::LinPayload::Header, pid); OFF("tecmplin", TECMP::LinPayload::Header, dataLength);
    OFF("tecmpif", TECMP::InterfacePayload::Header, vendorId); OFF("tecmpif", TECMP::InterfacePayload::Header, cmVersion);
    OFF("tecmpif", TECMP::InterfacePayload::Header, cmType); OFF("tecmpif", TECMP::InterfacePayload::Header, vendorDataLength);
    OFF("tecmpif", TECMP::InterfacePayload::Header, deviceId); OFF("tecmpif", TECMP::InterfacePayload::Header, serialNumber);
    item2("tecmpif", "interfaceId", offsetof(TECMP::InterfacePayload::Header, busData));
    item2("tecmpif", "messagesTotal", offsetof(TECMP::InterfacePayload::Header, busData) + 4);
    item2("tecmpif", "errorsTotal", offsetof(TECMP::InterfacePayload::Header, busData) + 8);
    item2("tecmpif", "vendorDataLinkStatus", offsetof(TECMP::InterfacePayload::Header, vendorData));
    OFF("tecmpcm", TECMP::CaptureModulePayload::Header, vendorId); OFF("tecmpcm", TECMP::CaptureModulePayload::Header, deviceVersion);
    OFF("tecmpcm", TECMP::CaptureModulePayload::Header, deviceType); OFF("tecmpcm", TECMP::CaptureModulePayload::Header, vendorDataLength);
    OFF("tecmpcm", TECMP::CaptureModulePayload::Header, deviceId); OFF("tecmpcm", TECMP::CaptureModulePayload::Header, serialNumber);
    item2("tecmpcm", "swVersionMajor", offsetof(TECMP::CaptureModulePayload::Header, vendorData) + 1);
    item2("tecmpcm", "bufferSize", offsetof(TECMP::CaptureModulePayload::Header, vendorData) + 8);
    item2("tecmpcm", "lifecycle", offsetof(TECMP::CaptureModulePayload::Header, vendorData) + 12);
    close();

    // mask constants, as masks on the big-endian field value
    open("masks", "String × Nat");
    item("can.errorMask", be16(CanPayloadBase::Header::errorMask));
    item("can.idMask", be32(CanPayloadBase::Header::idMask));
    item("can.rsvdMask", be32(CanPayloadBase::Header::rsvdMask));
    item("can.rtrMask", be32(CanPayloadBase::Header::rtrMask));
    item("can.ideMask", be32(CanPayloadBase::Header::ideMask));
    item("can.crcMask", be32(CanPayloadBase::Header::crcMask));
    item("can.crcSupportMask", be32(CanPayloadBase::Header::crcSupportMask));
    item("can.crcSbcMask", be32(CanPayloadBase::Header::crcSbcMask));
    item("can.crcSbcSbcMask", be32(CanPayloadBase::Header::crcSbcSbcMask));
    item("can.crcSbcSbcShift", CanPayloadBase::Header::crcSbcSbcShift);
    item("can.crcSbcParityMask", be32(CanPayloadBase::Header::crcSbcParityMask));
    item("can.crcSbcSupportMask", be32(CanPayloadBase::Header::crcSbcSupportMask));
    item("lin.linIdMask", LinPayload::Header::linIdMask);
    item("lin.parityMask", LinPayload::Header::parityMask);
    item("lin.parityShift", LinPayload::Header::parityShift);
    item("eth.errorMask", EthernetPayload::errorMask);
    item("analog.sampleDtMask", be16(AnalogPayload::Header::sampleDtMask));
    item("analog.aInt16", be16(static_cast<uint16_t>(AnalogPayload::SampleDt::aInt16)));
    item("analog.aInt32", be16(static_cast<uint16_t>(AnalogPayload::SampleDt::aInt32)));
    item("msghdr.seg", static_cast<uint8_t>(MessageHeader::CommonFlags::seg));
    item("msghdr.errorInPayload", static_cast<uint8_t>(MessageHeader::CommonFlags::errorInPayload));
    item("msghdr.firstSegment", static_cast<uint8_t>(MessageHeader::SegmentType::firstSegment));
    item("msghdr.intermediarySegment", static_cast<uint8_t>(MessageHeader::SegmentType::intermediarySegment));
    item("msghdr.lastSegment", static_cast<uint8_t>(MessageHeader::SegmentType::lastSegment));
    item("packet.errorInPayload", Packet::errorInPayload);
    close();

    open("enums", "String × Nat");
    item("mt.data", static_cast<uint8_t>(CmpHeader::MessageType::data));
    item("mt.control", static_cast<uint8_t>(CmpHeader::MessageType::control));
    item("mt.status", static_cast<uint8_t>(CmpHeader::MessageType::status));
    item("mt.vendor", static_cast<uint8_t>(CmpHeader::MessageType::vendor));
    item("pt.can", PayloadType::can); item("pt.canFd", PayloadType::canFd); item("pt.lin", PayloadType::lin); item("pt.analog", PayloadType::analog);
    item("pt.ethernet", PayloadType::ethernet); item("pt.cmStatMsg", PayloadType::cmStatMsg); item("pt.ifStatMsg", PayloadType::ifStatMsg);
    item("pt.invalid", PayloadType::invalid);
    item("if.disabled", static_cast<uint8_t>(InterfacePayload::InterfaceStatus::disabled));
    item("tecmp.mt.cmStatus", static_cast<uint8_t>(TECMP::CmpHeader::MessageType::cmStatus));
    item("tecmp.mt.busStatus", static_cast<uint8_t>(TECMP::CmpHeader::MessageType::busStatus));
    item("tecmp.mt.data", static_cast<uint8_t>(TECMP::CmpHeader::MessageType::data));
    item("tecmp.dt.can", static_cast<uint16_t>(TECMP::CmpHeader::DataType::can));
    item("tecmp.dt.canFd", static_cast<uint16_t>(TECMP::CmpHeader::DataType::canFd));
    item("tecmp.dt.lin", static_cast<uint16_t>(TECMP::CmpHeader::DataType::lin));
    item("cm.minPayloadSize", CaptureModulePayload::minPayloadSize);
    item("if.minPayloadSize", InterfacePayload::minPayloadSize);
    close();

    // Decoder::SegmentedPacket::isValidSegmentType for every (current, next) pair of segment types
    printf("def validNextTable : List (Nat × Nat × Bool) := [");
    {
        bool first = true;
        for (int cur : {0, 4, 8, 12})
            for (int nxt : {0, 4, 8, 12})
            {
                Decoder::SegmentedPacket sp;
                sp.segmentType = static_cast<MessageHeader::SegmentType>(cur);
                printf("%s(%d, %d, %s)", first ? "" : ", ", cur, nxt, sp.isValidSegmentType(static_cast<MessageHeader::SegmentType>(nxt)) ? "true" : "false");
                first = false;
            }
    }
    printf("]\n\n");

    // rules checked exhaustively on the real functions (the loop runs here, Lean checks that every verdict is `true`)
    open("rules", "String × Nat");
    {
        bool ok = true;
        for (uint32_t t = 0; t < 65536; ++t)
        {
            PayloadType pt(t);
            ok = ok && pt.isValid() == (((t & 0xFF) != 0) && ((t & 0xFF00) != 0)) && static_cast<uint32_t>(pt.getMessageType()) == ((t >> 8) & 0xFF) &&
                 pt.getRawPayloadType() == (t & 0xFF);
        }
        item("PayloadType: valid iff both bytes non-zero; message type = high byte, raw type = low byte (all 65536 types)", ok ? 1 : 0);
        ok = true;
        for (uint32_t v = 0; v < 65536; ++v)
            ok = ok && swapEndian(static_cast<uint16_t>(v)) == static_cast<uint16_t>(((v & 0xFF) << 8) | (v >> 8));
        item("swapEndian(uint16_t) swaps the two bytes (all 65536 values)", ok ? 1 : 0);
        ok = true;
        for (int i = 0; i < 32; ++i)
        {
            const uint32_t v = 0x01020304u * (i + 1) + (1u << i);
            const uint8_t* b = reinterpret_cast<const uint8_t*>(&v);
            const uint32_t w = swapEndian(v);
            const uint8_t* c = reinterpret_cast<const uint8_t*>(&w);
            ok = ok && b[0] == c[3] && b[1] == c[2] && b[2] == c[1] && b[3] == c[0];
            const uint64_t v8 = 0x0102030405060708ull * (i + 1) + (1ull << (2 * i));
            const uint8_t* b8 = reinterpret_cast<const uint8_t*>(&v8);
            const uint64_t w8 = swapEndian(v8);
            const uint8_t* c8 = reinterpret_cast<const uint8_t*>(&w8);
            for (int k = 0; k < 8; ++k) ok = ok && b8[k] == c8[7 - k];
        }
        item("swapEndian(uint32_t / uint64_t) reverse the bytes (64 probe values incl. every single bit)", ok ? 1 : 0);
        ok = true;
        for (uint32_t mt = 0; mt < 256; ++mt)
            for (uint32_t b6 = 0; b6 < 256; ++b6)
                for (uint32_t b7 = 0; b7 < 256; b7 += (b7 < 2 || b7 > 252) ? 1 : 37)
                {
                    uint8_t raw[28] = {0};
                    raw[5] = static_cast<uint8_t>(mt); raw[6] = static_cast<uint8_t>(b6); raw[7] = static_cast<uint8_t>(b7);
                    TECMP::CmpHeader h;
                    memcpy(static_cast<void*>(&h), raw, 28);
                    ok = ok && h.isValid() == !(mt == 0xFF || (b6 == 0xFF && b7 == 0));
                }
        item("TECMP header valid iff message type != 0xFF and data type bytes != FF 00 (256 x 256 x 12 headers)", ok ? 1 : 0);
        ok = true;
        for (uint32_t f = 0; f < 256; ++f)
        {
            uint8_t raw[16] = {0};
            raw[12] = static_cast<uint8_t>(f);
            MessageHeader h;
            memcpy(static_cast<void*>(&h), raw, 16);
            ok = ok && static_cast<uint32_t>(h.getSegmentType()) == (f & 0x0C) && h.getCommonFlag(MessageHeader::CommonFlags::errorInPayload) == ((f & 0x40) != 0);
        }
        item("message header: segment type = flags & 0x0C, error-in-payload = bit 6 (all 256 flag bytes)", ok ? 1 : 0);
    }
    close();

    // the DLC table as the real encodeDlc computes it, for all 256 data lengths
    printf("def dlcTable : List Nat := [");
    CanPayload cp;
    for (int i = 0; i < 256; ++i)
        printf("%s%u", i ? ", " : "", unsigned(cp.encodeDlc(static_cast<uint8_t>(i))));
    printf("]\n");
    return 0;
}
