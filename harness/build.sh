#!/bin/bash
# Build the library objects from /repo's working tree (ASan+UBSan) and link the harness.
# usage: build.sh <outdir>
set -e
HERE="$(cd "$(dirname "$0")" && pwd)"
OUT="$1"; REPO="${REPO:-/repo}"
mkdir -p "$OUT/obj"
FLAGS="-std=c++17 -O1 -g -fsanitize=address,undefined -fno-sanitize=vptr,alignment,nonnull-attribute -fno-sanitize-recover=all -I$REPO/include"
ls "$REPO"/src/*.cpp | xargs -P16 -I{} sh -c 'g++ '"$FLAGS"' -c {} -o '"$OUT"'/obj/$(basename {} .cpp).o'
g++ $FLAGS -fno-access-control -Wno-invalid-offsetof "$HERE/harness.cpp" "$OUT"/obj/*.o -o "$OUT/harness"
