#!/usr/bin/env python3
"""Runs the checks against every seeded change, in a scratch copy of /verif and a scratch worktree of /repo (so /repo itself and
the live /verif are never touched).  usage: run_seeded.py [--only id,...] [--all-props] [--suite]
Writes seeded/<id>/result.json: which checks fired, with which kind of verdict."""
import json
import os
import shutil
import subprocess
import sys
import time

ROOT = os.path.dirname(os.path.dirname(os.path.abspath(__file__)))
SCR = os.environ.get("VSEED_DIR", "/tmp/vseed")
ALL = ["C%02d" % i for i in range(1, 21)]


def sh(cmd, **kw):
    return subprocess.run(cmd, shell=True, stdout=subprocess.PIPE, stderr=subprocess.STDOUT, **kw)


def main():
    only = None
    if "--only" in sys.argv:
        only = sys.argv[sys.argv.index("--only") + 1].split(",")
    all_props = "--all-props" in sys.argv
    suite = "--suite" in sys.argv
    obl = "--obligations" in sys.argv      # only the proof obligations (regeneration from the changed source + lake build + axiom audit), no sampling
    os.makedirs(SCR, exist_ok=True)
    vcopy = os.path.join(SCR, "verif")
    sh("rsync -a --delete --exclude .git --exclude replays --exclude 'evidence' %s/ %s/" % (ROOT, vcopy))
    SD = sys.argv[sys.argv.index("--dir") + 1] if "--dir" in sys.argv else "seeded"      # "benign": behaviour-preserving rewrites (expected verdict: none)
    ids = sorted(os.listdir(os.path.join(ROOT, SD)))
    summary = {}
    for sid in ids:
        if only and sid not in only:
            continue
        d = os.path.join(ROOT, SD, sid)
        if not os.path.exists(os.path.join(d, "patch.diff")):
            continue
        meta = json.load(open(os.path.join(d, "meta.json")))
        wt = os.path.join(SCR, "wt")
        sh("git -C /repo worktree remove --force %s" % wt)
        shutil.rmtree(wt, ignore_errors=True)
        r = sh("git -C /repo worktree add -q --detach %s HEAD" % wt)
        r = sh("git -C %s apply %s" % (wt, os.path.join(d, "patch.diff")))
        res = {"applied": r.returncode == 0, "checks": {}}
        if r.returncode != 0:
            res["apply_error"] = r.stdout.decode()[:500]
            print(sid, "PATCH DOES NOT APPLY", res["apply_error"][:200])
        else:
            if suite:
                b = os.path.join(SCR, "build")
                shutil.rmtree(b, ignore_errors=True)
                r = sh("cmake -S %s -B %s -G Ninja -DCMAKE_BUILD_TYPE=RelWithDebInfo -DASAM_CMP_LIB_ENABLE_TESTS=ON -DFETCHCONTENT_SOURCE_DIR_GTEST=/usr/src/googletest "
                       "-DFETCHCONTENT_SOURCE_DIR_GOOGLETEST=/usr/src/googletest -DFETCHCONTENT_TRY_FIND_PACKAGE_MODE=ALWAYS -DFETCHCONTENT_FULLY_DISCONNECTED=ON "
                       "&& cmake --build %s -j16 && %s/bin/test_asam_cmp" % (wt, b, b, b))
                out = r.stdout.decode(errors="replace")
                res["suite"] = "passes" if (r.returncode == 0 and "[  PASSED  ] 293 tests." in out) else "FAILS: " + out[-400:]
                shutil.rmtree(b, ignore_errors=True)
            props = ALL if all_props else meta.get("breaks", meta.get("run", [])) + [p for p in meta.get("also_run", [])]
            if obl:
                ores = {}
                for p in props:
                    t0 = time.time()
                    env = dict(os.environ, VERIF_REPO=wt, VERIF_OBLIGATIONS_ONLY="1")
                    r = subprocess.run(["python3", "check.py", p, "--tier", "quick"], cwd=vcopy, stdout=subprocess.PIPE, stderr=subprocess.STDOUT, env=env)
                    out = r.stdout.decode(errors="replace")
                    br = [l.split(" :: ")[0].replace("BROKEN-OBLIGATION ", "") for l in out.split("\n") if l.startswith("BROKEN-OBLIGATION")]
                    ores[p] = {"broken": br, "summary": ([l for l in out.split("\n") if l.startswith("OBLIGATIONS")] or ["(no summary: %s)" % out[-200:]])[0],
                               "wall_s": round(time.time() - t0, 1)}
                json.dump(ores, open(os.path.join(d, "obligations.json"), "w"), indent=1)
                print(sid, {p: len(v["broken"]) for p, v in ores.items()}, flush=True)
                sh("git -C /repo worktree remove --force %s" % wt)
                continue
            for p in props:
                t0 = time.time()
                env = dict(os.environ, VERIF_REPO=wt)
                r = subprocess.run(["python3", "check.py", p, "--tier", "quick"], cwd=vcopy, stdout=subprocess.PIPE, stderr=subprocess.STDOUT, env=env)
                out = r.stdout.decode(errors="replace")
                viol = [l for l in out.split("\n") if l.startswith("VIOLATION")]
                kind = "none" if r.returncode == 0 else "check-crashed"
                if viol:
                    kind = "no-failing-input-found" if all("no-failing-input-found" in v for v in viol) else "failing-input"
                res["checks"][p] = {"exit": r.returncode, "verdict": kind, "wall_s": round(time.time() - t0, 1)}
                if viol and not os.path.exists(os.path.join(d, "demo.replay")) or (viol and kind == "failing-input" and p == (meta.get("breaks") or [None])[0]):
                    rp = viol[0].split("replay=")[1].split(" ")[0]
                    if os.path.exists(rp):
                        shutil.copy(rp, os.path.join(d, "demo.replay"))
            print(sid, {p: v["verdict"] for p, v in res["checks"].items()}, res.get("suite", ""))
        json.dump(res, open(os.path.join(d, "result.json"), "w"), indent=1)
        summary[sid] = res
        sh("git -C /repo worktree remove --force %s" % wt)
    shutil.rmtree(os.path.join(SCR, "wt"), ignore_errors=True)
    return 0


if __name__ == "__main__":
    sys.exit(main())
