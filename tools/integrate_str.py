#!/usr/bin/env python3
"""Integrates a theorem file proved in a scratch copy (/tmp/str/<PID>/lean) into /verif/lean and registers its theorems.
usage: integrate_str.py <scratch lean dir> <module file relative to lean/, e.g. AsamCmp/Props/C14S.lean> <property,property,...>
       [--also AsamCmp.SrcPv.getters_src,...]   (existing theorems to register under the same properties)
       [--lemmas AsamCmp/Lemmas/X.lean,...]     (further new files to copy)
Checks before copying: the scratch copy's existing files are byte-identical to /verif/lean (nothing but new files + the import line),
no forbidden token in the new files.  After copying: lake build of the module, #print axioms of every theorem (standard axioms only)."""
import json
import os
import re
import subprocess
import sys

ROOT = os.path.dirname(os.path.dirname(os.path.abspath(__file__)))
sys.path.insert(0, ROOT)
FORBID = re.compile(r"\b(sorry|admit|native_decide|bv_decide|implemented_by|unsafe)\b|^axiom |maxHeartbeats 0", re.M)


def strip_comments(t):
    t = re.sub(r"/-.*?-/", "", t, flags=re.S)
    return re.sub(r"--.*", "", t)


def main():
    src, mod, props = sys.argv[1], sys.argv[2], sys.argv[3].split(",")
    also = sys.argv[sys.argv.index("--also") + 1].split(",") if "--also" in sys.argv else []
    lemmas = sys.argv[sys.argv.index("--lemmas") + 1].split(",") if "--lemmas" in sys.argv else []
    dst = os.path.join(ROOT, "lean")
    new = [mod] + lemmas
    # 1. nothing else changed in the scratch copy
    r = subprocess.run(["diff", "-rq", "--exclude=.lake", src, dst], stdout=subprocess.PIPE).stdout.decode()
    bad = []
    for line in r.strip().split("\n"):
        if not line:
            continue
        if any(os.path.basename(n) in line for n in new) or "AsamCmp.lean differ" in line or "Driver.lean" in line and False or "_axchk" in line:
            continue
        if line.startswith("Only in " + dst):
            continue            # files added to /verif since the copy was taken
        bad.append(line)
    if bad:
        print("scratch copy differs from /verif/lean in existing files:\n  " + "\n  ".join(bad[:20]))
        if "--force" not in sys.argv:
            return 1
    for n in new:
        t = open(os.path.join(src, n)).read()
        m = FORBID.search(strip_comments(t))
        if m:
            print("forbidden token in %s: %r" % (n, m.group(0)))
            return 1
    for n in new:
        os.makedirs(os.path.dirname(os.path.join(dst, n)), exist_ok=True)
        open(os.path.join(dst, n), "w").write(open(os.path.join(src, n)).read())
    modname = mod[:-5].replace("/", ".")
    r = subprocess.run(["lake", "build", modname], cwd=dst, stdout=subprocess.PIPE, stderr=subprocess.STDOUT)
    out = r.stdout.decode()
    if r.returncode != 0 or "declaration uses 'sorry'" in out:
        print("build failed:\n" + out[-3000:])
        return 1
    # theorem names (top-level `theorem name` inside `namespace X`)
    text = open(os.path.join(dst, mod)).read()
    names, stack = [], []
    for line in strip_comments(text).split("\n"):
        m = re.match(r"^namespace (\S+)", line)
        if m:
            stack.append(m.group(1))
            continue
        m = re.match(r"^end (\S+)", line)
        if m and stack and stack[-1].split(".")[-1] == m.group(1).split(".")[-1]:
            stack.pop()
            continue
        m = re.match(r"^(?:@\[[^\]]*\]\s*)?(?:private |protected )?theorem (\S+)", line)
        if m and not line.startswith("private"):
            names.append(".".join(stack + [m.group(1)]))
    from vlib import core
    chk = "import %s\n" % modname + "\n".join("#print axioms %s" % n for n in names + also)
    rc = None
    if rc is None:
        p = os.path.join(dst, "_axchk.lean")
        from vlib import registry
        allmods = sorted(set(m for sp in registry.SPECS.values() for m in sp.lean_targets if m.startswith("AsamCmp.")) | {modname})
        open(p, "w").write("".join("import %s\n" % m for m in allmods) + "\n".join("#print axioms %s" % n for n in names + also))
        rr = subprocess.run(["lake", "env", "lean", p], cwd=dst, stdout=subprocess.PIPE, stderr=subprocess.STDOUT)
        o = rr.stdout.decode()
        os.remove(p)
    unknown = re.findall(r"Unknown constant `([^`]+)`", o)
    dropped = [u for u in unknown if u in also]
    if dropped:
        print("not registered (no such constant): " + ", ".join(dropped))
        also = [a for a in also if a not in dropped]
        o = "\n".join(l for l in o.split("\n") if not any(d in l for d in dropped))
    badax = [l for l in re.findall(r"depends on axioms: \[(.*?)\]", o, re.S) if set(x.strip() for x in l.split(",")) - {"propext", "Classical.choice", "Quot.sound"}]
    if badax or re.search(r": error|error\(", o):
        print("axiom audit problem:\n" + o[-2000:])
        return 1
    jp = os.path.join(ROOT, "vlib", "registry_extra.json")
    ex = json.load(open(jp)) if os.path.exists(jp) else {}
    for p in props:
        e = ex.setdefault(p, {"modules": [], "theorems": []})
        if modname not in e["modules"]:
            e["modules"].append(modname)
        for n in names + also:
            if n not in e["theorems"]:
                e["theorems"].append(n)
    json.dump(ex, open(jp, "w"), indent=1, sort_keys=True)
    print("integrated %s: %d theorems registered for %s (+%d existing)" % (modname, len(names), ",".join(props), len(also)))
    return 0


if __name__ == "__main__":
    sys.exit(main())
