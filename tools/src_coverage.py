#!/usr/bin/env python3
"""Which function bodies of /repo are tied to the model at SOURCE level, and how.  Reads the generated Lean files (so run a check or
`check.py setup` first) and the theorem files; prints a table per C++ class / file and rewrites the block between
<!-- SRC-COVERAGE-BEGIN/END --> in DESIGN.md.

status of a function body:
  proved      its translation (shallow, object or template mode) is mentioned by name in a theorem / lemma file, or is called
              (transitively) by a translation that is; or its bit program is an entry of a `<class>_checks` theorem or inlined into one
  translated  it has a translation that no theorem refers to (the translation exists, nothing is claimed about it)
  untranslated  listed with the reason in one of the generated `…untranslated` lists and covered by no other mode
"""
import glob
import os
import re
import sys

ROOT = os.path.dirname(os.path.dirname(os.path.abspath(__file__)))
L = os.path.join(ROOT, "lean", "AsamCmp")
WORD = re.compile(r"[A-Za-z_][A-Za-z0-9_']*")


def read(f):
    p = os.path.join(L, f)
    return open(p).read() if os.path.exists(p) else ""


def defs_with_doc(text):
    """[(lean name, C++ qualified name or None, body text)]"""
    out = []
    for m in re.finditer(r"(?:/-- ((?:(?!-/).)*?) -/\n)?^def (\w+)(.*?)(?=^/-- |^def |^structure |^end |\Z)", text, re.M | re.S):
        doc, name, body = m.group(1), m.group(2), m.group(3)
        q = None
        if doc:
            mm = re.search(r"`([A-Za-z_:~<>=!()\[\] ,&*0-9]+?)`", doc)
            if mm:
                q = mm.group(1)
        out.append((name, q, body))
    return out


def main():
    gens = {"shallow": read("GeneratedSrc.lean"), "object": read("GeneratedSrcObj.lean"), "tecmp": read("GeneratedSrcTecmp.lean")}
    fields = read("GeneratedSrcFields.lean")
    thm = ""
    for f in glob.glob(os.path.join(L, "Props", "*.lean")) + glob.glob(os.path.join(L, "Lemmas", "*.lean")):
        thm += open(f).read()
    thm_words = set(WORD.findall(thm))
    alld = {}
    for mode, text in gens.items():
        for name, q, body in defs_with_doc(text):
            if name.endswith(("_untranslated", "_default")) or name.startswith(("sizeof_", "off_", "untranslated", "translatedNames", "dflt_")):
                continue
            alld[name] = (mode, q, set(WORD.findall(body)))
    # bit programs: entries + everything inlined is by construction part of the entry's program; count accessor names in entries
    entry_progs = set(re.findall(r"(\w+)_prog", fields[fields.find("def entries_"):] if "def entries_" in fields else ""))
    all_progs = set(re.findall(r"^def (\w+)_prog", fields, re.M))
    for name, q, body in defs_with_doc(fields):
        if name.endswith("_prog") and q:
            alld[name] = ("bits", q, set())
    proved = set(n for n in alld if n in thm_words)
    changed = True
    while changed:
        changed = False
        for n in list(proved):
            for c in alld[n][2]:
                if c in alld and c not in proved:
                    proved.add(c)
                    changed = True
    # group by C++ class (prefix of the lean name up to the last '_' that starts the method is not reliable: use the qualified name)
    rows = {}

    def bump(cls, k):
        rows.setdefault(cls, {"proved": 0, "translated": 0, "untranslated": 0, "bitprog": 0})
        rows[cls][k] += 1

    seen_q = {}
    for n, (mode, q, _b) in sorted(alld.items()):
        if not q:
            continue
        cls = "::".join(q.split("(")[0].split("::")[:-1]) or "(free functions)"
        base = re.sub(r"_obj$|_prog$", "", n)
        st = "proved" if n in proved else ("bitprog" if (base in entry_progs or base in all_progs and base.replace("_Header_", "_") in entry_progs) else "translated")
        key = (cls, q)
        order = {"proved": 3, "bitprog": 2, "translated": 1}
        if key not in seen_q or order[st] > order[seen_q[key]]:
            seen_q[key] = st
    for (cls, q), st in seen_q.items():
        bump(cls, st)
    # untranslated lists: a qualified name listed as untranslated in one mode but present in another does not count
    have = set(q for (_c, q) in seen_q)
    unl = []
    for text in gens.values():
        for m in re.finditer(r"def \w*untranslated : List \(String × String\) := \[(.*?)\]\n", text, re.S):
            for q, r in re.findall(r'\("([^"]*)", "([^"]*)"\)', m.group(1)):
                qn = q.split(" ")[0]
                if qn not in have and not any(h.startswith(qn) for h in have):
                    unl.append((qn, r))
    for qn, r in sorted(set(unl)):
        cls = "::".join(qn.split("::")[:-1]) or "(free functions)"
        bump(cls, "untranslated")
    lines = ["| C++ class / scope | proved equal to the model | covered by a checked bit program | translated, no theorem | untranslated |", "|---|---|---|---|---|"]
    tot = {"proved": 0, "bitprog": 0, "translated": 0, "untranslated": 0}
    for cls in sorted(rows):
        r = rows[cls]
        for k in tot:
            tot[k] += r[k]
        lines.append("| `%s` | %d | %d | %d | %d |" % (cls, r["proved"], r["bitprog"], r["translated"], r["untranslated"]))
    lines.append("| **total** | **%d** | **%d** | **%d** | **%d** |" % (tot["proved"], tot["bitprog"], tot["translated"], tot["untranslated"]))
    un_names = sorted(set(q for q, _r in unl))
    table = "\n".join(lines) + "\n\nUntranslated in every mode: " + (", ".join("`%s`" % q for q in un_names) or "none") + ".\n"
    print(table)
    p = os.path.join(ROOT, "DESIGN.md")
    s = open(p).read()
    B, E = "<!-- SRC-COVERAGE-BEGIN -->", "<!-- SRC-COVERAGE-END -->"
    if B in s and "--write" in sys.argv:
        a, b = s.index(B), s.index(E)
        s = s[:a] + B + "\n" + table + s[b:]
        open(p, "w").write(s)


if __name__ == "__main__":
    main()
