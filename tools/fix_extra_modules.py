#!/usr/bin/env python3
"""registry_extra.json: make sure the module that defines every registered theorem is listed under the property's modules."""
import glob
import json
import os
import re
import sys

ROOT = os.path.dirname(os.path.dirname(os.path.abspath(__file__)))
L = os.path.join(ROOT, "lean")


def strip_comments(t):
    t = re.sub(r"/-.*?-/", "", t, flags=re.S)
    return re.sub(r"--.*", "", t)


def main():
    where = {}
    for f in glob.glob(os.path.join(L, "AsamCmp", "Props", "*.lean")) + glob.glob(os.path.join(L, "AsamCmp", "Lemmas", "*.lean")) + glob.glob(os.path.join(L, "AsamCmp", "*.lean")):
        mod = os.path.relpath(f, L)[:-5].replace(os.sep, ".")
        stack = []
        for line in strip_comments(open(f).read()).split("\n"):
            m = re.match(r"^namespace (\S+)", line)
            if m:
                stack.append(m.group(1))
                continue
            m = re.match(r"^end (\S+)", line)
            if m and stack and stack[-1].split(".")[-1] == m.group(1).split(".")[-1]:
                stack.pop()
                continue
            m = re.match(r"^(?:@\[[^\]]*\]\s*)?(?:protected )?theorem (\S+)", line)
            if m:
                where.setdefault(".".join(stack + [m.group(1)]), mod)
    jp = os.path.join(ROOT, "vlib", "registry_extra.json")
    ex = json.load(open(jp))
    sys.path.insert(0, ROOT)
    for pid, e in ex.items():
        for t in e["theorems"]:
            mod = where.get(t)
            if mod is None:
                print("no defining module found for", t)
                continue
            if mod not in e["modules"]:
                e["modules"].append(mod)
                print(pid, "+module", mod, "(for %s)" % t)
    json.dump(ex, open(jp, "w"), indent=1, sort_keys=True)


if __name__ == "__main__":
    main()
