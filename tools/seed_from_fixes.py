#!/usr/bin/env python3
"""Creates seeded/fix-<id>/ from every "fix:" commit of /repo: the REVERSE of the repair is a realistic change that breaks the
property while the unedited test suite still passes (it passed before the repair)."""
import json
import os
import subprocess

ROOT = os.path.dirname(os.path.dirname(os.path.abspath(__file__)))
MAP = [  # (key in commit subject, id, properties, what it needs to manifest)
    ("CAN crc-word flag setters", "S1", ["C11"], "clearing crc-support / sbc-parity / sbc-support on an object whose id word is non-zero"),
    ("CaptureModulePayload::isValidPayload checks", "V2", ["C03", "C04"], "a capture-module status payload whose string blocks exceed the payload (e.g. header-only 26 bytes)"),
    ("a frame without any message bytes", "D4", ["C17"], "a first segment followed by a header-only frame of the same endpoint"),
    ("keeps only its declared payload bytes", "D1", ["C05", "C17"], "a first segment followed by trailing bytes in its frame"),
    ("wraps at 16 bits", "D2", ["C05"], "segments with sequence counters 65535, 0"),
    ("copies each segment from its own offset", "E1", ["C01", "C07"], "any payload that needs >= 2 segments, with position-dependent bytes"),
    ("opens the first frame of every encode call", "E2", ["C10", "C01"], "a second encode call whose batch starts with the message type of the previous call"),
    ("drops frames that hold no message", "E4", ["C07", "C08", "C09"], "a batch ending in a segmented packet, a type change after a zero-length payload, or an empty batch"),
    ("rebuilds the frame header template", "E3", ["C08", "C09", "C01"], "a batch that mixes message types"),
    ("zeroes the stream-id padding byte", "B1", ["C13"], "setData with an odd id count on an object that held a longer list"),
    ("InterfacePayload::isValidPayload checks", "V3", ["C03", "C04"], "an interface status payload of header size or with list lengths beyond the payload"),
    ("LinPayload::isValidPayload rejects", "V1", ["C03", "C04"], "a LIN payload whose data length byte exceeds the payload"),
    ("validates interface status payloads with the interface validator", "D3", ["C03", "C04"], "an interface status message shorter than 36 bytes or with status byte > 2"),
    ("copy assignment is guarded by identity", "Q2", ["C14"], "assignment onto a target that compares equal (zero-length payloads)"),
    ("payload equality is reflexive", "Q1", ["C14"], "x == x, or two empty payloads"),
    ("tests payload pointers before dereferencing", "T1", ["C02", "C15"], "a TECMP data message of a data type other than CAN / CAN-FD / LIN"),
    ("bus-status parsing stays inside", "T2", ["C02", "C15"], "a TECMP bus-status message with fewer than 12 payload bytes"),
    ("TECMP CAN payloads whose data length", "T3", ["C02", "C15"], "a TECMP CAN message whose length byte exceeds the bytes present"),
    ("TECMP LIN payloads whose data length", "T4", ["C02", "C15"], "a TECMP LIN message whose length byte exceeds the bytes present"),
    ("capture-module status payloads shorter", "T5", ["C02", "C15"], "a TECMP capture-module status message with fewer than 18 payload bytes"),
    ("compares the real payload sizes", "Q3", ["C14"], "two packets whose different payloads are both a multiple of 65536 bytes long (the 16-bit wire length reads 0)"),
    ("pad the stream-id count in size_t", "G1", ["C13"], "an interface status payload with 65535 stream ids (the largest list the API admits): the padded count wraps to 0 in 16 bits"),
    ("getCrc requires all three CRC bytes", "T6", ["C02"], "a TECMP CAN message with 1 or 2 bytes behind the data"),
    ("CAN DLC of a data length between two CAN-FD steps", "B2", ["C13", "C11"], "CAN / CAN-FD setData with a length that is not an ISO 11898 step (9..11, 13..15, ... 65..255): DLC 0 next to a non-zero data length"),
    ("keeps the remaining size in a size_t", "D5", ["C17", "C01"], "a frame of 2^31 + 8 bytes or more for an endpoint with a message in progress (the reassembly is not released), or any such frame (nothing is decoded)"),
    ("bus-status entries are followed by", "T7", ["C15"], "a TECMP bus-status message that declares per-entry vendor data (vendor data length != 0)"),
    ("capture-module status whose declared vendor data", "T8", ["C15"], "a TECMP capture-module status message whose declared vendor data length exceeds the bytes behind the 12 generic bytes"),
]
SCR = "/tmp/vfixseed"
subprocess.run(["git", "-C", "/repo", "worktree", "remove", "--force", SCR], stdout=subprocess.DEVNULL, stderr=subprocess.DEVNULL)
subprocess.run(["git", "-C", "/repo", "worktree", "add", "-q", "--detach", SCR, "HEAD"], check=True)
log = subprocess.run(["git", "-C", "/repo", "log", "--format=%H %s"], stdout=subprocess.PIPE).stdout.decode().strip().split("\n")
for line in log:
    h, subj = line.split(" ", 1)
    if not subj.startswith("fix:"):
        continue
    m = [x for x in MAP if x[0] in subj]
    if not m:
        print("unmapped", subj)
        continue
    key, fid, props, needs = m[0]
    d = os.path.join(ROOT, "seeded", "fix-" + fid)
    os.makedirs(d, exist_ok=True)
    # the reverse of the repair relative to the CURRENT head (later repairs may have touched neighbouring lines): git revert, not a plain reverse diff
    subprocess.run(["git", "-C", SCR, "reset", "-q", "--hard", "HEAD"], check=True)
    rv = subprocess.run(["git", "-C", SCR, "revert", "--no-commit", h], stdout=subprocess.PIPE, stderr=subprocess.STDOUT)
    if rv.returncode != 0:
        print("fix-" + fid, "REVERT CONFLICT", rv.stdout.decode()[-300:])
        subprocess.run(["git", "-C", SCR, "revert", "--abort"], stdout=subprocess.DEVNULL, stderr=subprocess.DEVNULL)
        continue
    diff = subprocess.run(["git", "-C", SCR, "diff", "HEAD", "--", "src", "include"], stdout=subprocess.PIPE).stdout
    open(os.path.join(d, "patch.diff"), "wb").write(diff)
    meta = {"id": "fix-" + fid, "origin": "reverse of repair commit %s (%s)" % (h[:7], subj), "breaks": props, "needs_to_manifest": needs,
            "suite_still_passes": "yes: the unrepaired code passed the unedited suite (baseline)",
            "demonstration": "demo.replay (minimised script found by the check; `python3 check.py replay seeded/fix-%s/demo.replay` differs with the patch applied and agrees without it)" % fid}
    json.dump(meta, open(os.path.join(d, "meta.json"), "w"), indent=1)
    print("fix-" + fid, props)
subprocess.run(["git", "-C", "/repo", "worktree", "remove", "--force", SCR], stdout=subprocess.DEVNULL, stderr=subprocess.DEVNULL)
