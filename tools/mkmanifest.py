#!/usr/bin/env python3
"""Writes MANIFEST.json from the registry (claimed = properties whose Lean obligations are registered)."""
import json
import os
import sys

ROOT = os.path.dirname(os.path.dirname(os.path.abspath(__file__)))
sys.path.insert(0, ROOT)
from vlib import registry  # noqa: E402

PROPS = [json.loads(l) for l in open(os.path.join(ROOT, "properties.jsonl"))]
EXTRA = json.load(open(os.path.join(ROOT, "vlib", "registry_extra.json"))) if os.path.exists(os.path.join(ROOT, "vlib", "registry_extra.json")) else {}
claimed = []
na = []
for p in PROPS:
    pid = p["id"]
    spec = registry.SPECS.get(pid)
    if spec is None or not spec.theorems:
        na.append({"property_id": pid, "reason": registry.NOT_CLAIMED.get(pid, "check under construction: the model and correspondence stream exist but the Lean theorems are not yet integrated, so nothing is claimed yet")})
        continue
    text = registry.LEVEL_TEXT.get(pid, "")
    ex = EXTRA.get(pid)
    if ex:
        files = ", ".join(sorted(m.replace("AsamCmp.Props.", "Props/") + ".lean" for m in ex["modules"] if m.split(".")[-1].endswith("S") or m.endswith("SrcHistory") or m.endswith("SrcLeftovers")))
        text += (" STATEMENT AUDIT (DESIGN.md sections C.2 and J.4): an independent reviewer compared these statements with the property's text clause by clause; the weaknesses found "
                 "are closed by %d further registered theorems (%s), among them end-to-end statements about the translated C++ over whole HISTORIES of calls (Props/SrcHistory.lean) "
                 "and literal instances evaluated by the kernel." % (len(ex["theorems"]), files))
    kf = [l for l in open(os.path.join(ROOT, "known-findings.txt")) if l.startswith("open:") and ("property=%s " % pid) in l]
    if kf:
        text += " OPEN FINDING recorded in known-findings.txt (printed as KNOWN-FINDING, replayed on every run): " + kf[0].split(" ", 3)[3].strip()[:400]
    claimed.append({
        "property_id": pid,
        "quick_cmd": "python3 check.py %s --tier quick" % pid,
        "thorough_cmd": "python3 check.py %s --tier thorough" % pid,
        "evidence_file": "evidence/%s.json" % pid,
        "replay_cmd_template": "python3 check.py replay {path}",
        "engine": "lean4-proof+correspondence",
        "level_claimed": {"category": "proof", "text": text, "design_ref": "DESIGN.md Part I sections C, C.2 (theorems as proved), J (second pass) and Part II section 6, " + pid},
        "level_note": registry.LEVEL_NOTE.get(pid, registry.DEFAULT_NOTE),
        "technique": "Lean 4 theorems about an executable model (kernel-checked, axioms audited) + differential correspondence check model vs. real library (ASan/UBSan harness, -O0) on generated operation scripts"
                     + ("; the byte-level functions involved are TRANSLATED from the C++ source (typed clang AST -> Lean, vlib/srctrans.py) on every run and proved equal to the model's definitions for all inputs (Props/SrcTie*.lean, Props/SrcFields*.lean)"
                        if any(".Src" in t for t in spec.lean_targets) else ""),
    })
man = {
    "version": 1,
    "setup_cmd": "python3 check.py setup",
    "hooks": {
        "guard": "ASAM_CMP_VERIF",
        "enable": "no source hooks: the harness translation unit is compiled with -fno-access-control and reads private state (Decoder::segmentedPackets) directly; the define ASAM_CMP_VERIF is reserved and unused",
        "baseline_off_cmd": "cmake --build /repo/_build && ctest --test-dir /repo/_build -j8 --timeout 900",
        "source_commits": [],
        "add_only": True,
    },
    "engines": [{
        "name": "lean4-proof+correspondence",
        "path": "check.py",
        "serves_properties": [c["property_id"] for c in claimed],
        "kind_free_text": "Lean 4.33 library lean/AsamCmp (model + theorems, core Lean only), compiled Lean driver, C++ harness linked against /repo's objects, Python orchestrator (vlib/)",
    }],
    "checks": claimed,
    "not_applicable": na,
    "notes": "All checks rebuild the harness from /repo's working tree (cached by source hash under .cache/) and the Lean library with lake. See DESIGN.md.",
}
with open(os.path.join(ROOT, "MANIFEST.json"), "w") as f:
    json.dump(man, f, indent=1)
print("claimed:", [c["property_id"] for c in claimed])
