#!/usr/bin/env python3
"""Writes MANIFEST.json from the registry (claimed = properties whose Lean obligations are registered)."""
import json
import os
import sys

ROOT = os.path.dirname(os.path.dirname(os.path.abspath(__file__)))
sys.path.insert(0, ROOT)
from vlib import registry  # noqa: E402

PROPS = [json.loads(l) for l in open(os.path.join(ROOT, "properties.jsonl"))]
claimed = []
na = []
for p in PROPS:
    pid = p["id"]
    spec = registry.SPECS.get(pid)
    if spec is None or not spec.theorems:
        na.append({"property_id": pid, "reason": registry.NOT_CLAIMED.get(pid, "check under construction: the model and correspondence stream exist but the Lean theorems are not yet integrated, so nothing is claimed yet")})
        continue
    text = registry.LEVEL_TEXT.get(pid, "")
    claimed.append({
        "property_id": pid,
        "quick_cmd": "python3 check.py %s --tier quick" % pid,
        "thorough_cmd": "python3 check.py %s --tier thorough" % pid,
        "evidence_file": "evidence/%s.json" % pid,
        "replay_cmd_template": "python3 check.py replay {path}",
        "engine": "lean4-proof+correspondence",
        "level_claimed": {"category": "proof", "text": text, "design_ref": "DESIGN.md Part I section C (theorems as proved) and Part II section 6, " + pid},
        "level_note": registry.LEVEL_NOTE.get(pid, registry.DEFAULT_NOTE),
        "technique": "Lean 4 theorems about an executable model (kernel-checked, axioms audited) + differential correspondence check model vs. real library (ASan/UBSan harness, -O0) on generated operation scripts"
                     + ("; the byte-level functions involved are TRANSLATED from the C++ source (typed clang AST -> Lean, vlib/srctrans.py) on every run and proved equal to the model's definitions for all inputs (Props/SrcTie*.lean, Props/SrcFields*.lean)"
                        if any(".Src" in t for t in spec.lean_targets) else ""),
    })
man = {
    "version": 1,
    "setup_cmd": "python3 check.py setup",
    "hooks": {
        "guard": "ASAM_CMP_VERIF",
        "enable": "no source hooks: the harness translation unit is compiled with -fno-access-control and reads private state (Decoder::segmentedPackets) directly; the define ASAM_CMP_VERIF is reserved and unused",
        "baseline_off_cmd": "cmake --build /repo/_build && ctest --test-dir /repo/_build -j8 --timeout 900",
        "source_commits": [],
        "add_only": True,
    },
    "engines": [{
        "name": "lean4-proof+correspondence",
        "path": "check.py",
        "serves_properties": [c["property_id"] for c in claimed],
        "kind_free_text": "Lean 4.33 library lean/AsamCmp (model + theorems, core Lean only), compiled Lean driver, C++ harness linked against /repo's objects, Python orchestrator (vlib/)",
    }],
    "checks": claimed,
    "not_applicable": na,
    "notes": "All checks rebuild the harness from /repo's working tree (cached by source hash under .cache/) and the Lean library with lake. See DESIGN.md.",
}
with open(os.path.join(ROOT, "MANIFEST.json"), "w") as f:
    json.dump(man, f, indent=1)
print("claimed:", [c["property_id"] for c in claimed])
