#!/usr/bin/env python3
"""Re-confirms every seeded change against the CURRENT head of /repo (needed after a repair commit): the patch applies, the library and
the test suite build with the project's flags, the 293 tests pass, demo.cpp (where there is one) exits 0 without the change and non-zero
with it.  One scratch worktree and one build directory, incremental builds.  Writes seeded/<id>/revalidated.json; prints a summary."""
import json
import os
import subprocess
import sys

ROOT = os.path.dirname(os.path.dirname(os.path.abspath(__file__)))
WT, B = "/tmp/vreval/wt", "/tmp/vreval/b"


def sh(cmd, **kw):
    return subprocess.run(cmd, shell=True, stdout=subprocess.PIPE, stderr=subprocess.STDOUT, **kw)


def build():
    return sh("cmake --build %s -j12" % B)


def demo(d):
    r = sh("g++ -std=c++17 -I%s/include %s/demo.cpp %s/bin/libasam_cmp.a -pthread -o /tmp/vreval/demo" % (WT, d, B))
    if r.returncode != 0:
        return "compile-error"
    try:
        return sh("/tmp/vreval/demo", timeout=300).returncode
    except subprocess.TimeoutExpired:
        return "timeout"


def main():
    only = sys.argv[1].split(",") if len(sys.argv) > 1 else None
    os.makedirs("/tmp/vreval", exist_ok=True)
    sh("git -C /repo worktree remove --force %s" % WT)
    sh("git -C /repo worktree add -q --detach %s HEAD" % WT)
    head = sh("git -C /repo rev-parse --short HEAD").stdout.decode().strip()
    sh("cmake -S %s -B %s -G Ninja -DCMAKE_BUILD_TYPE=RelWithDebInfo -DASAM_CMP_LIB_ENABLE_TESTS=ON -DFETCHCONTENT_SOURCE_DIR_GTEST=/usr/src/googletest "
       "-DFETCHCONTENT_SOURCE_DIR_GOOGLETEST=/usr/src/googletest -DFETCHCONTENT_TRY_FIND_PACKAGE_MODE=ALWAYS -DFETCHCONTENT_FULLY_DISCONNECTED=ON" % (WT, B))
    bad = []
    for sid in sorted(os.listdir(os.path.join(ROOT, "seeded"))):
        d = os.path.join(ROOT, "seeded", sid)
        if only and sid not in only or not os.path.exists(os.path.join(d, "patch.diff")):
            continue
        res = {"head": head}
        sh("git -C %s checkout -q -- . && git -C %s clean -fdq -e _b" % (WT, WT))
        has_demo = os.path.exists(os.path.join(d, "demo.cpp"))
        if has_demo:
            build()
            res["demo_without_change_exit"] = demo(d)
        r = sh("git -C %s apply %s/patch.diff" % (WT, d))
        res["applies"] = r.returncode == 0
        if res["applies"]:
            if "CMakeLists" in open(os.path.join(d, "patch.diff"), errors="replace").read():
                sh("cmake %s" % B)
            r = build()
            res["builds_with_project_flags"] = r.returncode == 0
            if r.returncode == 0:
                t = sh("%s/bin/test_asam_cmp | tail -3" % B).stdout.decode(errors="replace")
                res["suite_passes"] = "[  PASSED  ] 293 tests." in t
                if has_demo:
                    res["demo_with_change_exit"] = demo(d)
        ok = res.get("applies") and res.get("builds_with_project_flags") and res.get("suite_passes") and (
            not has_demo or (res.get("demo_without_change_exit") == 0 and res.get("demo_with_change_exit") not in (0, "compile-error")))
        res["confirmed"] = bool(ok)
        json.dump(res, open(os.path.join(d, "revalidated.json"), "w"), indent=1)
        if not ok:
            bad.append((sid, res))
        print(sid, "ok" if ok else "NOT CONFIRMED %s" % res, flush=True)
    sh("git -C /repo worktree remove --force %s" % WT)
    print("%d not confirmed" % len(bad))


if __name__ == "__main__":
    main()
