#!/usr/bin/env python3
"""Imports a mutation produced by an independent sub-agent (/tmp/mut/<name>_out/patchX.diff + demoX.cpp) into seeded/<id>/ after
confirming everything in a scratch worktree: the patch applies, the library builds with the project's flags, the unedited suite
passes (293 cases), the demonstration fails with the change and passes without it.
usage: import_mutation.py <name> <letter> <property> <seed-id> "<what it needs to manifest>" """
import json
import os
import shutil
import subprocess
import sys

ROOT = os.path.dirname(os.path.dirname(os.path.abspath(__file__)))
CM = ("cmake -S {wt} -B {b} -G Ninja -DCMAKE_BUILD_TYPE=RelWithDebInfo -DASAM_CMP_LIB_ENABLE_TESTS=ON -DFETCHCONTENT_SOURCE_DIR_GTEST=/usr/src/googletest "
      "-DFETCHCONTENT_SOURCE_DIR_GOOGLETEST=/usr/src/googletest -DFETCHCONTENT_TRY_FIND_PACKAGE_MODE=ALWAYS -DFETCHCONTENT_FULLY_DISCONNECTED=ON > /dev/null && cmake --build {b} -j16 > {b}/build.log 2>&1")


def sh(cmd):
    return subprocess.run(cmd, shell=True, stdout=subprocess.PIPE, stderr=subprocess.STDOUT)


def main():
    name, letter, prop, sid, needs = sys.argv[1:6]
    src = {"y": "/tmp/mut8/%s_out", "z": "/tmp/mut9/%s_out", "q": "/tmp/mut10/%s_out"}.get(name[0], "/tmp/mut/%s_out") % name
    patch = os.path.join(src, "patch%s.diff" % letter)
    demo = os.path.join(src, "demo%s.cpp" % letter)
    wt, b = "/tmp/vimp/wt_" + sid, "/tmp/vimp/b_" + sid
    os.makedirs("/tmp/vimp", exist_ok=True)
    sh("git -C /repo worktree remove --force %s" % wt)
    shutil.rmtree(wt, ignore_errors=True)
    shutil.rmtree(b, ignore_errors=True)
    sh("git -C /repo worktree add -q --detach %s HEAD" % wt)
    res = {}
    # without the change
    r = sh(CM.format(wt=wt, b=b))
    res["baseline_builds"] = r.returncode == 0
    r = sh("g++ -std=c++17 -I%s/include %s %s/bin/libasam_cmp.a -o %s/demo && %s/demo" % (wt, demo, b, b, b))
    res["demo_without_change_exit"] = r.returncode
    # with the change
    r = sh("git -C %s apply %s" % (wt, patch))
    res["applies"] = r.returncode == 0
    r = sh(CM.format(wt=wt, b=b))
    res["builds_with_project_flags"] = r.returncode == 0
    r = sh("%s/bin/test_asam_cmp | tail -3" % b)
    res["suite_passes"] = "[  PASSED  ] 293 tests." in r.stdout.decode(errors="replace")
    r = sh("g++ -std=c++17 -I%s/include %s %s/bin/libasam_cmp.a -o %s/demo && %s/demo" % (wt, demo, b, b, b))
    res["demo_with_change_exit"] = r.returncode
    res["demo_with_change_output"] = r.stdout.decode(errors="replace")[-600:]
    ok = res["applies"] and res["builds_with_project_flags"] and res["suite_passes"] and res["demo_with_change_exit"] != 0 and res["demo_without_change_exit"] == 0
    print(sid, "CONFIRMED" if ok else "NOT CONFIRMED", {k: v for k, v in res.items() if k != "demo_with_change_output"})
    if ok:
        d = os.path.join(ROOT, "seeded", sid)
        os.makedirs(d, exist_ok=True)
        shutil.copy(patch, os.path.join(d, "patch.diff"))
        shutil.copy(demo, os.path.join(d, "demo.cpp"))
        notes = os.path.join(src, "notes.md")
        if os.path.exists(notes):
            shutil.copy(notes, os.path.join(d, "agent-notes.md"))
        meta = {"id": sid, "origin": "independent sub-agent %s (given only the text of %s and a scratch worktree), change %s" % (name, prop, letter),
                "breaks": [prop], "needs_to_manifest": needs,
                "confirmed": {"how": "tools/import_mutation.py in a scratch worktree: git apply; cmake build with the project's flags (-Werror); unedited suite; demo.cpp linked against the library with and without the change",
                              **{k: v for k, v in res.items()}},
                "demonstration": "demo.cpp (exit 1 with the change, exit 0 without)"}
        json.dump(meta, open(os.path.join(d, "meta.json"), "w"), indent=1)
    sh("git -C /repo worktree remove --force %s" % wt)
    shutil.rmtree(b, ignore_errors=True)
    shutil.rmtree(wt, ignore_errors=True)
    return 0 if ok else 1


if __name__ == "__main__":
    sys.exit(main())
