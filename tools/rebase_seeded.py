#!/usr/bin/env python3
"""After a repair commit in /repo: re-express every seeded / benign patch relative to the new head (3-way apply; the patches carry blob
ids).  Patches that already apply are left alone; conflicts are listed for manual treatment.  usage: rebase_seeded.py [--dir benign]"""
import os
import subprocess
import sys

ROOT = os.path.dirname(os.path.dirname(os.path.abspath(__file__)))
SD = sys.argv[sys.argv.index("--dir") + 1] if "--dir" in sys.argv else "seeded"
WT = "/tmp/vrebase"


def sh(*a):
    return subprocess.run(list(a), stdout=subprocess.PIPE, stderr=subprocess.STDOUT)


sh("git", "-C", "/repo", "worktree", "remove", "--force", WT)
sh("git", "-C", "/repo", "worktree", "add", "-q", "--detach", WT, "HEAD")
ok = rebased = 0
bad = []
for sid in sorted(os.listdir(os.path.join(ROOT, SD))):
    p = os.path.join(ROOT, SD, sid, "patch.diff")
    if not os.path.exists(p):
        continue
    sh("git", "-C", WT, "reset", "-q", "--hard", "HEAD")
    if sh("git", "-C", WT, "apply", "--check", p).returncode == 0:
        ok += 1
        continue
    r = sh("git", "-C", WT, "apply", "--3way", p)
    st = sh("git", "-C", WT, "status", "--porcelain").stdout.decode()
    if r.returncode != 0 or any(l[:2] in ("UU", "AA", "DU", "UD") for l in st.split("\n")):
        bad.append((sid, r.stdout.decode()[-200:].replace("\n", " ")))
        continue
    d = sh("git", "-C", WT, "diff", "HEAD", "--", "src", "include", "CMakeLists.txt").stdout
    open(p, "wb").write(d)
    rebased += 1
    print("rebased", sid)
sh("git", "-C", "/repo", "worktree", "remove", "--force", WT)
print("%d apply as they are, %d rebased, %d conflicts" % (ok, rebased, len(bad)))
for sid, e in bad:
    print("CONFLICT", sid, e)
