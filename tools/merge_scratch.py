#!/usr/bin/env python3
"""3-way merge of a scratch copy of /verif (made from commit <base>) back into /verif.
usage: merge_scratch.py <scratch verif dir> <base commit> [--dry]"""
import os
import subprocess
import sys
import tempfile

ROOT = os.path.dirname(os.path.dirname(os.path.abspath(__file__)))
SKIP_DIRS = (".cache", ".lake", ".git", "replays", "evidence", "__pycache__", "seeded", "benign", "corpus")
SKIP_FILES = ("MANIFEST.json",)


def main():
    scratch, base = sys.argv[1], sys.argv[2]
    dry = "--dry" in sys.argv
    changed = []
    for dp, dn, fn in os.walk(scratch):
        dn[:] = [d for d in dn if d not in SKIP_DIRS]
        for f in fn:
            if f in SKIP_FILES or f.endswith((".pyc", ".olean", ".ilean")) or f.startswith("_axchk"):
                continue
            p = os.path.join(dp, f)
            rel = os.path.relpath(p, scratch)
            if "Generated" in f:
                continue                      # regenerated on every run
            r = subprocess.run(["git", "-C", ROOT, "show", "%s:%s" % (base, rel)], stdout=subprocess.PIPE, stderr=subprocess.DEVNULL)
            theirs = open(p, "rb").read()
            if r.returncode != 0:
                if os.path.exists(os.path.join(ROOT, rel)) and open(os.path.join(ROOT, rel), "rb").read() == theirs:
                    continue
                if not subprocess.run(["git", "-C", ROOT, "ls-files", "--error-unmatch", rel], stdout=subprocess.DEVNULL, stderr=subprocess.DEVNULL).returncode == 0 and not os.path.exists(os.path.join(ROOT, rel)):
                    changed.append((rel, "new"))
                    if not dry:
                        os.makedirs(os.path.dirname(os.path.join(ROOT, rel)), exist_ok=True)
                        open(os.path.join(ROOT, rel), "wb").write(theirs)
                continue
            if r.stdout == theirs:
                continue
            cur = os.path.join(ROOT, rel)
            with tempfile.NamedTemporaryFile(delete=False) as tb, tempfile.NamedTemporaryFile(delete=False) as tt:
                tb.write(r.stdout)
                tt.write(theirs)
            if dry:
                changed.append((rel, "changed"))
            else:
                m = subprocess.run(["git", "merge-file", "-L", "verif", "-L", "base", "-L", "scratch", cur, tb.name, tt.name])
                changed.append((rel, "merged" if m.returncode == 0 else "CONFLICT(%d)" % m.returncode))
            os.unlink(tb.name)
            os.unlink(tt.name)
    for rel, st in sorted(changed):
        print(st, rel)


if __name__ == "__main__":
    main()
