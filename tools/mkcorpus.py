#!/usr/bin/env python3
"""Builds corpus/<property>/<seed-id>.txt from the minimised failing scripts found for the seeded changes
(seeded/<id>/demo.replay): past failures run first in every check."""
import json
import os

ROOT = os.path.dirname(os.path.dirname(os.path.abspath(__file__)))
n = 0
for sid in sorted(os.listdir(os.path.join(ROOT, "seeded"))):
    d = os.path.join(ROOT, "seeded", sid)
    rp = os.path.join(d, "demo.replay")
    if not os.path.exists(rp):
        continue
    prop = None
    ops = []
    for line in open(rp):
        line = line.rstrip("\n")
        if line.startswith("# property:"):
            prop = line.split(":", 1)[1].strip()
        if not line or line.startswith("#") or line.startswith("case "):
            continue
        ops.append(line)
    if not prop or not ops or sum(len(o) for o in ops) > 400000:
        continue
    os.makedirs(os.path.join(ROOT, "corpus", prop), exist_ok=True)
    with open(os.path.join(ROOT, "corpus", prop, sid + ".txt"), "w") as f:
        f.write("# minimised failing script of seeded change %s\n" % sid)
        f.write("\n".join(ops) + "\n")
    n += 1
print(n, "corpus files")
