#!/usr/bin/env python3
"""Builds corpus/<property>/<seed-id>.txt from the minimised failing scripts found for the seeded changes
(seeded/<id>/demo.replay): past failures run first in every check."""
import json
import os

import sys

ROOT = os.path.dirname(os.path.dirname(os.path.abspath(__file__)))
sys.path.insert(0, ROOT)
from vlib import core, registry, runner  # noqa: E402

# every entry is validated on the CURRENT /repo (run this tool on the unchanged tree only): the model driver accepts the script,
# model and implementation agree through the property's view, and the property's predicate does not fail.  A minimised script of
# a seeded change that does not meet this (over-shrunk, or shrunk to something on which the predicate does not apply) would be a
# false alarm on every tree and is left out.
hdir = core.build_harness("asan")
core.lake_build(["driver"])


def valid_on_clean_tree(prop, ops):
    spec = registry.SPECS[prop]
    m = core.run_driver([("c", ops)])[0]
    if any(l == "bad-op" for l in m):
        return False, "model driver rejects the script"
    im, _ = core.run_harness(hdir, [("c", ops)], timeout=120)
    im = im[0]
    case = runner.Case("c", ops, nontrivial=True, tags=("corpus",))
    view = spec.view or (lambda c, lines: lines)
    if view(case, m) != view(case, im):
        return False, "model and implementation differ on the unchanged tree"
    if spec.predicate:
        ctx = runner.Ctx()
        ctx.tier, ctx.seed, ctx.spec, ctx.hdir, ctx.model, ctx.impl = "quick", 0, spec, hdir, [m], [im]
        try:
            pv = spec.predicate(case, im, m, ctx)
        except Exception:  # noqa: a predicate that needs the generator's meta data does not apply to a bare script (the runner treats it so too)
            pv = None
        if pv is False:
            return False, "predicate fails on the unchanged tree"
    return True, ""


n = 0
skipped = []
for pd in os.listdir(os.path.join(ROOT, "corpus")) if os.path.isdir(os.path.join(ROOT, "corpus")) else []:
    for f in os.listdir(os.path.join(ROOT, "corpus", pd)):
        os.remove(os.path.join(ROOT, "corpus", pd, f))
for sid in sorted(os.listdir(os.path.join(ROOT, "seeded"))):
    d = os.path.join(ROOT, "seeded", sid)
    rp = os.path.join(d, "demo.replay")
    if not os.path.exists(rp):
        continue
    prop = None
    ops = []
    if sum(1 for line in open(rp) if line.startswith("case ")) > 1:
        skipped.append((sid, "-", "replay of a whole multi-case workload (thread / fill-pattern runs), not a minimised script"))
        continue
    for line in open(rp):
        line = line.rstrip("\n")
        if line.startswith("# property:"):
            prop = line.split(":", 1)[1].strip()
        if not line or line.startswith("#") or line.startswith("case "):
            continue
        ops.append(line)
    if not prop or not ops or sum(len(o) for o in ops) > 400000:
        continue
    ok, why = valid_on_clean_tree(prop, ops)
    if not ok:
        skipped.append((sid, prop, why))
        continue
    os.makedirs(os.path.join(ROOT, "corpus", prop), exist_ok=True)
    with open(os.path.join(ROOT, "corpus", prop, sid + ".txt"), "w") as f:
        f.write("# minimised failing script of seeded change %s\n" % sid)
        f.write("\n".join(ops) + "\n")
    n += 1
print(n, "corpus files;", len(skipped), "minimised scripts left out:")
for x in skipped:
    print("  ", x)
