#!/usr/bin/env python3
"""Regenerates the detection table in DESIGN.md (section G) from seeded/*/meta.json and result.json."""
import json
import os

ROOT = os.path.dirname(os.path.dirname(os.path.abspath(__file__)))
rows = []
for sid in sorted(os.listdir(os.path.join(ROOT, "seeded"))):
    d = os.path.join(ROOT, "seeded", sid)
    if not os.path.exists(os.path.join(d, "meta.json")):
        continue
    m = json.load(open(os.path.join(d, "meta.json")))
    r = json.load(open(os.path.join(d, "result.json"))) if os.path.exists(os.path.join(d, "result.json")) else {"checks": {}}
    verd = []
    for p, v in sorted(r.get("checks", {}).items()):
        verd.append("%s: %s" % (p, {"failing-input": "**failing input**", "no-failing-input-found": "no-failing-input-found", "none": "MISSED", "check-crashed": "CHECK CRASHED"}[v["verdict"]]))
    # proof obligations alone (tools/run_seeded.py --obligations: regeneration from the changed source + lake build + axiom audit, no sampling)
    ob = json.load(open(os.path.join(d, "obligations.json"))) if os.path.exists(os.path.join(d, "obligations.json")) else None
    if ob is None:
        obl = "not run"
    else:
        parts = []
        for p_, v in sorted(ob.items()):
            if not v["broken"]:
                parts.append("%s: hold" % p_)
            else:
                mods = sorted(set(w.replace("AsamCmp.Props.", "").replace("AsamCmp.Lemmas.", "L.") for b in v["broken"] for w in b.split() if w.startswith("AsamCmp.")))
                parts.append("%s: **break** (%s)" % (p_, ", ".join(mods[:4]) + (" …" if len(mods) > 4 else "")))
        obl = "; ".join(parts)
    rows.append("| `%s` | %s | %s | %s | %s |" % (sid, ", ".join(m["breaks"]), m["needs_to_manifest"].replace("|", "/"), "; ".join(verd) or "not run yet", obl))
table = ("| seeded change | breaks | needs, to manifest | quick checks run and their verdict | proof obligations alone (translated source vs theorems) |\n"
         "|---|---|---|---|---|\n" + "\n".join(rows))
p = os.path.join(ROOT, "DESIGN.md")
s = open(p).read()
B, E = "<!-- SEEDED-TABLE-BEGIN -->", "<!-- SEEDED-TABLE-END -->"
if "SEEDED_TABLE_PLACEHOLDER" in s:
    s = s.replace("SEEDED_TABLE_PLACEHOLDER", B + "\n" + table + "\n" + E)
else:
    a, b = s.index(B), s.index(E)
    s = s[:a] + B + "\n" + table + "\n" + s[b:]
open(p, "w").write(s)
print(len(rows), "rows")
