#!/bin/bash
# run every check at the given tier for the given seeds on the current tree; prints one line per check
TIER=${1:-quick}; shift
SEEDS=${@:-0}
cd "$(dirname "$0")/.."
for s in $SEEDS; do
  for i in $(seq -w 1 20); do
    p=C$i
    start=$(date +%s)
    out=$(VERIF_SEED=$s python3 check.py $p --tier $TIER 2>&1 | grep -E '^(OK|VIOLATION|KNOWN)' | head -3 | tr '\n' ' ')
    echo "seed=$s $p $(( $(date +%s) - start ))s $out" | cut -c1-300
  done
done
