"""Object mode, member function TEMPLATES over an iterator range (`Encoder::encode(begin, end, ctx)`, include/asam_cmp/encoder.h).

The library never instantiates them, so the AST holds only the dependent template body.  The fragment translated here is exactly:

    static_assert(...);                                   (compile time: skipped)
    this->m(parameters...);                               (call of an already translated method)
    for (auto it = begin; it != end; ++it) this->m(*it);  (or `*(*it)`: a range of pointers)
    return this->m();

A forward-iterator range `[begin, end)` is modelled as the LIST of the objects it designates (the meaning of `it = begin`, `it != end`,
`++it`, `*it` for any conforming iterator); the `for` becomes a monadic left fold over that list.  For the range of `shared_ptr`s the
elements are the pointees: the source dereferences every pointer unchecked, so a null pointer in the range is the caller's undefined
behaviour and outside the list model.  Anything else in such a body: the template is listed as untranslated.
"""
import re

from .srctrans import TU, Untranslatable, strip_cv


def strip(n):
    while n.get("kind") in ("ParenExpr", "ImplicitCastExpr", "ExprWithCleanups", "CXXBindTemporaryExpr", "MaterializeTemporaryExpr"):
        n = n["inner"][0]
    return n


def vname(name, pre):
    return pre + re.sub(r"[^A-Za-z0-9_]", "_", name)


class RangeFn:
    def __init__(self, OT, tmpl, node):
        self.OT, self.T, self.tu = OT, OT.T, OT.T.tu
        self.tmpl, self.node = tmpl, node
        self.by_name = {}
        for f in OT.order:
            self.by_name.setdefault(f.node.get("name"), []).append(f)
        self.structs = {}
        self.has_fuel = False

    def callee(self, me, nargs):
        me = strip(me)
        if me.get("kind") != "MemberExpr" or strip(me["inner"][0]).get("kind") != "CXXThisExpr":
            raise Untranslatable("call that is not a method of this object")
        cands = [f for f in self.by_name.get(me.get("name"), [])]
        if len(cands) != 1:
            raise Untranslatable("callee %s not translated (or overloaded)" % me.get("name"))
        g = cands[0]
        if g.uses_mem or getattr(g, "opaque", []) or getattr(g, "ext_fns", []) or getattr(g, "outbuf", False):
            raise Untranslatable("callee %s needs memory / opaque parameters" % me.get("name"))
        if g.has_fuel:
            self.has_fuel = True
        return g

    def args(self, g, argnodes, elem=None):
        out = []
        for a in argnodes:
            a = strip(a)
            if elem is not None and self.is_deref_it(a):
                out.append(elem)
                continue
            if a.get("kind") == "DeclRefExpr" and a["referencedDecl"]["id"] in self.structs:
                out += list(self.structs[a["referencedDecl"]["id"]])
                continue
            raise Untranslatable("argument shape")
        if len(out) != len(g.params):
            raise Untranslatable("argument count")
        return out

    def is_deref_it(self, a):
        d = 0
        a = strip(a)
        while a.get("kind") == "UnaryOperator" and a.get("opcode") == "*":
            d += 1
            a = strip(a["inner"][0])
        if d and a.get("kind") == "DeclRefExpr" and a["referencedDecl"]["id"] == self.it_id:
            self.depth = d
            return True
        return False

    def call_line(self, g, argv, res):
        return "  let (s, %s) ← %s_obj %ss %s" % (res, g.lean, "fuel " if g.has_fuel else "", " ".join(argv))

    def run(self):
        n = self.node
        from .srctrans import static_local
        if static_local(TU.body_of(n)):
            raise Untranslatable("static local variable")
        tparams = [c["name"] for c in self.tmpl.get("inner", []) if c.get("kind") == "TemplateTypeParmDecl" and c.get("name")]
        params, iters = [], []
        for c in n.get("inner", []):
            if c.get("kind") != "ParmVarDecl":
                continue
            q = c.get("type", {}).get("qualType", "")
            if strip_cv(q) in tparams:
                iters.append((c["id"], strip_cv(q), c.get("name")))
                continue
            rq = strip_cv(q.rstrip("&").strip())
            rec = None
            if q.strip().endswith("&") and q.strip().startswith("const"):
                for r in self.tu.records():
                    qn = self.tu.qualname(r)
                    if qn == rq or qn.endswith("::" + rq):
                        rec = r
            if rec is None:
                raise Untranslatable("parameter type " + q)
            names = []
            for x in rec.get("inner", []):
                if x.get("kind") == "FieldDecl" and x.get("name"):
                    ft = self.T.ctype(x.get("type"))
                    if ft[0] != "i":
                        raise Untranslatable("struct parameter with a non-integer field")
                    names.append(vname("%s_%s" % (c.get("name"), x["name"]), "a_"))
            self.structs[c["id"]] = names
            params += ["(%s : Nat)" % nm for nm in names]
        if len(iters) != 2 or iters[0][1] != iters[1][1]:
            raise Untranslatable("not a (begin, end) pair of one iterator type")
        (begin_id, _, bname), (end_id, _, ename) = iters
        rng = vname("%s_%s" % (bname, ename), "r_")
        self.it_id, self.depth = None, 0
        lines, ret_ty, returned = [], None, False
        for s in TU.body_of(n).get("inner", []):
            if returned:
                raise Untranslatable("statement after return")
            k = s.get("kind")
            if k == "DeclStmt" and all(d.get("kind") == "StaticAssertDecl" for d in s.get("inner", [])):
                continue
            if k in ("CXXMemberCallExpr", "CallExpr"):
                g = self.callee(s["inner"][0], len(s["inner"]) - 1)
                if g.ret[0] != "v":
                    raise Untranslatable("discarded result")
                lines.append(self.call_line(g, self.args(g, s["inner"][1:]), "_"))
                continue
            if k == "ForStmt":
                init, condvar, cond, inc, body = s["inner"]
                if condvar:
                    raise Untranslatable("condition variable")
                ds = init.get("inner", []) if init.get("kind") == "DeclStmt" else []
                if len(ds) != 1 or ds[0].get("kind") != "VarDecl":
                    raise Untranslatable("for-init shape")
                iv = [c for c in ds[0].get("inner", []) if c.get("kind") != "FullComment"]
                if len(iv) != 1 or strip(iv[0]).get("kind") != "DeclRefExpr" or strip(iv[0])["referencedDecl"]["id"] != begin_id:
                    raise Untranslatable("iterator not initialised with begin")
                self.it_id = ds[0]["id"]
                cond = strip(cond)
                ci = cond.get("inner", [])
                if not (cond.get("kind") == "CXXOperatorCallExpr" and len(ci) == 3 and ci[0].get("kind") == "UnresolvedLookupExpr"
                        and ci[0].get("name") == "operator!=" and strip(ci[1]).get("kind") == "DeclRefExpr"
                        and strip(ci[1])["referencedDecl"]["id"] == self.it_id and strip(ci[2]).get("kind") == "DeclRefExpr"
                        and strip(ci[2])["referencedDecl"]["id"] == end_id):
                    raise Untranslatable("loop condition is not `it != end`")
                inc = strip(inc)
                if not (inc.get("kind") == "UnaryOperator" and inc.get("opcode") == "++" and strip(inc["inner"][0]).get("kind") == "DeclRefExpr"
                        and strip(inc["inner"][0])["referencedDecl"]["id"] == self.it_id):
                    raise Untranslatable("loop increment is not `++it`")
                if body.get("kind") == "CompoundStmt":
                    if len(body.get("inner", [])) != 1:
                        raise Untranslatable("loop body shape")
                    body = body["inner"][0]
                if body.get("kind") not in ("CallExpr", "CXXMemberCallExpr"):
                    raise Untranslatable("loop body shape")
                g = self.callee(body["inner"][0], len(body["inner"]) - 1)
                if g.ret[0] != "v" or [t[0] for _n, t in g.params] != ["pkt"]:
                    raise Untranslatable("loop body callee")
                argv = self.args(g, body["inner"][1:], elem="x")
                if self.depth not in (1, 2):
                    raise Untranslatable("dereference depth")
                lines.append("  let s ← %s.foldlM (fun s x => do" % rng)
                lines.append("  " + self.call_line(g, argv, "_"))
                lines.append("    pure s) s")
                continue
            if k == "ReturnStmt" and s.get("inner"):
                e = strip(s["inner"][0])
                if e.get("kind") not in ("CXXMemberCallExpr", "CallExpr") or len(e["inner"]) != 1:
                    raise Untranslatable("return shape")
                g = self.callee(e["inner"][0], 0)
                if g.ret[0] != "frames":
                    raise Untranslatable("return type")
                lines.append(self.call_line(g, [], "t1"))
                lines.append("  pure (s, t1)")
                ret_ty, returned = "List Bytes", True
                continue
            raise Untranslatable("statement " + str(k))
        if not returned or self.it_id is None:
            raise Untranslatable("template body without the range loop / return")
        lean = self.T.lean_name(n) + ("_range" if self.depth == 1 else "_ptrRange")
        doc = ("/-- `%s` (member template over the iterator range `[%s, %s)`%s): the range is the list of the packets it designates -/"
               % (self.tu.qualname(n), bname, ename, "" if self.depth == 1 else " of `shared_ptr<Packet>`, dereferenced unchecked"))
        sig = "def %s_obj %s(s : %s_St) (%s : List PktIn) %s : Option (%s_St × %s) := do" % (
            lean, "(fuel : Nat) " if self.has_fuel else "", self.OT.cls.lean, rng, " ".join(params), self.OT.cls.lean, ret_ty)
        return "\n".join([doc, sig] + lines) + "\n"


def range_templates(OT):
    """Lean text for every member function template of OT's class that has a body, and the list of those outside the fragment"""
    out, failed = [], []
    tu = OT.T.tu
    seen = set()
    for lst in tu.nodes.values():
        for tmpl in lst:
            if tmpl.get("kind") != "FunctionTemplateDecl" or id(tmpl) in seen:
                continue
            seen.add(id(tmpl))
            for n in tmpl.get("inner", []):
                if n.get("kind") != "CXXMethodDecl" or TU.body_of(n) is None:
                    continue
                ctx = tu.context(n)
                if ctx is None or tu.qualname(ctx) != OT.cls.qual:
                    continue
                try:
                    out.append((n.get("type", {}).get("qualType", ""), RangeFn(OT, tmpl, n).run()))
                except Untranslatable as e:
                    failed.append((tu.qualname(n) + " " + n.get("type", {}).get("qualType", ""), str(e)))
                except (KeyError, IndexError, TypeError, AttributeError, ValueError, AssertionError) as e:
                    failed.append((tu.qualname(n) + " " + n.get("type", {}).get("qualType", ""), "unexpected AST shape %r" % (e,)))
    out.sort()
    failed.sort()
    text = "\n".join(t for _q, t in out)
    text += "\ndef %s_templates_untranslated : List (String × String) := [%s]\n" % (
        OT.cls.lean, ", ".join('("%s", "%s")' % (k.replace('"', "'"), v.replace('"', "'")[:100]) for k, v in failed))
    return text, len(out), len(failed)
