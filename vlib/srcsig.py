"""lean/AsamCmp/GeneratedSrcSig.lean: the C types at the API boundary, from the typed clang AST.

The translations are functions of `Nat` parameters; a theorem "for every value v < 2^16 …" about a translated function says what the
C++ function does with the 16-bit value it RECEIVES.  What it receives is the caller's value converted to the declared parameter
type: if `removeDeviceById(uint16_t)` became `removeDeviceById(uint8_t)` the body (and its translation) would not change, yet ids
above 255 would be truncated at the call.  So the declared parameter and return types of every library function with an integer,
enumeration, Boolean or pointer in its signature are part of what the theorems assume; they are generated here per class
(`apiSig`) and compared by the kernel with the table written from the headers (Props/SrcSignatures.lean).

A type is rendered by width and signedness (`u16`, `i32`, `bool`, `ptr`, `void`; an enumeration by its underlying type, e.g.
`enum:u8`), anything else by its desugared spelling.  Overloads of one name are joined with ` ; `, sorted.
"""
import json
import re

from .srctrans import TU, Untranslatable, strip_cv


def render(T, tynode):
    q = (tynode or {}).get("desugaredQualType") or (tynode or {}).get("qualType", "")
    q0 = strip_cv(q)
    if q0.endswith("*"):
        return "ptr"
    ref = ""
    if q0.endswith("&&"):
        q0, ref = strip_cv(q0[:-2]), "&&"
    elif q0.endswith("&"):
        q0, ref = strip_cv(q0[:-1]), "&"
    if q0 == "void":
        return "void"
    if q0 == "bool":
        return "bool" + ref
    try:
        t = T.ctype_s(q0)
    except Untranslatable:
        t = None
    if t and t[0] == "i":
        s = ("i" if t[2] else "u") + str(t[1])
        if T.enum_lookup(q0) is not None:
            s = "enum:" + s
        return s + ref
    return re.sub(r"\s+", " ", q0) + ref


def signatures(T):
    """{class qualified name: {function name: [signature, ...]}}"""
    tu = T.tu
    out = {}
    seen = set()
    for lst in tu.nodes.values():
        for n in lst:
            if n.get("kind") not in ("FunctionDecl", "CXXMethodDecl", "CXXConstructorDecl") or id(n) in seen:
                continue
            seen.add(id(n))
            if n.get("isImplicit") or not n.get("name"):
                continue
            p = tu.parent.get(id(n))
            if p is not None and p.get("kind") == "FunctionTemplateDecl":
                continue
            ctx = tu.context(n)
            cls = tu.qualname(ctx) if ctx is not None and ctx.get("kind") in ("CXXRecordDecl", "NamespaceDecl") else ""
            if not cls:
                continue
            if ctx.get("kind") == "CXXRecordDecl" and (ctx.get("definitionData") or {}).get("isLambda"):
                continue
            params = [render(T, c.get("type")) for c in n.get("inner", []) if c.get("kind") == "ParmVarDecl"]
            qt = n.get("type", {}).get("qualType", "")
            if n["kind"] == "CXXConstructorDecl":
                ret = "ctor"
            else:
                # the return type: everything before the parameter list of the function type; resolve through the canonical spelling
                rts = qt.split("(")[0].strip()
                ret = render(T, {"qualType": rts})
            const = " const" if re.search(r"\)\s*const", qt) else ""
            sig = "%s (%s)%s" % (ret, ", ".join(params), const)
            # only signatures in which a width / signedness / indirection matters
            if not re.search(r"\b(u|i)\d+\b|bool|ptr|enum:", sig):
                continue
            out.setdefault(cls, {}).setdefault(n["name"], set()).add(sig)
    # data members of the library's classes and structs (e.g. `DataContext`, whose fields are read by the encoder)
    for r in tu.records():
        if (r.get("definitionData") or {}).get("isLambda"):
            continue
        cls = tu.qualname(r)
        for c in r.get("inner", []):
            if c.get("kind") == "FieldDecl" and c.get("name"):
                t = render(T, c.get("type"))
                if re.search(r"\b(u|i)\d+\b|bool|ptr|enum:", t):
                    out.setdefault(cls, {}).setdefault("field " + c["name"], set()).add(t)
    return {c: {f: sorted(s) for f, s in fs.items()} for c, fs in out.items()}


def lean_table(name, sigs):
    lines = ["def %s : List (String × List (String × String)) := [" % name]
    rows = []
    for c in sorted(sigs):
        ents = ", ".join("(%s, %s)" % (json.dumps(f), json.dumps(" ; ".join(sigs[c][f]))) for f in sorted(sigs[c]))
        rows.append("  (%s, [%s])" % (json.dumps(c), ents))
    lines.append(",\n".join(rows))
    lines.append("]")
    return "\n".join(lines)


def generate(T):
    sigs = signatures(T)
    text = ("/- GENERATED on every run by vlib/srcsig.py from the typed clang AST of /repo — do not edit. -/\nnamespace AsamCmp.SrcGen\n\n"
            "/-- class → function → declared signature(s), types rendered by width and signedness -/\n"
            + lean_table("apiSig", sigs) + "\n\nend AsamCmp.SrcGen\n")
    return text, sum(len(v) for v in sigs.values())
