"""Second output format of the C++ -> Lean translator: straight-line *bit programs* (lean/AsamCmp/Src/BitProg.lean) for the
field accessors of the wire records, so that "this getter / setter reads / writes exactly the bits of the protocol table's
field, for every memory content and every in-range value" becomes a decidable check on the program (symbolic evaluation proved
sound in Lean), instantiated per field from vlib/layout.py's protocol table and API glue.

Fragment: member reads / writes through `this` (or a pointer at a constant distance from it), integer constants, enum and
constexpr constants, `& | ^ ~`, shifts by literal counts, integral conversions, `x != 0` / `x == 0` as the returned value,
`if` on Boolean parameters (resolved per instantiation), calls to other functions of the fragment (inlined).  Anything else:
the function has no bit program and its fields are listed as not covered (they stay with the sampled correspondence).
"""
import re

from .srctrans import FnTr, TU, Untranslatable


class Leaf:
    def __init__(self, ops, res, kind):
        self.ops, self.res, self.kind = ops, res, kind


class Path:
    """one control path: SSA operations emitted so far and the environment"""

    def __init__(self, ops=None, env=None):
        self.ops = list(ops or [])
        self.env = dict(env or {})

    def copy(self):
        return Path(self.ops, self.env)

    def emit(self, op):
        self.ops.append(op)
        return len(self.ops) - 1


class DeepFn(FnTr):
    def __init__(self, T, node, depth=0):
        FnTr.__init__(self, T, node)
        self.depth = depth
        if depth > 6:
            raise Untranslatable("inlining too deep")

    # ------------------------------------------------------------ entry
    def program(self):
        """returns (lean parameter list, tree, kind) for the function node"""
        n = self.node
        qt = n.get("type", {}).get("qualType", "")
        rts = qt.split("(")[0].strip()
        self.ret = self.T.ctype_s(re.sub(r"typename std::underlying_type<(.*)>::type", r"\1", rts))
        P = Path()
        params = []
        # `this` of a wire record (reflected layout) is the object's first byte; `this` of any other class (the payload classes
        # that own the bytes) is opaque: only `getHeader()` may be called on it
        ctx = self.tu.context(n)
        self.this_off = 0 if (ctx is not None and self.tu.qualname(ctx) in self.T.layout.size) else None
        for c in n.get("inner", []):
            if c.get("kind") == "ParmVarDecl":
                t = self.T.ctype(c.get("type"))
                nm = "p_" + re.sub(r"[^A-Za-z0-9_]", "_", c.get("name") or "anon%d" % len(params))
                if t[0] == "b":
                    params.append((nm, "Bool"))
                    P.env[c["id"]] = ("b", nm)
                elif t[0] == "i":
                    params.append((nm, "Op"))
                    P.env[c["id"]] = ("v", P.emit(nm))
                else:
                    raise Untranslatable("parameter type")
        self.kinds = set()
        body = TU.body_of(n)
        tree = self.block(body.get("inner", []), P, self.fall_end)
        if len(self.kinds) != 1:
            raise Untranslatable("mixed return kinds %s" % sorted(self.kinds))
        return params, tree, self.kinds.pop()

    @staticmethod
    def strip_parens(n):
        while n.get("kind") == "ParenExpr":
            n = n["inner"][0]
        return n

    def fall_end(self, P):
        if self.ret[0] != "v":
            raise Untranslatable("falls off the end")
        self.kinds.add("void")
        return Leaf(P.ops, 0, "void")

    # ------------------------------------------------------------ statements (CPS over paths)
    def block(self, stmts, P, k):
        if not stmts:
            return k(P)
        s, rest = stmts[0], stmts[1:]
        return self.stmt(s, P, lambda P2: self.block(rest, P2, k))

    def stmt(self, s, P, k):
        kind = s.get("kind")
        if kind == "CompoundStmt":
            return self.block(s.get("inner", []), P, k)
        if kind == "NullStmt":
            return k(P)
        if kind == "ReturnStmt":
            inner = s.get("inner", [])
            if not inner:
                self.kinds.add("void")
                return Leaf(P.ops, 0, "void")
            v = self.dx(inner[0], P)
            return self.ret_leaf(v, P)
        if kind == "IfStmt":
            inner = s["inner"]
            c = self.dx(inner[0], P)
            if c[0] != "b":
                raise Untranslatable("condition depends on memory")
            Pt, Pe = P.copy(), P.copy()
            th = self.stmt(inner[1], Pt, k)
            el = self.stmt(inner[2], Pe, k) if len(inner) > 2 else k(Pe)
            return ("if", c[1], th, el)
        if kind == "DeclStmt":
            for d in s.get("inner", []):
                if d.get("kind") != "VarDecl":
                    raise Untranslatable("declaration")
                init = [c for c in d.get("inner", []) if c.get("kind") not in ("FullComment",)]
                if not init:
                    raise Untranslatable("uninitialised local")
                P.env[d["id"]] = self.dx(init[0], P)
            return k(P)
        return self.effect_d(s, P, k)

    def ret_leaf(self, v, P):
        if v[0] == "v":
            self.kinds.add("val")
            return Leaf(P.ops, v[1], "val")
        if v[0] == "c":
            self.kinds.add(v[1])
            return Leaf(P.ops, v[2], v[1])
        raise Untranslatable("returns a parameter-only Boolean / pointer")

    def local_byte(self, n, P):
        """`p[k]` with `p` a char pointer to a local scalar and `k` a constant: (declaration id, width of the local, k)"""
        base, idx = n["inner"]
        et = self.ty(n)
        if et[0] != "i" or et[1] != 8:
            raise Untranslatable("subscript of a non-char pointer")
        p = self.dx(base, P)
        if p[0] != "lp":
            raise Untranslatable("subscript of a pointer into memory")
        kk = self.const_int(idx)
        if not (0 <= kk < p[2] // 8):
            raise Untranslatable("subscript outside the local object")
        return p[1], p[2], kk

    def local_byte_load(self, n, P):
        did, w, kk = self.local_byte(n, P)
        x = P.env[did][1]
        if kk:
            x = P.emit(".ushr %d %s %d" % (w, x, 8 * kk))
        return ("v", P.emit(".trunc 8 %s" % x))

    def local_byte_store(self, s, P):
        """`p[k] = e;` on a local scalar: byte k (little-endian host) of the local's value is replaced"""
        l, r = s["inner"]
        did, w, kk = self.local_byte(l, P)
        v = self.val(self.dx(r, P), P)
        v = P.emit(".trunc 8 %s" % v)
        if kk:
            v = P.emit(".ushl %d %s %d" % (w, v, 8 * kk))
        keep = P.emit(".const %d" % (((1 << w) - 1) & ~(0xFF << (8 * kk))))
        old = P.emit(".band %s %s" % (P.env[did][1], keep))
        P.env[did] = ("v", P.emit(".bor %s %s" % (old, v)))

    def effect_d(self, s, P, k):
        kind = s.get("kind")
        if kind in ("ParenExpr", "ExprWithCleanups"):
            return self.effect_d(s["inner"][0], P, k)
        if kind == "BinaryOperator" and s.get("opcode") == "=" and self.strip_parens(s["inner"][0]).get("kind") == "ArraySubscriptExpr":
            self.local_byte_store(s, P)
            return k(P)
        if kind == "BinaryOperator" and s.get("opcode") == "=":
            l, r = s["inner"]
            v = self.val(self.dx(r, P), P)
            off, w, ct = self.member(l, P)
            if ct[0] == "b":
                raise Untranslatable("bool member")
            P.emit(".wr %d %d %s" % (off, w, v))
            return k(P)
        if kind == "CompoundAssignOperator":
            l, r = s["inner"]
            op = s["opcode"][:-1]
            if op not in ("&", "|", "^"):
                raise Untranslatable("compound " + op)
            lt = self.ty(l)
            ct = self.T.ctype(s.get("computeResultType")) if s.get("computeResultType") else lt
            rv = self.val(self.dx(r, P), P)
            off, w, mt = self.member(l, P)
            cur = P.emit(".rd %d %d" % (off, w))
            a = self.conv(cur, lt, ct, P)
            x = P.emit(".%s %s %s" % ({"&": "band", "|": "bor", "^": "bxor"}[op], a, rv))
            x = self.conv(x, ct, lt, P)
            P.emit(".wr %d %d %s" % (off, w, x))
            return k(P)
        if kind in ("CallExpr", "CXXMemberCallExpr"):
            return self.inline_call(s, P, k, want_value=False)
        raise Untranslatable("statement " + str(kind))

    # ------------------------------------------------------------ expressions
    def val(self, v, P):
        if v[0] == "v":
            return v[1]
        if v[0] == "b":
            return P.emit(".const (if %s then 1 else 0)" % v[1])
        raise Untranslatable("value of a comparison")

    def conv(self, idx, ft, tt, P):
        if ft[0] != "i" or tt[0] != "i":
            raise Untranslatable("conversion")
        fb, fs, tb = ft[1], ft[2], tt[1]
        if tb == fb:
            return idx
        if tb > fb:
            if fs:
                return P.emit(".sext %d %d %s" % (fb, tb, idx))
            return idx
        return P.emit(".trunc %d %s" % (tb, idx))

    def member(self, n, P):
        """lvalue of a scalar member reachable from `this`: (offset, width, ctype)"""
        while n.get("kind") == "ParenExpr":
            n = n["inner"][0]
        if n.get("kind") != "MemberExpr":
            raise Untranslatable("store target " + str(n.get("kind")))
        fd = self.tu.decl(n["referencedMemberDecl"])
        if fd["kind"] != "FieldDecl":
            raise Untranslatable("member kind")
        recn = self.tu.context(fd)
        base = n["inner"][0]
        arrow = n.get("isArrow")
        while recn is not None and recn.get("kind") == "CXXRecordDecl" and not recn.get("name"):
            b = base
            while b.get("kind") in ("ParenExpr", "ImplicitCastExpr"):
                b = b["inner"][0]
            if b.get("kind") != "MemberExpr":
                raise Untranslatable("anonymous member access shape")
            afd = self.tu.decl(b["referencedMemberDecl"])
            arrow = b.get("isArrow")
            base = b["inner"][0]
            recn = self.tu.context(afd)
        key = (self.tu.qualname(recn), fd["name"])
        if key not in self.T.layout.field:
            raise Untranslatable("member without reflected offset")
        off, sz = self.T.layout.field[key]
        qt = fd["type"].get("desugaredQualType") or fd["type"]["qualType"]
        try:
            ct = self.T.ctype_s(qt)
        except Untranslatable:
            ct = ("s",)       # a nested record: only its address is used
        if not arrow:
            # member of a nested record object that is itself a member reachable from `this`
            boff, _bsz, _bct = self.member(base, P)
            return boff + off, sz, ct
        p = self.dx(base, P)
        if p[0] != "p":
            raise Untranslatable("member through a non-this pointer")
        return p[1] + off, sz, ct

    def dx(self, n, P):
        k = n.get("kind")
        if k in ("ParenExpr", "ExprWithCleanups", "MaterializeTemporaryExpr"):
            return self.dx(n["inner"][0], P)
        if k == "ConstantExpr":
            if "value" in n and self.ty(n)[0] == "i":
                return ("v", P.emit(".const %s" % self.lit(int(n["value"]), self.ty(n))))
            return self.dx(n["inner"][0], P)
        if k in ("IntegerLiteral", "CharacterLiteral"):
            return ("v", P.emit(".const %s" % self.lit(int(n["value"]), self.ty(n))))
        if k == "CXXBoolLiteralExpr":
            return ("b", "true" if n["value"] else "false")
        if k == "CXXThisExpr":
            return ("p", self.this_off) if self.this_off is not None else ("o",)
        if k == "UnaryExprOrTypeTraitExpr":
            return ("v", P.emit(".const %d" % self.sizeof_expr(n)))
        if k in ("ImplicitCastExpr", "CXXStaticCastExpr", "CStyleCastExpr", "CXXReinterpretCastExpr", "CXXFunctionalCastExpr", "CXXConstCastExpr"):
            ck = n.get("castKind")
            sub = n["inner"][0]
            if ck == "LValueToRValue":
                s2 = sub
                while s2.get("kind") == "ParenExpr":
                    s2 = s2["inner"][0]
                if s2.get("kind") == "DeclRefExpr":
                    return self.ref(s2, P)
                if s2.get("kind") == "ArraySubscriptExpr":
                    return self.local_byte_load(s2, P)
                off, w, ct = self.member(s2, P)
                if ct[0] != "i":
                    raise Untranslatable("load of non-integer member")
                return ("v", P.emit(".rd %d %d" % (off, w)))
            if ck in ("NoOp", "BitCast"):
                return self.dx(sub, P)
            if ck == "IntegralCast":
                v = self.dx(sub, P)
                ft, tt = self.ty(sub), self.ty(n)
                if v[0] == "b" or ft[0] == "b":
                    if v[0] != "b":
                        raise Untranslatable("bool from memory")
                    return ("v", P.emit(".const (if %s then 1 else 0)" % v[1]))
                return ("v", self.conv(self.val(v, P), ft, tt, P))
            if ck == "IntegralToBoolean":
                v = self.dx(sub, P)
                if v[0] == "b":
                    return v
                return ("c", "ne0", self.val(v, P))
            raise Untranslatable("cast kind " + str(ck))
        if k == "DeclRefExpr":
            return self.ref(n, P)
        if k == "InitListExpr" and len(n.get("inner", [])) == 1:
            return self.dx(n["inner"][0], P)
        if k == "FloatingLiteral":
            if str(n.get("value")) not in ("0", "0.0"):
                raise Untranslatable("floating literal other than +0")
            return ("v", P.emit(".const 0"))
        if k == "UnaryOperator" and n["opcode"] == "&":
            # address of a local scalar (parameter or variable held in the SSA environment): a pointer to its first byte, usable only for
            # byte access through `char*` with constant subscripts (`swapEndian(float)`)
            sub = n["inner"][0]
            while sub.get("kind") == "ParenExpr":
                sub = sub["inner"][0]
            if sub.get("kind") != "DeclRefExpr" or sub["referencedDecl"]["id"] not in P.env:
                raise Untranslatable("address of a non-local")
            t = self.ty(sub)
            if t[0] != "i" or P.env[sub["referencedDecl"]["id"]][0] != "v":
                raise Untranslatable("address of a non-scalar local")
            return ("lp", sub["referencedDecl"]["id"], t[1])
        if k == "UnaryOperator":
            op = n["opcode"]
            sub = n["inner"][0]
            if op == "!":
                v = self.dx(sub, P)
                if v[0] == "b":
                    return ("b", "(!%s)" % v[1])
                if v[0] == "c":
                    return ("c", "eq0" if v[1] == "ne0" else "ne0", v[2])
                return ("c", "eq0", v[1])
            if op == "~":
                t = self.ty(n)
                return ("v", P.emit(".bnot %d %s" % (t[1], self.val(self.dx(sub, P), P))))
            if op == "+":
                return self.dx(sub, P)
            raise Untranslatable("unary " + op)
        if k == "BinaryOperator":
            return self.bin(n, P)
        if k in ("CallExpr", "CXXMemberCallExpr"):
            if self.is_get_header(n):
                return ("p", 0)
            return self.inline_value_call(n, P)
        if k == "ConditionalOperator":
            c, a, b = n["inner"]
            cv = self.dx(c, P)
            if cv[0] != "b":
                raise Untranslatable("?: on a memory value")
            # both arms are computed on the path (they are pure; an arm that could be undefined makes the symbolic run fail, which is
            # the conservative direction) and the result is selected by the Boolean parameter
            x, y = self.dx(a, P), self.dx(b, P)
            if x[0] == "b" and y[0] == "b":
                return ("b", "(if %s then %s else %s)" % (cv[1], x[1], y[1]))
            return ("v", "(if %s then %s else %s)" % (cv[1], self.val(x, P), self.val(y, P)))
        raise Untranslatable("expression " + str(k))

    def ref(self, n, P):
        rd = n["referencedDecl"]
        if rd["id"] in P.env:
            return P.env[rd["id"]]
        d = self.tu.decl(rd["id"])
        if d["kind"] == "EnumConstantDecl":
            return ("v", P.emit(".const %s" % self.lit(self.enum_value(d), self.ty(n))))
        if d["kind"] == "VarDecl" and (d.get("constexpr") or "const" in d.get("type", {}).get("qualType", "")):
            init = [c for c in d.get("inner", []) if c.get("kind") not in ("FullComment",)]
            if not init:
                for cand in self.tu.nodes.get(rd["id"], []):
                    init = [c for c in cand.get("inner", []) if c.get("kind") not in ("FullComment",)] or init
            if not init:
                raise Untranslatable("constant without initialiser")
            return self.dx(init[0], P)
        raise Untranslatable("reference to " + d["kind"])

    def bin(self, n, P):
        op = n["opcode"]
        a, b = n["inner"]
        t = self.ty(n)
        if op in ("&&", "||"):
            x, y = self.dx(a, P), self.dx(b, P)
            if x[0] == "b" and y[0] == "b":
                return ("b", "(%s %s %s)" % (x[1], op, y[1]))
            raise Untranslatable("logical operator on memory values")
        if op in ("==", "!="):
            # comparison with literal zero only
            for x, y in ((a, b), (b, a)):
                try:
                    c = self.const_int(y)
                except Untranslatable:
                    continue
                if c == 0:
                    v = self.dx(x, P)
                    if v[0] == "b":
                        return ("b", v[1] if op == "!=" else "(!%s)" % v[1])
                    if v[0] == "c":
                        raise Untranslatable("nested comparison")
                    return ("c", "ne0" if op == "!=" else "eq0", self.val(v, P))
            raise Untranslatable("comparison with non-zero")
        if t[0] != "i":
            raise Untranslatable("operator type")
        ta, tb = self.ty(a), self.ty(b)
        if op in ("&", "|", "^"):
            if ta != t or tb != t:
                raise Untranslatable("operand types")
            x, y = self.val(self.dx(a, P), P), self.val(self.dx(b, P), P)
            return ("v", P.emit(".%s %s %s" % ({"&": "band", "|": "bor", "^": "bxor"}[op], x, y)))
        if op in ("<<", ">>"):
            cnt = self.const_int(b)
            x = self.val(self.dx(a, P), P)
            if ta != t:
                x = self.conv(x, ta, t, P)
            f = {("<<", False): "ushl", ("<<", True): "sshl", (">>", False): "ushr", (">>", True): "sshr"}[(op, t[2])]
            return ("v", P.emit(".%s %d %s %d" % (f, t[1], x, cnt)))
        raise Untranslatable("operator " + op)

    def is_get_header(self, n):
        """`getHeader()` of a payload class: `return reinterpret_cast<[const] Header*>(payloadData.data());` — the address of the first
        payload byte, i.e. of the wire record the class wraps"""
        if n.get("kind") != "CXXMemberCallExpr":
            return False
        me = n["inner"][0]
        while me.get("kind") in ("ParenExpr", "ImplicitCastExpr"):
            me = me["inner"][0]
        if me.get("kind") != "MemberExpr" or me.get("name") != "getHeader":
            return False
        base = me["inner"][0]
        while base.get("kind") in ("ParenExpr", "ImplicitCastExpr"):
            base = base["inner"][0]
        if base.get("kind") != "CXXThisExpr":
            return False
        try:
            d = self.T.definition(me["referencedMemberDecl"])
        except Untranslatable:
            return False
        body = TU.body_of(d).get("inner", [])
        if len(body) != 1 or body[0].get("kind") != "ReturnStmt":
            return False
        e = body[0]["inner"][0]
        while e.get("kind") in ("ParenExpr", "ImplicitCastExpr"):
            e = e["inner"][0]
        if e.get("kind") != "CXXReinterpretCastExpr":
            return False
        c = e["inner"][0]
        while c.get("kind") in ("ParenExpr", "ImplicitCastExpr"):
            c = c["inner"][0]
        if c.get("kind") != "CXXMemberCallExpr":
            return False
        m2 = c["inner"][0]
        if m2.get("kind") != "MemberExpr" or m2.get("name") != "data":
            return False
        b2 = m2["inner"][0]
        while b2.get("kind") in ("ParenExpr", "ImplicitCastExpr"):
            b2 = b2["inner"][0]
        return b2.get("kind") == "MemberExpr" and b2.get("name") == "payloadData"

    # ------------------------------------------------------------ calls (inlined)
    def callee(self, n, P):
        inner = n["inner"]
        this_off = None
        is_member = False
        if n["kind"] == "CXXMemberCallExpr":
            me = inner[0]
            while me.get("kind") in ("ParenExpr", "ImplicitCastExpr"):
                me = me["inner"][0]
            if me.get("kind") != "MemberExpr" or not me.get("isArrow"):
                raise Untranslatable("member call shape")
            did = me["referencedMemberDecl"]
            p = self.dx(me["inner"][0], P)
            if p[0] == "o":
                this_off = None
            elif p[0] != "p":
                raise Untranslatable("call through a non-this pointer")
            else:
                this_off = p[1]
            is_member = True
        else:
            c = self.strip_casts(inner[0])
            if c.get("kind") != "DeclRefExpr":
                raise Untranslatable("indirect call")
            did = c["referencedDecl"]["id"]
        d = self.T.definition(did)
        sub = DeepFn(self.T, d, self.depth + 1)
        sub.this_off = this_off if is_member else 0
        qt = d.get("type", {}).get("qualType", "")
        rts = qt.split("(")[0].strip()
        sub.ret = self.T.ctype_s(re.sub(r"typename std::underlying_type<(.*)>::type", r"\1", rts))
        sub.kinds = set()
        params = [c for c in d.get("inner", []) if c.get("kind") == "ParmVarDecl"]
        args = inner[1:]
        if len(args) != len(params):
            raise Untranslatable("argument count")
        binds = {}
        for pd, a in zip(params, args):
            if a.get("kind") == "CXXDefaultArgExpr":
                raise Untranslatable("default argument")
            v = self.dx(a, P)
            pt = self.T.ctype(pd.get("type"))
            if pt[0] == "b" and v[0] != "b":
                raise Untranslatable("Boolean argument computed from memory")
            if v[0] == "c":
                raise Untranslatable("comparison as argument")
            binds[pd["id"]] = v
        return d, sub, binds

    def inline_value_call(self, n, P):
        d, sub, binds = self.callee(n, P)
        body = TU.body_of(d).get("inner", [])
        # value-returning callee of the simple shape { declarations; return e; }
        saved = P.env
        P.env = dict(binds)
        try:
            for s in body[:-1]:
                if s.get("kind") == "BinaryOperator" and s.get("opcode") == "=" and self.strip_parens(s["inner"][0]).get("kind") == "ArraySubscriptExpr":
                    sub.local_byte_store(s, P)
                    continue
                if s.get("kind") != "DeclStmt":
                    raise Untranslatable("callee used as a value is not { declarations; return e; }")
                for dd in s.get("inner", []):
                    init = [c for c in dd.get("inner", []) if c.get("kind") not in ("FullComment",)]
                    if dd.get("kind") != "VarDecl" or not init:
                        raise Untranslatable("callee declaration")
                    P.env[dd["id"]] = sub.dx(init[0], P)
            last = body[-1] if body else {}
            if last.get("kind") != "ReturnStmt" or not last.get("inner"):
                raise Untranslatable("callee used as a value is not { declarations; return e; }")
            v = sub.dx(last["inner"][0], P)
        finally:
            P.env = saved
        return v

    def inline_call(self, n, P, k, want_value):
        d, sub, binds = self.callee(n, P)
        if sub.ret[0] != "v":
            # value discarded
            self.inline_value_call(n, P)
            return k(P)
        saved = dict(P.env)
        P.env = dict(binds)

        def after(P2):
            P2.env = dict(saved)
            return k(P2)
        sub.fall_end = lambda P2: after(P2)
        # a `return;` inside the callee ends the callee only
        orig_stmt = sub.stmt

        def stmt2(s, P2, k2):
            if s.get("kind") == "ReturnStmt" and not s.get("inner"):
                return after(P2)
            return orig_stmt(s, P2, k2)
        sub.stmt = stmt2
        return sub.block(TU.body_of(d).get("inner", []), P, sub.fall_end)


def render(tree, ind=1):
    pad = "  " * ind
    if isinstance(tree, Leaf):
        return "%s([%s], %s)" % (pad, ", ".join(tree.ops), tree.res)
    _, c, th, el = tree
    return "%sif %s then\n%s\n%selse\n%s" % (pad, c, render(th, ind + 1), pad, render(el, ind + 1))


def generate_programs(T):
    """bit programs of every function of the fragment: {lean name: (params, kind)} and the Lean text"""
    out = []
    meta = {}
    failed = {}
    shallow = {id(f.node): f.lean for f in T.order}
    used = set()
    T.float_bits = True
    try:
        return _generate_programs(T, out, meta, failed, shallow, used)
    finally:
        T.float_bits = False


def _generate_programs(T, out, meta, failed, shallow, used):
    for node in T.all_functions():
        qual = T.tu.qualname(node)
        name = shallow.get(id(node)) or T.lean_name(node)
        try:
            params, tree, kind = DeepFn(T, node).program()
        except Untranslatable as e:
            failed.setdefault(name, str(e))
            continue
        except (KeyError, IndexError, TypeError, AttributeError, ValueError, AssertionError) as e:
            failed.setdefault(name, "unexpected AST shape %r" % (e,))
            continue
        if name in used:
            # overloads (const / non-const): keep the first, they must agree; a differing second one gets a suffix
            k = 2
            while "%s_%d" % (name, k) in used:
                k += 1
            name = "%s_%d" % (name, k)
        used.add(name)
        ps = " ".join("(%s : %s)" % (nm, ty) for nm, ty in params)
        out.append("/-- bit program of `%s` (%s result) -/" % (qual, kind))
        out.append("def %s_prog %s : List Op × Nat :=\n%s\n" % (name, ps, render(tree)))
        meta[name] = (params, kind)
    return "\n".join(out), meta, failed
