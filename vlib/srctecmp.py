"""Fourth output of the C++ -> Lean translator: the TECMP decoding path (`TECMP::Decoder`, `TECMP::Converter`, the `TECMP::Payload`
hierarchy's constructors and `type` accessors, the ASAM payload objects the converter builds) -> lean/AsamCmp/GeneratedSrcTecmp.lean.

Two styles of function are produced, both from the typed clang AST:

  * SHALLOW EXTENSION: methods of the payload classes that only touch `payloadData` and that the shallow translator (srctrans.py)
    rejected for one missing construct (`memcpy` into `&local`, a file-scope constant outside the AST dump filter, `std::string` /
    `std::stringstream`).  They get the shallow signature `(m) (pd_ pdsize_) (this_) args` and are interchangeable with the functions
    of GeneratedSrc.lean.

  * VALUE MODE: static functions, constructors and the methods that touch the `type` member.  Objects are VALUES:
      - an object of a class of the `TECMP::Payload` / `ASAM::CMP::Payload` hierarchy is the record of the root class's data members
        (`f_payloadData : Bytes`, `f_type : Nat`); derived classes add no data member (checked), so the slicing copy
        `std::make_shared<Payload>(derived)` and the `reinterpret_cast<Derived*>(payload.get())` of the converter are the identity on
        values: the derived class's NON-VIRTUAL methods are then run on those same bytes (the dynamic class is not observable);
      - `std::shared_ptr<T>` and a raw `T*` to such an object = `Option T` (null = none; dereferencing null = `none` of the monad);
      - `std::vector<std::shared_ptr<T>>` = `List (Option T)`; range-for = structural recursion; `while` = recursion on fuel;
      - a local of a packed wire record type (`TECMP::CmpHeader`) = its bytes; a one-scalar record (`PayloadType`) = that scalar;
      - `std::string` / `std::stringstream` = the byte list; `std::to_string` = `decimal` / `toStringInt`;
      - plain pointers (`const uint8_t*`, `const void*`) are addresses in the one read-only memory `m` (the caller's buffer);
      - shallow functions are REUSED on an object value by running them on the object's own byte vector (memory = `f_payloadData`,
        `pd_ = 0`, `pdsize_ = length`); a method returning a pointer into the object is run with `pd_ = objBase` (non-null) and its
        result may only be used as a `memcpy` source (`ptrBytes`).
      - `std::shared_ptr<Packet>`: `Option TPacket_St` (SEAM, see `seam_text`): value semantics is sound only while no alias of a
        packet is used after a copy of the pointer was handed on; the translator enforces this (`dead` set) and fails closed.

Everything outside these shapes raises `Untranslatable` and is listed in `tecmp_untranslated`.
"""
import json
import os
import re
import subprocess

from .srctrans import FnTr, Fn, TU, Untranslatable, strip_cv, INT_TYPES
from . import srcobj

TROOT = "TECMP::Payload"
AROOT = "ASAM::CMP::Payload"
PACKET = "ASAM::CMP::Packet"
ST_NAME = {TROOT: "TECMP_Payload_St", AROOT: "APayload_St"}
STRING_TYPES = ("std::string", "std::basic_string<char>", "std::basic_string<char, std::char_traits<char>, std::allocator<char>>",
                "std::basic_stringstream<char>::__string_type")
SSTREAM_TYPES = ("std::stringstream", "std::basic_stringstream<char>")
BYTEVEC_TYPES = ("std::vector<uint8_t>", "std::vector<unsigned char>", "std::vector<unsigned char, std::allocator<unsigned char>>")
WRAPPERS = ("ExprWithCleanups", "MaterializeTemporaryExpr", "CXXBindTemporaryExpr", "ParenExpr")
NONMUT_STD = ("empty", "size", "begin", "end", "get", "str", "data", "length", "operator bool", "cbegin", "cend")


def lean_ty(k):
    t = k[0]
    if t in ("i", "p", "prec"):
        return "Nat"
    if t == "b":
        return "Bool"
    if t in ("rec", "str", "sstream", "bytesvec"):
        return "Bytes"
    if t == "obj":
        return ST_NAME[k[1]]
    if t == "optr":
        return "Option %s" % ST_NAME[k[1]]
    if t == "olist":
        return "List (Option %s)" % ST_NAME[k[1]]
    if t == "pktptr":
        return "Option TPacket_St"
    if t == "pktlist":
        return "List (Option TPacket_St)"
    if t == "v":
        return "Unit"
    raise Untranslatable("no Lean type for %s" % (k,))


def paren(t):
    return "(%s)" % t if " " in t else t


class TProxy:
    """the shallow translator, with this file's shallow extensions visible to nested calls"""

    def __init__(self, X):
        self._X = X

    def __getattr__(self, a):
        return getattr(self._X.T, a)

    def translate_fn(self, defnode):
        return self._X.shallow(defnode)


class TecTranslator:
    def __init__(self, T):
        self.T = T
        self.tu = T.tu
        self.proxy = TProxy(self)
        self.repo = T.repo
        self.ext = {}          # id(defnode) -> Fn | Untranslatable | None      (shallow extensions)
        self.val = {}          # id(defnode) -> Fn | Untranslatable | None      (value mode)
        self.order = []
        self.failed = {}
        self.used_names = set(T.used_names)
        self.file_consts = {}
        self.PK = srcobj.ObjTranslator(T, PACKET)
        self.aliases = {}
        for lst in self.tu.nodes.values():
            for n in lst:
                if n.get("kind") in ("TypeAliasDecl", "TypedefDecl") and n.get("name"):
                    t = n.get("type", {})
                    self.aliases.setdefault(n["name"], set()).add(t.get("desugaredQualType") or t.get("qualType"))
        self.records = {}
        for r in self.tu.records():
            self.records[self.tu.qualname(r)] = r
        self._root_cache = {}

    # ---------------------------------------------------------------- classes
    def record(self, q):
        q = strip_cv(q)
        if q in self.records:
            return q
        c = [k for k in self.records if k.endswith("::" + q)]
        if len(c) == 1:
            return c[0]
        return None

    def bases(self, q):
        r = self.records[q]
        out = []
        for b in r.get("bases", []):
            bq = self.record(b.get("type", {}).get("desugaredQualType") or b.get("type", {}).get("qualType") or "")
            if bq is None:
                raise Untranslatable("base class of %s outside the library" % q)
            out.append(bq)
        return out

    def payload_root(self, q):
        """TROOT / AROOT if `q` names a class of one of the two payload hierarchies (whose derived classes add no data member)"""
        q0 = self.record(q)
        if q0 is None:
            return None
        if q0 in self._root_cache:
            return self._root_cache[q0]
        res = None
        if q0 in (TROOT, AROOT):
            res = q0
        else:
            try:
                bs = self.bases(q0)
            except Untranslatable:
                bs = []
            if len(bs) == 1:
                up = self.payload_root(bs[0])
                if up is not None:
                    flds = [c for c in self.records[q0].get("inner", []) if c.get("kind") == "FieldDecl"]
                    if flds:
                        raise Untranslatable("class %s adds data members to %s" % (q0, up))
                    res = up
        self._root_cache[q0] = res
        return res

    def root_fields(self, root):
        """[(name, 'bytes' | 'prec', record qual or None, size)] of the root payload class"""
        out = []
        for c in self.records[root].get("inner", []):
            if c.get("kind") != "FieldDecl" or not c.get("name"):
                continue
            t = c.get("type", {})
            q = strip_cv(t.get("desugaredQualType") or t.get("qualType") or "")
            if q in BYTEVEC_TYPES:
                out.append((c["name"], "bytes", None, None, c))
                continue
            k = self.kind_s(q)
            if k[0] == "prec":
                out.append((c["name"], "prec", k[1], k[2], c))
                continue
            raise Untranslatable("data member %s::%s of type %s" % (root, c["name"], q))
        return out

    def copy_memberwise(self, q):
        """the copy constructor of class q (and of its bases) is implicit or defaulted"""
        q = self.record(q)
        for c in self.records[q].get("inner", []):
            if c.get("kind") == "CXXConstructorDecl":
                ps = [p for p in c.get("inner", []) if p.get("kind") == "ParmVarDecl"]
                if len(ps) == 1:
                    pt = ps[0].get("type", {}).get("qualType", "")
                    if pt.strip().endswith("&") and not pt.strip().endswith("&&") and self.record(strip_cv(pt.strip()[:-1])) == q:
                        if not (c.get("isImplicit") or c.get("explicitlyDefaulted") == "default"):
                            return False
        return all(self.copy_memberwise(b) for b in self.bases(q))

    def scalar_record(self, q):
        """(qual, size, field ctype) if q is a record with exactly one scalar data member, no bases, of that member's size"""
        q0 = self.record(q)
        if q0 is None or self.records[q0].get("bases"):
            return None
        flds = [c for c in self.records[q0].get("inner", []) if c.get("kind") == "FieldDecl"]
        if len(flds) != 1 or not flds[0].get("name"):
            return None
        try:
            ct = self.T.ctype(flds[0].get("type"))
        except Untranslatable:
            return None
        if ct[0] != "i" or self.T.layout.size.get(q0) != ct[1] // 8 or self.T.layout.field.get((q0, flds[0]["name"]), (None,))[0] != 0:
            return None
        return (q0, ct[1] // 8, ct, flds[0])

    # ---------------------------------------------------------------- types
    def resolve_alias(self, q):
        last = q.split("::")[-1]
        if self.record(q) is None and last in self.aliases and len(self.aliases[last]) == 1 and re.fullmatch(r"[A-Za-z_][A-Za-z0-9_:]*", q):
            return list(self.aliases[last])[0]
        return q

    def kind(self, tnode):
        if tnode is None:
            raise Untranslatable("untyped expression")
        return self.kind_s(tnode.get("desugaredQualType") or tnode.get("qualType"), tnode.get("qualType"))

    def kind_s(self, q0, alt=None):
        q = strip_cv(q0)
        while q.endswith("&"):
            q = strip_cv(q[:-1])
        q = strip_cv(self.resolve_alias(q))
        if q.endswith("*"):
            base = strip_cv(q[:-1])
            if base.endswith("*"):
                return ("pp", strip_cv(base[:-1]))
            root = self.payload_root(base) if self.record(base) else None
            if root:
                return ("optr", root)
            return ("p", base)
        m = re.fullmatch(r"(?:std::)?shared_ptr<(?:_NonArray<)?(.*?)>?>", q)
        if m and "vector" not in q:
            inner = strip_cv(self.resolve_alias(strip_cv(m.group(1))))
            if self.record(inner) == PACKET:
                return ("pktptr",)
            root = self.payload_root(inner) if self.record(inner) else None
            if root:
                return ("optr", root)
            raise Untranslatable("shared_ptr of " + inner)
        m = re.fullmatch(r"std::vector<(.*?)(?:, std::allocator<.*>)?>", q)
        if m and q not in BYTEVEC_TYPES:
            ek = self.kind_s(m.group(1))
            if ek[0] == "optr":
                return ("olist", ek[1])
            if ek[0] == "pktptr":
                return ("pktlist",)
            raise Untranslatable("vector of " + m.group(1))
        if q in BYTEVEC_TYPES:
            return ("bytesvec",)
        if q in STRING_TYPES:
            return ("str",)
        if q in SSTREAM_TYPES:
            return ("sstream",)
        rq = self.record(q)
        if rq is not None:
            root = self.payload_root(rq)
            if root:
                return ("obj", root)
            sr = self.scalar_record(rq)
            if sr is not None:
                return ("prec", sr[0], sr[1])
            if rq in self.T.layout.default:
                return ("rec", rq)
            raise Untranslatable("class type " + rq)
        try:
            return self.T.ctype_s(q0)
        except Untranslatable:
            if alt and alt != q0:
                return self.kind_s(alt)
            raise

    # ---------------------------------------------------------------- constants at file scope outside the AST dump filter
    def file_const(self, name):
        if name in self.file_consts:
            return self.file_consts[name]
        from . import buildcfg
        cfg = buildcfg.project_config(self.repo)
        unity = buildcfg.unity_source(cfg)
        cmd = ["clang++-14", "-x", "c++", buildcfg.clang_std(cfg)] + buildcfg.clang_args(cfg) + ["-fsyntax-only", "-w",
               "-Xclang", "-ast-dump=json", "-Xclang", "-ast-dump-filter=" + name, "-"]
        r = subprocess.run(cmd, input=unity.encode(), stdout=subprocess.PIPE, stderr=subprocess.PIPE)
        vals = set()
        if r.returncode == 0:
            txt = r.stdout.decode()
            dec = json.JSONDecoder()
            i, n = 0, len(txt)
            while i < n:
                while i < n and txt[i].isspace():
                    i += 1
                if i >= n:
                    break
                o, i = dec.raw_decode(txt, i)
                if o.get("kind") == "VarDecl" and o.get("name") == name and "const" in o.get("type", {}).get("qualType", ""):
                    e = [c for c in o.get("inner", []) if c.get("kind") not in ("FullComment",)]
                    while e and e[0].get("kind") in ("ImplicitCastExpr", "ConstantExpr", "ParenExpr"):
                        if "value" in e[0]:
                            break
                        e = e[0].get("inner", [])
                    if e and e[0].get("kind") in ("IntegerLiteral", "ConstantExpr") and "value" in e[0]:
                        vals.add(int(e[0]["value"]))
                    else:
                        vals.add(None)
        v = vals.pop() if len(vals) == 1 else None
        self.file_consts[name] = v
        return v

    # ---------------------------------------------------------------- naming
    def base_name(self, node):
        q = self.tu.qualname(node)
        for pre in ("ASAM::CMP::", "ASAM::"):
            if q.startswith(pre):
                q = q[len(pre):]
        q = q.replace("operator==", "operator_eq").replace("operator!=", "operator_ne")
        return re.sub(r"[^A-Za-z0-9_]", "_", q.replace("::", "_"))

    def unique(self, base):
        nm, k = base, 2
        while nm in self.used_names:
            nm = "%s%d" % (base, k)
            k += 1
        self.used_names.add(nm)
        return nm

    @staticmethod
    def ksuffix(k):
        if k[0] == "i":
            return ("i" if k[2] else "u") + str(k[1])
        return {"b": "bool", "p": "ptr", "pp": "out", "prec": "rec", "rec": "hdr", "obj": "obj", "optr": "optr", "olist": "list",
                "pktptr": "pkt", "pktlist": "pkts", "str": "str", "ext": "x"}.get(k[0], "x")

    # ---------------------------------------------------------------- strategies
    def only_payload_data(self, defnode, seen=None):
        """the method touches no member of its object other than `payloadData` (directly or through methods of the same object)"""
        seen = seen if seen is not None else set()
        if id(defnode) in seen:
            return True
        seen.add(id(defnode))
        ok = [True]

        def walk(n, parent):
            if not isinstance(n, dict) or not ok[0]:
                return
            if n.get("kind") == "CXXThisExpr":
                p = parent
                if p is None or p.get("kind") != "MemberExpr":
                    ok[0] = False
                    return
                try:
                    d = self.tu.decl(p["referencedMemberDecl"])
                except Untranslatable:
                    ok[0] = False
                    return
                if d["kind"] == "FieldDecl":
                    if d.get("name") != "payloadData":
                        ok[0] = False
                elif d["kind"] == "CXXMethodDecl":
                    try:
                        dd = self.T.definition(p["referencedMemberDecl"])
                    except Untranslatable:
                        ok[0] = False
                        return
                    if not self.only_payload_data(dd, seen):
                        ok[0] = False
                else:
                    ok[0] = False
                return
            for c in n.get("inner", []):
                cc = c
                # look through implicit casts between `this` and the member expression
                if isinstance(c, dict) and c.get("kind") in ("ImplicitCastExpr", "ParenExpr") and c.get("inner") and c["inner"][0].get("kind") == "CXXThisExpr":
                    walk(c["inner"][0], n)
                else:
                    walk(cc, n)
        walk(TU.body_of(defnode), None)
        for c in defnode.get("inner", []):
            if c.get("kind") == "CXXCtorInitializer":
                return False
        return ok[0]

    def shallow(self, defnode):
        """shallow translation: GeneratedSrc's if it exists, otherwise this file's extension"""
        try:
            return self.T.translate_fn(defnode)
        except Untranslatable:
            pass
        key = id(defnode)
        if key in self.ext:
            f = self.ext[key]
            if isinstance(f, Untranslatable):
                raise f
            if f is None:
                raise Untranslatable("recursive call")
            return f
        self.ext[key] = None
        try:
            f0 = TecFn(self, defnode, "shallow").run_shallow()
            f = TecFn(self, defnode, "shallow", preset=(f0.uses_mem, f0.writes, f0.uses_pd, f0.resizes)).run_shallow()
            if f.has_this and not self.only_payload_data(defnode):
                raise Untranslatable("touches members other than payloadData")
        except Untranslatable as e:
            self.ext[key] = e
            raise
        base = f.lean
        if base in self.used_names or self.T.overloaded.get(f.qual, 0) > 1:
            base = base + "_" + ("_".join(self.ksuffix(t) for nm, t in f.params if nm != "this_") or "v")
        f.lean = self.unique(base)
        f.style = "shallow"
        self.ext[key] = f
        self.order.append(f)
        return f

    def value_fn(self, defnode):
        key = id(defnode)
        if key in self.val:
            f = self.val[key]
            if isinstance(f, Untranslatable):
                raise f
            if f is None:
                raise Untranslatable("recursive call")
            return f
        self.val[key] = None
        try:
            f = TecFn(self, defnode, "value").run_value()
        except Untranslatable as e:
            self.val[key] = e
            raise
        base = f.lean
        if defnode["kind"] == "CXXConstructorDecl" or self.T.overloaded.get(f.qual, 0) > 1:
            base = base + "_" + ("_".join(self.ksuffix(t) for nm, t in f.params if nm != "s") or "v")
        f.lean = self.unique(base + "_obj")
        f.style = "value"
        self.val[key] = f
        self.order.append(f)
        return f

    def attempt(self, defnode, how):
        q = self.tu.qualname(defnode) + " " + defnode.get("type", {}).get("qualType", "")
        try:
            if how == "value":
                self.value_fn(defnode)
            else:
                self.shallow(defnode)
            self.failed.pop(q, None)
        except Untranslatable as e:
            self.failed[q] = str(e)
        except (KeyError, IndexError, TypeError, AttributeError, ValueError, AssertionError) as e:
            self.failed[q] = "unexpected AST shape: %r" % (e,)

    def method_strategy(self, defnode):
        """'shallow' | 'value' for a method of a payload class"""
        if defnode["kind"] == "CXXConstructorDecl":
            return "value"
        return "shallow" if self.only_payload_data(defnode) else "value"

    @staticmethod
    def split_params(fn_type):
        m = re.match(r"^void \((.*?)\)(?: noexcept(?:\(.*\))?)?$", fn_type.strip())
        if not m:
            return None
        out, depth, cur = [], 0, ""
        for ch in m.group(1):
            if ch in "<(":
                depth += 1
            elif ch in ">)":
                depth -= 1
            if ch == "," and depth == 0:
                out.append(cur.strip())
                cur = ""
            else:
                cur += ch
        if cur.strip():
            out.append(cur.strip())
        return out

    def param_shape(self, fn_type):
        ps = self.split_params(fn_type)
        if ps is None:
            return None
        out = []
        for p in ps:
            try:
                k = self.kind_s(p)
            except Untranslatable:
                return None
            ref = "&&" if p.endswith("&&") else ("&" if p.endswith("&") else "")
            out.append((k[:3] if k[0] == "i" else (k[0],) + tuple(k[1:2] if k[0] in ("obj", "optr", "prec", "rec", "olist") else ()), ref))
        return out

    def find_ctor(self, cls, ctor_type):
        """the constructor of `cls` a CXXConstructExpr names: the AST gives only its type, so it is found by its parameter kinds"""
        q = self.record(cls)
        want = self.param_shape(ctor_type)
        cands = []
        for lst in self.tu.nodes.values():
            for n in lst:
                if n["kind"] == "CXXConstructorDecl" and TU.body_of(n) is not None:
                    ctx = self.tu.context(n)
                    if ctx is not None and self.tu.qualname(ctx) == q:
                        have = self.param_shape(n.get("type", {}).get("qualType", ""))
                        if want is not None and have == want and not any(n is c for c in cands):
                            cands.append(n)
        if len(cands) != 1:
            raise Untranslatable("constructor %s of %s not found (%d candidates)" % (ctor_type, q, len(cands)))
        return cands[0]

    # ---------------------------------------------------------------- driver
    def run(self):
        roots = []
        for n in self.T.all_functions():
            q = self.tu.qualname(n)
            if q.startswith("TECMP::Decoder::") or q.startswith("TECMP::Converter::"):
                roots.append((n, "value"))
        for n, how in roots:
            self.attempt(n, how)
        # the TECMP functions the shallow translator rejected and the decoding path did not reach: tried too, so that the list of
        # untranslated functions is complete
        for n in self.T.all_functions():
            q = self.tu.qualname(n)
            if not q.startswith("TECMP::") or id(n) in self.val or id(n) in self.ext:
                continue
            f = self.T.fns.get(id(n))
            if isinstance(f, Untranslatable):
                ctx = self.tu.context(n)
                cq = self.tu.qualname(ctx) if ctx is not None and ctx.get("kind") == "CXXRecordDecl" else None
                try:
                    in_hierarchy = bool(cq and self.payload_root(cq))
                except Untranslatable as e:
                    self.failed[q + " " + n.get("type", {}).get("qualType", "")] = str(e)
                    continue
                if in_hierarchy and n["kind"] == "CXXMethodDecl":
                    self.attempt(n, self.method_strategy(n))
                else:
                    self.attempt(n, "value")


def peel_casts(n, kinds=("NoOp", "DerivedToBase", "UncheckedDerivedToBase", "LValueToRValue")):
    while True:
        k = n.get("kind")
        if k in WRAPPERS:
            n = n["inner"][0]
            continue
        if k in ("ImplicitCastExpr", "CXXStaticCastExpr", "CXXConstCastExpr", "CStyleCastExpr", "CXXReinterpretCastExpr") and n.get("castKind") in kinds:
            n = n["inner"][0]
            continue
        return n


class TecFn(FnTr):
    def __init__(self, X, node, mode, preset=None):
        FnTr.__init__(self, X.proxy, node, preset=preset)
        self.X = X
        self.mode = mode
        self.vals = {}        # decl id -> [kind, lean name]      locals / parameters that are not scalars
        self.local_ty = {}    # lean name -> lean type, in declaration order (loop signatures)
        self.readonly = set() # decl ids that must not be mutated (reference / pointer parameters)
        self.frozen = set()   # shared_ptr<Packet> locals whose pointee was shared (push_back): no mutation through them any more
        self.dead = set()     # shared_ptr<Packet> locals handed to a callee: no use at all any more
        self.outp = {}        # decl id of a `T**` parameter -> [lean name, assigned, element kind]
        self.uninit = {}      # decl id of an uninitialised scalar local -> [lean name, kind]
        self.has_fuel = False
        self.aux = []
        self.nloops = 0
        self.self_root = None
        self.is_ctor = False
        self.depth = 0
        self.sig = []         # value mode: positional parameter descriptors ('in' | 'out', lean name, kind)

    # ================================================================== entry points
    def common_head(self):
        n, f = self.node, self.fn
        f.qual = self.tu.qualname(n)
        f.node = n
        loc = n.get("loc", {})
        f.loc = "line %s" % (loc.get("line") or loc.get("spellingLoc", {}).get("line") or loc.get("expansionLoc", {}).get("line") or "?")
        f.has_fuel = False
        f.aux = []
        f.outs2 = []

    def is_static(self):
        n = self.node
        if n["kind"] == "FunctionDecl":
            return True
        if n.get("storageClass") == "static":
            return True
        for cand in self.tu.nodes.get(n.get("previousDecl") or "", []):
            if cand.get("storageClass") == "static":
                return True
        return False

    def run_shallow(self):
        """FnTr.run with a `std::string` result allowed"""
        n, f = self.node, self.fn
        self.common_head()
        f.lean = self.T.lean_name(n)
        if n["kind"] == "CXXConstructorDecl":
            raise Untranslatable("constructor")
        rts = n.get("type", {}).get("qualType", "").split("(")[0].strip()
        try:
            f.ret = self.T.ctype_s(rts)
        except Untranslatable:
            k = self.X.kind_s(rts)
            if k[0] != "str":
                raise
            f.ret = k
        if not self.is_static():
            f.has_this = True
            f.params.append(("this_", ("p", "")))
        for c in n.get("inner", []):
            if c.get("kind") == "ParmVarDecl":
                t = self.T.ctype(c.get("type"))
                nm = self.vname(c.get("name") or self.fresh("anon"), "a_")
                if t[0] == "vec" and not self.is_external_buffer(c["id"], TU.body_of(n)):
                    raise Untranslatable("std::vector parameter that is not only copied from")
                if t[0] in ("p", "sv", "vec") and self.is_external_buffer(c["id"], TU.body_of(n)):
                    nm = self.vname(c.get("name"), "x_")
                    self.ext[c["id"]] = nm
                    f.params.append((nm, ("ext", t[0])))
                    continue
                if t[0] not in ("i", "b", "p"):
                    raise Untranslatable("parameter type %s" % (t,))
                self.locals[c["id"]] = nm
                f.params.append((nm, t))
        f.body = self.block(TU.body_of(n).get("inner", []), self.fall_off, 1)
        return f

    def run_value(self):
        n, f, X = self.node, self.fn, self.X
        self.common_head()
        f.lean = X.base_name(n)
        self.is_ctor = n["kind"] == "CXXConstructorDecl"
        ctx = self.tu.context(n)
        cq = self.tu.qualname(ctx) if ctx is not None and ctx.get("kind") == "CXXRecordDecl" else None
        self.cq = cq
        pre = []
        if self.is_ctor:
            f.lean = X.base_name(ctx) + "_ctor"
            root = X.payload_root(cq)
            if root:
                f.ret = ("obj", root)
                self.self_root = root
            else:
                sr = X.scalar_record(cq)
                if sr is None:
                    raise Untranslatable("constructor of class " + str(cq))
                f.ret = ("prec", sr[0], sr[1])
        else:
            rts = n.get("type", {}).get("qualType", "").split("(")[0].strip()
            f.ret = X.kind_s(rts)
            if not self.is_static():
                root = X.payload_root(cq) if cq else None
                if not root:
                    raise Untranslatable("value-mode method of the non-payload class " + str(cq))
                self.self_root = root
                f.has_this = True
                f.params.append(("s", ("obj", root)))
                self.sig.append(("in", "s", ("obj", root)))
                self.local_ty["s"] = lean_ty(("obj", root))
                if not n.get("type", {}).get("qualType", "").rstrip().endswith("const"):
                    raise Untranslatable("non-const method in value mode")
        for c in n.get("inner", []):
            if c.get("kind") != "ParmVarDecl":
                continue
            qt = c.get("type", {}).get("qualType", "")
            k = X.kind(c.get("type"))
            if k[0] == "pp":
                nm = self.vname(c.get("name") or self.fresh("anon"), "o_")
                ek = X.kind_s(k[1] + " *")
                if ek[0] != "p":
                    raise Untranslatable("out-parameter of type " + qt)
                self.outp[c["id"]] = [nm, False, ek]
                f.outs2.append((nm, ek))
                self.sig.append(("out", nm, ek))
                continue
            nm = self.vname(c.get("name") or self.fresh("anon"), "a_")
            byref = qt.strip().endswith("&") or k[0] in ("optr",) and qt.strip().endswith("*")
            if k[0] in ("i", "b", "p"):
                self.locals[c["id"]] = nm
            elif k[0] in ("prec", "rec", "obj", "optr", "olist", "pktptr", "pktlist", "str"):
                self.vals[c["id"]] = [k, nm]
                if byref:
                    self.readonly.add(c["id"])
            else:
                raise Untranslatable("parameter type " + qt)
            self.local_ty[nm] = lean_ty(k)
            f.params.append((nm, k))
            self.sig.append(("in", nm, k))
        if self.is_ctor:
            pre = self.ctor_inits()
        body = TU.body_of(n)
        code = self.block(body.get("inner", []), self.fall_off, 1)
        f.body = "".join("  " + x + "\n" for x in pre) + code
        if f.writes:
            raise Untranslatable("write to the caller's memory")
        f.has_fuel = self.has_fuel
        f.aux = self.aux
        f.sig = self.sig
        return f

    def ctor_inits(self):
        """member / base initialisers of a constructor, as binds in front of the body"""
        n, X = self.node, self.X
        B = []
        if self.fn.ret[0] == "prec":
            inits = [c for c in n.get("inner", []) if c.get("kind") == "CXXCtorInitializer"]
            if len(inits) != 1 or not inits[0].get("anyInit"):
                raise Untranslatable("initialisers of a one-scalar record")
            v = self.ex(inits[0]["inner"][0], B)
            B.append("let s := %s" % v)
            return B
        root = self.self_root
        fields = X.root_fields(root)
        based = False
        given = {}
        for c in n.get("inner", []):
            if c.get("kind") != "CXXCtorInitializer":
                continue
            e = c["inner"][0]
            if c.get("baseInit"):
                x = peel_casts(e)
                if x.get("kind") != "CXXConstructExpr":
                    raise Untranslatable("base initialiser")
                bq = X.record(strip_cv(c["baseInit"].get("desugaredQualType") or c["baseInit"].get("qualType")))
                if bq is None or X.payload_root(bq) != root:
                    raise Untranslatable("base class initialiser outside the payload hierarchy")
                ctor = X.find_ctor(bq, x.get("ctorType", {}).get("qualType", ""))
                g = X.value_fn(ctor)
                call = self.lib_call_text(g, [a for a in x.get("inner", []) if a.get("kind") != "CXXDefaultArgExpr"], B)
                B.append("let s ← %s" % call)
                based = True
            elif c.get("anyInit"):
                given[c["anyInit"]["name"]] = e
            else:
                raise Untranslatable("constructor initialiser")
        terms = {}
        for nm, fk, rq, sz, fd in fields:
            e = given.get(nm)
            if e is None:
                if based:
                    continue
                init = [x for x in fd.get("inner", []) if x.get("kind") not in ("FullComment",)]
                if fk == "bytes" and not init:
                    terms[nm] = "[]"
                    continue
                if not init:
                    raise Untranslatable("member %s without initialiser" % nm)
                e = init[0]
                while e.get("kind") == "InitListExpr" and len(e.get("inner", [])) == 1:
                    e = e["inner"][0]
            if fk == "bytes":
                terms[nm] = self.bytes_init(e, B)
            else:
                k, v = self.vex(e, B, want=("prec", rq, sz))
                if k[0] != "prec":
                    raise Untranslatable("initialiser of member " + nm)
                terms[nm] = v
        for nm in given:
            if nm not in [x[0] for x in fields]:
                raise Untranslatable("initialiser of a member outside the state")
        if based:
            if terms:
                B.append("let s := { s with %s }" % ", ".join("f_%s := %s" % kv for kv in terms.items()))
        else:
            B.append("let s : %s := { %s }" % (ST_NAME[root], ", ".join("f_%s := %s" % (nm, terms[nm]) for nm, *_ in fields)))
        return B

    def bytes_init(self, e, B):
        """initialiser of a `std::vector<uint8_t>` member: `v()` or `v(n)` (n value-initialised = zero bytes; allocation never fails)"""
        x = peel_casts(e)
        if x.get("kind") == "CXXConstructExpr":
            args = [a for a in x.get("inner", []) if a.get("kind") != "CXXDefaultArgExpr"]
            ct = x.get("ctorType", {}).get("qualType", "")
            if not args:
                return "[]"
            if len(args) == 1 and re.match(r"void \((std::vector::)?size_type", ct):
                return "(zeros %s)" % self.ex(args[0], B)
        raise Untranslatable("vector member initialiser")

    # ================================================================== results
    def outs_tuple(self, v):
        for did, (nm, assigned, ek) in self.outp.items():
            if not assigned:
                raise Untranslatable("out-parameter not assigned on every path")
            v = "(%s, %s)" % (v, nm)
        return v

    def fall_off(self, ind):
        if self.mode == "shallow":
            return FnTr.fall_off(self, ind)
        if self.is_ctor:
            return "  " * ind + "pure s"
        if self.fn.ret[0] == "v":
            return "  " * ind + "pure " + self.outs_tuple("()")
        return "  " * ind + "none"

    def ret_code(self, val, ind):
        if self.mode == "shallow":
            return FnTr.ret_code(self, val, ind)
        if self.is_ctor:
            return "  " * ind + "pure s"
        return "  " * ind + "pure " + self.outs_tuple("()")

    def ret_code_v(self, v, ind):
        if self.mode == "shallow":
            return FnTr.ret_code_v(self, v, ind)
        return "  " * ind + "pure " + self.outs_tuple(v)

    # ================================================================== use of non-scalar locals
    def use_val(self, did, mutate=False):
        if did in self.dead:
            raise Untranslatable("use of a shared_ptr<Packet> after a copy of it was handed to a callee (aliasing)")
        if mutate and (did in self.readonly or did in self.frozen):
            raise Untranslatable("mutation through a reference / pointer parameter or a shared packet")
        return self.vals[did]

    def snapshot(self):
        return (set(self.dead), set(self.frozen), {k: v[1] for k, v in self.outp.items()}, dict(self.uninit), dict(self.locals), {k: list(v) for k, v in self.vals.items()},
                dict(self.local_ty))

    def restore(self, snap):
        self.dead, self.frozen = set(snap[0]), set(snap[1])
        for k, v in snap[2].items():
            self.outp[k][1] = v
        self.uninit = dict(snap[3])
        self.locals = dict(snap[4])
        self.vals = {k: list(v) for k, v in snap[5].items()}
        self.local_ty = dict(snap[6])

    # ================================================================== expressions of non-scalar type
    def node_kind(self, n):
        return self.X.kind(n.get("type"))

    def is_copy_move(self, n, kk):
        ct = n.get("ctorType", {}).get("qualType", "")
        m = re.fullmatch(r"void \((.*?)\)(?: noexcept(?:\(.*\))?)?", ct.strip())
        if not m or "," in m.group(1):
            return None
        p = m.group(1).strip()
        if not p.endswith("&"):
            return None
        try:
            pk = self.X.kind_s(p)
        except Untranslatable:
            return None
        if pk != kk:
            return None
        return "move" if p.endswith("&&") else "copy"

    def default_value(self, k, n, B):
        t = k[0]
        if t in ("optr", "pktptr"):
            return "none"
        if t in ("olist", "pktlist", "str", "bytesvec", "sstream"):
            return "([] : %s)" % lean_ty(k)
        if t == "rec":
            return "([%s] : Bytes)" % ", ".join(str(x) for x in self.T.layout.default[k[1]])
        if t == "obj":
            cls = self.X.record(strip_cv(n.get("type", {}).get("desugaredQualType") or n.get("type", {}).get("qualType")))
            ctor = self.X.find_ctor(cls, n.get("ctorType", {}).get("qualType", "void ()"))
            g = self.X.value_fn(ctor)
            r = self.fresh()
            B.append("let %s ← %s" % (r, self.lib_call_text(g, [], B)))
            return r
        raise Untranslatable("default value of %s" % (k,))

    def vex(self, n, B, want=None, returning=False):
        """(kind, Lean term) of an expression of non-scalar type; copies of values are the identity"""
        X = self.X
        while True:
            k = n.get("kind")
            if k in WRAPPERS:
                n = n["inner"][0]
                continue
            if k in ("ImplicitCastExpr", "CXXStaticCastExpr", "CXXConstCastExpr") and n.get("castKind") in ("NoOp", "DerivedToBase", "UncheckedDerivedToBase", "LValueToRValue", "ConstructorConversion"):
                n = n["inner"][0]
                continue
            if k == "CXXReinterpretCastExpr" and n.get("castKind") == "BitCast":
                # a raw pointer to a payload object re-typed as a pointer to another class of the same hierarchy: same object
                kk = self.node_kind(n)
                if kk[0] == "optr":
                    ck, cv = self.vex(n["inner"][0], B, want=kk)
                    if tuple(ck) == tuple(kk):
                        return (kk, cv)
                raise Untranslatable("reinterpret_cast to %s" % (kk,))
            if k == "CXXConstructExpr":
                args = [a for a in n.get("inner", []) if a.get("kind") != "CXXDefaultArgExpr"]
                kk = self.node_kind(n)
                cm = self.is_copy_move(n, kk) if len(args) == 1 else None
                if cm:
                    if cm == "move" and not (returning or args[0].get("valueCategory") == "prvalue"):
                        raise Untranslatable("move from an object that lives on")
                    if kk[0] == "obj":
                        cls = X.record(strip_cv(n["type"].get("desugaredQualType") or n["type"].get("qualType")))
                        if not X.copy_memberwise(cls):
                            raise Untranslatable("user-provided copy constructor of " + cls)
                    n = args[0]
                    continue
            break
        k = n.get("kind")
        if k == "DeclRefExpr":
            did = n["referencedDecl"]["id"]
            if did in self.vals:
                kk, nm = self.use_val(did)
                return (tuple(kk), nm)
            raise Untranslatable("reference to %s as a value" % n["referencedDecl"].get("name"))
        if k == "CXXNullPtrLiteralExpr":
            if want and want[0] in ("optr", "pktptr"):
                return (want, "none")
            raise Untranslatable("nullptr")
        if k == "MemberExpr" and self.self_root and peel_casts(n["inner"][0]).get("kind") == "CXXThisExpr":
            for nm, fk, rq, sz, fd in X.root_fields(self.self_root):
                if nm == n.get("name"):
                    return (("prec", rq, sz), "s.f_%s" % nm) if fk == "prec" else (("bytesvec",), "s.f_%s" % nm)
            raise Untranslatable("member " + str(n.get("name")))
        if k == "InitListExpr" and not n.get("inner") and want:
            return (want, self.default_value(want, n, B))
        if k == "CXXConstructExpr":
            kk = self.node_kind(n)
            args = [a for a in n.get("inner", []) if a.get("kind") != "CXXDefaultArgExpr"]
            if not args:
                return (kk, self.default_value(kk, n, B))
            if len(args) == 1 and peel_casts(args[0], ("NoOp", "NullToPointer")).get("kind") == "CXXNullPtrLiteralExpr" and kk[0] in ("optr", "pktptr"):
                return (kk, "none")
            if kk[0] in ("obj", "prec"):
                cls = X.record(strip_cv(n["type"].get("desugaredQualType") or n["type"].get("qualType")))
                ctor = X.find_ctor(cls, n.get("ctorType", {}).get("qualType", ""))
                g = X.value_fn(ctor)
                r = self.fresh()
                B.append("let %s ← %s" % (r, self.lib_call_text(g, args, B)))
                return (kk, r)
            raise Untranslatable("construction of %s" % (kk,))
        if k == "CallExpr":
            c = self.strip_casts(n["inner"][0])
            nm = c.get("referencedDecl", {}).get("name")
            args = n["inner"][1:]
            if nm == "make_shared":
                kk = self.node_kind(n)
                if kk[0] == "pktptr" and not args:
                    return (kk, "(some TPacket_new)")
                if kk[0] == "optr" and len(args) == 1:
                    ak, av = self.vex(args[0], B)
                    if ak != ("obj", kk[1]):
                        raise Untranslatable("make_shared argument")
                    if not X.copy_memberwise(kk[1]):
                        raise Untranslatable("user-provided copy constructor of " + kk[1])
                    return (kk, "(some %s)" % av)      # slicing copy: the root class's members
                raise Untranslatable("make_shared shape")
            if nm == "to_string" and len(args) == 1 and c.get("referencedDecl", {}).get("kind") == "FunctionDecl" and c["referencedDecl"]["id"] not in self.tu.nodes:
                t = self.ty(args[0])
                v = self.ex(args[0], B)
                if t[0] != "i":
                    raise Untranslatable("to_string of a non-integer")
                return (("str",), "(decimal %s)" % v if not t[2] else "(toStringInt %d %s)" % (t[1], v))
            if c.get("kind") == "DeclRefExpr" and c["referencedDecl"]["id"] in self.tu.nodes:
                g = X.value_fn(self.T.definition(c["referencedDecl"]["id"]))
                return (g.ret, self.lib_call(g, args, B))
            raise Untranslatable("call of " + str(nm))
        if k == "CXXMemberCallExpr":
            me = peel_casts(n["inner"][0])
            if me.get("kind") == "MemberExpr":
                nm = me.get("name")
                if nm == "get" and len(n["inner"]) == 1:
                    bk, bv = self.vex(me["inner"][0], B)
                    if bk[0] == "optr":
                        return (bk, bv)
                if nm == "str" and len(n["inner"]) == 1:
                    bk, bv = self.vex(me["inner"][0], B)
                    if bk[0] == "sstream":
                        return (("str",), bv)
                if nm == "operator basic_string_view" and len(n["inner"]) == 1:
                    bk, bv = self.vex(me["inner"][0], B)
                    if bk[0] == "str":
                        return (("str",), bv)
            kk = self.node_kind(n)
            r = self.member_call(n, B, True)
            if isinstance(r, tuple) or r is None:
                raise Untranslatable("member call used as an object value")
            return (kk, r)
        if k == "CXXOperatorCallExpr":
            raise Untranslatable("overloaded operator yielding an object")
        raise Untranslatable("expression %s of class type" % k)

    # ================================================================== scalar expressions
    def is_null(self, x):
        return self.strip_casts(x).get("kind") == "CXXNullPtrLiteralExpr" or x.get("castKind") == "NullToPointer"

    def ex(self, n, B):
        k = n.get("kind")
        if k in WRAPPERS:
            return self.ex(n["inner"][0], B)
        if k == "BinaryOperator" and n.get("opcode") in ("==", "!=") and any(self.is_null(x) for x in n["inner"]):
            other = [x for x in n["inner"] if not self.is_null(x)]
            if len(other) != 1:
                raise Untranslatable("comparison of null pointers")
            try:
                ok = self.node_kind(other[0])
            except Untranslatable:
                ok = ("?",)
            if ok[0] in ("optr", "pktptr"):
                return "(%s).%s" % (self.vex(other[0], B)[1], "isNone" if n["opcode"] == "==" else "isSome")
            return "(%s %s 0)" % (self.ex(other[0], B), n["opcode"])
        if k == "ImplicitCastExpr" and n.get("castKind") == "UserDefinedConversion":
            c = peel_casts(n["inner"][0])
            if c.get("kind") == "CXXMemberCallExpr":
                me = peel_casts(c["inner"][0])
                if me.get("kind") == "MemberExpr" and me.get("name") == "operator bool":
                    bk, bv = self.vex(me["inner"][0], B)
                    if bk[0] in ("optr", "pktptr"):
                        return "(%s).isSome" % bv
            raise Untranslatable("user-defined conversion")
        if k == "DeclRefExpr" or (k == "ImplicitCastExpr" and n.get("castKind") == "LValueToRValue"):
            x = peel_casts(n, ("LValueToRValue",))
            if x.get("kind") == "DeclRefExpr":
                did = x["referencedDecl"]["id"]
                if did in self.uninit:
                    raise Untranslatable("read of the uninitialised local " + self.uninit[did][0])
                rd = x["referencedDecl"]
                if did not in self.locals and did not in self.tu.nodes and rd.get("kind") == "VarDecl" and "const" in rd.get("type", {}).get("qualType", ""):
                    v = self.X.file_const(rd.get("name"))
                    if v is None:
                        raise Untranslatable("constant %s outside the library without a literal initialiser" % rd.get("name"))
                    return self.lit(v, self.ty(x))
            if x.get("kind") == "UnaryOperator" and x.get("opcode") == "*":
                y = peel_casts(x["inner"][0], ("LValueToRValue",))
                if y.get("kind") == "DeclRefExpr" and y["referencedDecl"]["id"] in self.outp:
                    o = self.outp[y["referencedDecl"]["id"]]
                    if not o[1]:
                        raise Untranslatable("out-parameter read before it is written")
                    return o[0]
        if k == "ImplicitCastExpr" and n.get("castKind") == "IntegralCast":
            x = peel_casts(n["inner"][0], ())
            if x.get("kind") == "DeclRefExpr" and x.get("referencedDecl", {}).get("kind") == "EnumConstantDecl" and x["referencedDecl"]["id"] in self.tu.nodes:
                t = self.ty(n)
                if t[0] == "i":
                    return self.lit(self.enum_value(self.tu.decl(x["referencedDecl"]["id"])) % 2 ** t[1], t)
        if self.mode == "value":
            if k == "CXXMemberCallExpr":
                r = self.member_call(n, B, True)
                if isinstance(r, tuple):
                    raise Untranslatable("pointer into a payload object used as a value")
                return r
            if k == "CXXOperatorCallExpr":
                c = self.strip_casts(n["inner"][0])
                if c.get("kind") == "DeclRefExpr" and c["referencedDecl"]["id"] in self.tu.nodes:
                    g = self.X.value_fn(self.T.definition(c["referencedDecl"]["id"]))
                    return self.lib_call(g, n["inner"][1:], B)
                raise Untranslatable("overloaded operator")
            if k == "CallExpr":
                c = self.strip_casts(n["inner"][0])
                if c.get("kind") == "DeclRefExpr" and c["referencedDecl"]["id"] in self.tu.nodes:
                    d = self.T.definition(c["referencedDecl"]["id"])
                    try:
                        f = self.X.shallow(d)
                        if not f.has_this and not f.uses_pd:
                            return FnTr.ex(self, n, B)          # a pure / memory-reading static function of the shallow fragment
                    except Untranslatable:
                        pass
                    g = self.X.value_fn(d)
                    return self.lib_call(g, n["inner"][1:], B)
        return FnTr.ex(self, n, B)

    # ================================================================== receivers of member calls
    def receiver(self, base, arrow):
        b = peel_casts(base)
        k = b.get("kind")
        if k == "DeclRefExpr" and b["referencedDecl"]["id"] in self.vals:
            did = b["referencedDecl"]["id"]
            kk = tuple(self.vals[did][0])
            if kk[0] in ("rec", "obj", "prec") and not arrow:
                return (kk[0], did)
            if kk[0] == "optr" and arrow:
                return ("optr", did)
            if not arrow:
                return ("std", did)
        if k == "CXXOperatorCallExpr" and self.strip_casts(b["inner"][0]).get("referencedDecl", {}).get("name") == "operator->" and arrow:
            x = peel_casts(b["inner"][1])
            if x.get("kind") == "DeclRefExpr" and x["referencedDecl"]["id"] in self.vals:
                did = x["referencedDecl"]["id"]
                kk = self.vals[did][0]
                if kk[0] == "optr":
                    return ("optr", did)
                if kk[0] == "pktptr":
                    return ("pkt", did)
        if k == "CXXThisExpr" and arrow and self.self_root:
            return ("self", None)
        if k == "MemberExpr" and self.self_root and peel_casts(b["inner"][0]).get("kind") == "CXXThisExpr" and not arrow:
            for nm, fk, rq, sz, fd in self.X.root_fields(self.self_root):
                if nm == b.get("name") and fk == "prec":
                    return ("precterm", ("s.f_%s" % nm, sz))
        raise Untranslatable("receiver of a member call: " + str(k))

    def is_virtual(self, did):
        seen = set()
        while did and did not in seen:
            seen.add(did)
            nxt = None
            for c in self.tu.nodes.get(did, []):
                if c.get("virtual") or c.get("pure"):
                    return True
                nxt = c.get("previousDecl") or nxt
            did = nxt
        return False

    def callee_def(self, me):
        return self.T.definition(me["referencedMemberDecl"])

    def member_call(self, n, B, want_value):
        """member call in value mode; returns the Lean term of the result (None for void)"""
        X = self.X
        me = peel_casts(n["inner"][0])
        if me.get("kind") != "MemberExpr":
            raise Untranslatable("member call shape")
        args = n["inner"][1:]
        name = me.get("name")
        R = self.receiver(me["inner"][0], bool(me.get("isArrow")))
        tag = R[0]
        if tag == "std":
            kk, nm = self.use_val(R[1])
            if kk[0] in ("olist", "pktlist") and not args:
                if name == "empty":
                    return "(%s).isEmpty" % nm
                if name == "size":
                    return "(%s).length" % nm
            raise Untranslatable("method %s of %s" % (name, kk[0]))
        if tag == "pkt":
            return self.packet_call(R[1], name, me, args, B)
        d = self.callee_def(me)
        ctx = self.tu.context(d)
        dq = self.tu.qualname(ctx) if ctx is not None else ""
        if tag in ("rec", "prec", "precterm"):
            f = X.shallow(d)
            if not f.has_this or f.uses_pd or f.outs or f.resizes:
                raise Untranslatable("callee shape")
            argv = [self.ex(a, B) for a in args]
            if len(argv) != len(f.params) - 1:
                raise Untranslatable("argument count")
            if tag == "rec":
                kk, nm = self.use_val(R[1], mutate=f.writes)
                mem = nm
            else:
                if f.writes:
                    raise Untranslatable("mutation of a one-scalar record object")
                term, sz = (self.vals[R[1]][1], self.vals[R[1]][0][2]) if tag == "prec" else R[1]
                mem = "(leEnc %d %s)" % (sz, term)
            callc = " ".join([f.lean] + ([mem] if f.uses_mem else []) + ["0"] + argv)
            if f.writes:
                if f.ret[0] != "v":
                    raise Untranslatable("writing callee with a result")
                B.append("let %s ← %s" % (nm, callc))
                return None
            if f.ret[0] == "v":
                B.append("let _ ← %s" % callc)
                return None
            t = self.fresh()
            B.append("let %s ← %s" % (t, callc))
            return t
        # ---- a payload object: local object, pointee of a (smart) pointer, or `this`
        if self.is_virtual(me["referencedMemberDecl"]) or self.is_virtual(d.get("id")):
            raise Untranslatable("virtual method called on a payload object (its dynamic class is not modelled)")
        root = X.payload_root(dq) if X.record(dq) else None
        if tag == "self":
            obj = "s"
            oroot = self.self_root
        elif tag == "obj":
            kk, obj = self.use_val(R[1])
            oroot = kk[1]
        else:
            kk, nm = self.use_val(R[1])
            oroot = kk[1]
            obj = self.fresh("o")
            B.append("let %s ← %s" % (obj, nm))       # dereference: a null pointer is undefined behaviour
        if root is None or root != oroot:
            raise Untranslatable("method of %s on an object of the %s hierarchy" % (dq, oroot))
        how = X.method_strategy(d)
        if how == "value":
            g = X.value_fn(d)
            return self.lib_call(g, args, B, self_term=obj)
        f = X.shallow(d)
        if f.outs:
            raise Untranslatable("callee shape")
        ps = [p for p in f.params if p[0] != "this_"]
        if len(ps) != len(args):
            raise Untranslatable("argument count")
        argv = [self.ext_arg(a, pt, B) if pt[0] == "ext" else self.ex(a, B) for (pn, pt), a in zip(ps, args)]
        bytes_ = "%s.f_payloadData" % obj
        pl = [f.lean]
        is_ptr = f.ret[0] == "p"
        if f.resizes:
            pl += [bytes_]
        else:
            if f.uses_mem:
                if is_ptr:
                    raise Untranslatable("pointer-returning method that reads memory")
                pl.append(bytes_)
            if f.uses_pd:
                pl += ["objBase" if is_ptr else "0", "%s.length" % bytes_]
        if f.has_this:
            pl.append("0")
        callc = " ".join(pl + argv)
        if f.writes:
            if tag == "optr" or (tag == "obj" and (R[1] in self.readonly)):
                raise Untranslatable("mutation of an object through a pointer / reference parameter")
            if tag == "self":
                raise Untranslatable("mutation of `this` in value mode")
            t = self.fresh()
            r = None
            if f.ret[0] == "v":
                B.append("let %s ← %s" % (t, callc))
            else:
                r = self.fresh()
                B.append("let (%s, %s) ← %s" % (t, r, callc))
            B.append("let %s := { %s with f_payloadData := %s }" % (obj, obj, t))
            return r
        if f.ret[0] == "v":
            B.append("let _ ← %s" % callc)
            return None
        t = self.fresh()
        B.append("let %s ← %s" % (t, callc))
        if is_ptr:
            return ("PTR", bytes_, t)
        return t

    def packet_call(self, did, name, me, args, B):
        """`packet->method(args)` on a std::shared_ptr<Packet>: the scalar members through the object-mode translation of `Packet`
        (GeneratedSrcObj.lean), the payload through the seam"""
        d = self.callee_def(me)
        const = d.get("type", {}).get("qualType", "").rstrip().endswith("const")
        kk, nm = self.use_val(did, mutate=not const)
        p = self.fresh("p")
        B.append("let %s ← %s" % (p, nm))
        if name == "setPayload" and len(args) == 1:
            ak, av = self.vex(args[0], B)
            if ak != ("obj", AROOT):
                raise Untranslatable("setPayload argument")
            if not self.X.copy_memberwise(AROOT):
                raise Untranslatable("user-provided copy constructor of " + AROOT)
            B.append("let %s := some (TPacket_setPayload %s %s)" % (nm, p, av))
            return None
        if name == "isValid" and not args:
            t = self.fresh()
            B.append("let %s ← TPacket_isValid %s" % (t, p))
            return t
        g = self.X.PK.translate(d)
        if g.uses_mem or getattr(g, "has_fuel", False) or getattr(g, "opaque", None) or getattr(g, "ext_fns", None) or getattr(g, "outbuf", False):
            raise Untranslatable("packet method " + name)
        if any(t[0] not in ("i", "b") for _, t in g.params) or len(g.params) != len(args):
            raise Untranslatable("packet method " + name)
        argv = [self.ex(a, B) for a in args]
        h, t = self.fresh("h"), self.fresh()
        B.append("let (%s, %s) ← %s_obj %s.hdr %s" % (h, t, g.lean, p, " ".join(argv)))
        if not const:
            B.append("let %s := some { %s with hdr := %s }" % (nm, p, h))
        return None if g.ret[0] == "v" else t

    # ================================================================== arguments that are external buffers
    def ext_arg(self, a, pt, B):
        x = a
        while x.get("kind") in WRAPPERS or (x.get("kind") == "ImplicitCastExpr" and x.get("castKind") in ("NoOp", "ConstructorConversion", "UserDefinedConversion")):
            x = x["inner"][0]
        if pt[1] == "p":
            if x.get("kind") == "CXXMemberCallExpr" and self.mode == "value":
                r = self.member_call(x, B, True)
                if isinstance(r, tuple) and r[0] == "PTR":
                    return "(ptrBytes %s %s)" % (r[1], r[2])
                p = r
            else:
                p = self.ex(a, B)
            if isinstance(p, tuple):
                raise Untranslatable("pointer into an object")
            self.fn.uses_mem = True
            return "(m.drop %s)" % p
        if pt[1] == "sv":
            if x.get("kind") == "CXXConstructExpr" and len(x.get("inner", [])) == 1:
                y = x["inner"][0]
                if y.get("castKind") == "ArrayToPointerDecay" and y["inner"][0].get("kind") == "StringLiteral":
                    return self.string_literal(y["inner"][0])
            k, v = self.vex(x, B)
            if k[0] == "str":
                return v
            raise Untranslatable("string_view argument")
        if pt[1] == "vec":
            k, v = self.vex(a, B)
            if k[0] == "bytesvec":
                return v
        raise Untranslatable("argument for an external buffer parameter")

    @staticmethod
    def string_literal(n):
        v = n.get("value", "")
        if len(v) < 2 or v[0] != '"' or v[-1] != '"' or "\\" in v or not all(32 <= ord(c) < 127 for c in v):
            raise Untranslatable("string literal outside printable ASCII without escapes")
        return "([%s] : Bytes)" % ", ".join(str(ord(c)) for c in v[1:-1])

    # ================================================================== calls of value-mode functions
    def lib_call_text(self, g, args, B, self_term=None):
        sig = list(g.sig)
        argv, outs = [], []
        if self_term is not None:
            if not sig or sig[0][1] != "s":
                raise Untranslatable("callee is not a method")
            argv.append(self_term)
            sig = sig[1:]
        elif sig and sig[0][1] == "s":
            raise Untranslatable("method without object")
        if len(sig) != len(args):
            raise Untranslatable("argument count")
        for (io, pn, pk), a in zip(sig, args):
            if a.get("kind") == "CXXDefaultArgExpr":
                raise Untranslatable("default argument")
            if io == "out":
                x = peel_casts(a)
                if x.get("kind") == "UnaryOperator" and x.get("opcode") == "&":
                    y = peel_casts(x["inner"][0])
                    if y.get("kind") == "DeclRefExpr":
                        did = y["referencedDecl"]["id"]
                        if did in self.uninit:
                            outs.append((did, self.uninit[did][0]))
                            continue
                        if did in self.locals:
                            outs.append((did, self.locals[did]))
                            continue
                raise Untranslatable("argument for an out-parameter")
            if pk[0] in ("i", "b", "p"):
                argv.append(self.ex(a, B))
            else:
                ak, av = self.vex(a, B, want=pk)
                if tuple(ak) != tuple(pk):
                    raise Untranslatable("argument kind %s for %s" % (ak, pk))
                argv.append(paren(av))
                if pk[0] == "pktptr":
                    y = peel_casts(a)
                    while y.get("kind") == "CXXConstructExpr" and len(y.get("inner", [])) == 1:
                        y = peel_casts(y["inner"][0])
                    if y.get("kind") == "DeclRefExpr" and y["referencedDecl"]["id"] in self.vals:
                        self.dead.add(y["referencedDecl"]["id"])       # the callee holds an alias from now on
        pre = []
        if g.has_fuel:
            self.has_fuel = True
            pre.append("fuel")
        if g.uses_mem:
            self.fn.uses_mem = True
            pre.append("m")
        self._pending_outs = outs
        return " ".join([g.lean] + pre + argv)

    def lib_call(self, g, args, B, self_term=None):
        callc = self.lib_call_text(g, args, B, self_term)
        outs = self._pending_outs
        if g.ret[0] == "v" and not outs:
            B.append("let _ ← %s" % callc)
            return None
        r = self.fresh()
        pat = r if g.ret[0] != "v" else "_"
        for did, nm in outs:
            pat = "(%s, %s)" % (pat, nm)
        B.append("let %s ← %s" % (pat, callc))
        for did, nm in outs:
            if did in self.uninit:
                k = self.uninit.pop(did)[1]
                self.locals[did] = nm
                self.local_ty[nm] = lean_ty(k)
        return r if g.ret[0] != "v" else None

    # ================================================================== effects
    def effect(self, s, B):
        k = s.get("kind")
        if k in WRAPPERS:
            return self.effect(s["inner"][0], B)
        if k == "CallExpr" and self.strip_casts(s["inner"][0]).get("referencedDecl", {}).get("name") == "memcpy" and len(s["inner"]) == 4:
            if self.memcpy(s, B):
                return
        if k == "CXXOperatorCallExpr" and self.sstream_chain(s, B):
            return
        if self.mode == "shallow":
            return FnTr.effect(self, s, B)
        if k == "BinaryOperator" and s.get("opcode") == "=":
            l, r = s["inner"]
            lx = peel_casts(l, ())
            if lx.get("kind") == "UnaryOperator" and lx.get("opcode") == "*":
                y = peel_casts(lx["inner"][0], ("LValueToRValue",))
                if y.get("kind") == "DeclRefExpr" and y["referencedDecl"]["id"] in self.outp:
                    o = self.outp[y["referencedDecl"]["id"]]
                    if not o[1] and self.depth != 0:
                        raise Untranslatable("first write of an out-parameter inside a branch")
                    v = self.ex(r, B)
                    B.append("let %s := %s" % (o[0], v))
                    o[1] = True
                    return
            if lx.get("kind") == "DeclRefExpr" and lx["referencedDecl"]["id"] in self.uninit:
                if self.depth != 0:
                    raise Untranslatable("first write of an uninitialised local inside a branch")
                did = lx["referencedDecl"]["id"]
                nm, kk = self.uninit.pop(did)
                v = self.ex(r, B)
                B.append("let %s := %s" % (nm, v))
                self.locals[did] = nm
                self.local_ty[nm] = lean_ty(kk)
                return
        if k == "CXXOperatorCallExpr":
            c = self.strip_casts(s["inner"][0])
            if c.get("referencedDecl", {}).get("name") == "operator=" and len(s["inner"]) == 3 and c["referencedDecl"]["id"] not in self.tu.nodes:
                lx = peel_casts(s["inner"][1])
                if lx.get("kind") == "DeclRefExpr" and lx["referencedDecl"]["id"] in self.vals:
                    did = lx["referencedDecl"]["id"]
                    kk, nm = self.use_val(did, mutate=True)
                    if kk[0] not in ("olist", "pktlist", "optr", "pktptr", "str"):
                        raise Untranslatable("assignment to an object of kind " + kk[0])
                    rk, rv = self.vex(s["inner"][2], B, want=tuple(kk))
                    if tuple(rk) != tuple(kk):
                        raise Untranslatable("assignment between different kinds")
                    B.append("let %s := %s" % (nm, rv))
                    self.frozen.discard(did)
                    return
            raise Untranslatable("overloaded operator")
        if k == "CXXMemberCallExpr":
            me = peel_casts(s["inner"][0])
            if me.get("kind") == "MemberExpr" and me.get("name") == "push_back" and len(s["inner"]) == 2:
                b = peel_casts(me["inner"][0])
                if b.get("kind") == "DeclRefExpr" and b["referencedDecl"]["id"] in self.vals:
                    kk, nm = self.use_val(b["referencedDecl"]["id"], mutate=True)
                    if kk[0] in ("olist", "pktlist"):
                        ek = ("optr", kk[1]) if kk[0] == "olist" else ("pktptr",)
                        ak, av = self.vex(s["inner"][1], B, want=ek)
                        if tuple(ak) != ek:
                            raise Untranslatable("push_back argument")
                        B.append("let %s := %s ++ [%s]" % (nm, nm, av))
                        y = peel_casts(s["inner"][1])
                        if ek[0] == "pktptr" and y.get("kind") == "DeclRefExpr" and y["referencedDecl"]["id"] in self.vals:
                            self.frozen.add(y["referencedDecl"]["id"])
                        return
            r = self.member_call(s, B, False)
            return
        if k == "CallExpr":
            c = self.strip_casts(s["inner"][0])
            if c.get("kind") == "DeclRefExpr" and c["referencedDecl"]["id"] in self.tu.nodes:
                self.ex(s, B)
                return
        return FnTr.effect(self, s, B)

    def memcpy(self, s, B):
        """the memcpy shapes outside the shallow fragment; True if handled"""
        dst = peel_casts(s["inner"][1], ("BitCast", "NoOp"))
        if dst.get("kind") == "UnaryOperator" and dst.get("opcode") == "&":
            t = peel_casts(dst["inner"][0], ())
            if t.get("kind") == "DeclRefExpr":
                did = t["referencedDecl"]["id"]
                if did in self.locals and did not in self.ext:
                    ct = self.ty(t)
                    if ct[0] != "i":
                        raise Untranslatable("memcpy into a non-integer local")
                    src = self.ex(s["inner"][2], B)
                    cnt = self.ex(s["inner"][3], B)
                    self.fn.uses_mem = True
                    B.append("let %s ← cpyToScalar %d %s m %s %s" % (self.locals[did], ct[1] // 8, self.locals[did], src, cnt))
                    return True
                if self.mode == "value" and did in self.vals and self.vals[did][0][0] == "rec":
                    kk, nm = self.use_val(did, mutate=True)
                    src = self.ex(s["inner"][2], B)
                    cnt = self.ex(s["inner"][3], B)
                    self.fn.uses_mem = True
                    B.append("let %s ← wrBytes %s 0 (m.drop %s) %s" % (nm, nm, src, cnt))
                    return True
        if self.mode == "value" and self.self_root and dst.get("kind") == "CXXMemberCallExpr" and len(dst["inner"]) == 1:
            me = peel_casts(dst["inner"][0])
            if me.get("kind") == "MemberExpr" and me.get("name") == "data":
                b = peel_casts(me["inner"][0])
                if b.get("kind") == "MemberExpr" and b.get("name") == "payloadData" and peel_casts(b["inner"][0]).get("kind") == "CXXThisExpr":
                    if not self.is_ctor:
                        raise Untranslatable("mutation of `this` in value mode")
                    src = self.ex(s["inner"][2], B)
                    cnt = self.ex(s["inner"][3], B)
                    self.fn.uses_mem = True
                    t = self.fresh()
                    B.append("let %s ← wrBytes s.f_payloadData 0 (m.drop %s) %s" % (t, src, cnt))
                    B.append("let s := { s with f_payloadData := %s }" % t)
                    return True
        return False

    def sstream_chain(self, s, B):
        """`ss << a << b << …` on a local std::stringstream: the operands are appended in order"""
        ops = []
        x = s
        while True:
            x = peel_casts(x)
            if x.get("kind") == "CXXOperatorCallExpr" and self.strip_casts(x["inner"][0]).get("referencedDecl", {}).get("name") == "operator<<" and len(x["inner"]) == 3:
                ops.append(x["inner"][2])
                x = x["inner"][1]
                continue
            break
        if not ops or x.get("kind") != "DeclRefExpr" or x["referencedDecl"]["id"] not in self.vals or self.vals[x["referencedDecl"]["id"]][0][0] != "sstream":
            return False
        kk, nm = self.use_val(x["referencedDecl"]["id"], mutate=True)
        for o in reversed(ops):
            y = o
            while y.get("kind") in WRAPPERS or (y.get("kind") == "ImplicitCastExpr" and y.get("castKind") == "NoOp"):
                y = y["inner"][0]
            if y.get("castKind") == "ArrayToPointerDecay" and y["inner"][0].get("kind") == "StringLiteral":
                v = self.string_literal(y["inner"][0])
            else:
                k2, v = self.vex(o, B)
                if k2[0] != "str":
                    raise Untranslatable("operand of operator<<")
            B.append("let %s := %s ++ %s" % (nm, nm, v))
        return True

    # ================================================================== statements
    def stmt(self, s, k, ind):
        kind = s.get("kind")
        pad = "  " * ind
        if kind == "DeclStmt":
            r = self.decl_stmt(s, k, ind)
            if r is not None:
                return r
        if self.mode == "shallow":
            if kind == "ReturnStmt" and s.get("inner") and self.fn.ret[0] == "str":
                B = []
                kk, v = self.vex(s["inner"][0], B, returning=True)
                if kk[0] != "str":
                    raise Untranslatable("returned value")
                return self.with_binds(B, self.ret_code_v(v, ind), ind)
            return FnTr.stmt(self, s, k, ind)
        if kind == "CompoundStmt":
            return self.block(s.get("inner", []), k, ind)
        if kind == "WhileStmt":
            return self.while_stmt(s, k, ind)
        if kind == "CXXForRangeStmt":
            return self.range_for(s, k, ind)
        if kind == "IfStmt":
            inner = s["inner"]
            if s.get("hasInit") or s.get("hasVar"):
                raise Untranslatable("if with initialiser")
            B = []
            c = self.cond(inner[0], B)
            snap = self.snapshot()
            self.depth += 1
            th = self.stmt(inner[1], k, ind + 1)
            self.restore(snap)
            el = self.stmt(inner[2], k, ind + 1) if len(inner) > 2 else k(ind + 1)
            self.restore(snap)
            self.depth -= 1
            return self.with_binds(B, "%sif %s then\n%s\n%selse\n%s" % (pad, c, th, pad, el), ind)
        if kind == "SwitchStmt":
            self.depth += 1
            snap = self.snapshot()
            r = self.switch_stmt(s, k, ind)
            self.restore(snap)
            self.depth -= 1
            return r
        if kind == "ReturnStmt" and s.get("inner"):
            rk = self.fn.ret
            B = []
            if rk[0] in ("i", "b", "p"):
                v = self.ex(s["inner"][0], B)
                if isinstance(v, tuple):
                    raise Untranslatable("pointer into a payload object returned")
            else:
                kk, v = self.vex(s["inner"][0], B, want=rk, returning=True)
                if tuple(kk) != tuple(rk):
                    raise Untranslatable("returned kind %s for %s" % (kk, rk))
            return self.with_binds(B, self.ret_code_v(v, ind), ind)
        return FnTr.stmt(self, s, k, ind)

    def decl_stmt(self, s, k, ind):
        """declarations of non-scalar locals (None: leave it to the shallow translator)"""
        B = []
        handled = False
        for d in s.get("inner", []):
            if d.get("kind") != "VarDecl":
                raise Untranslatable("declaration of " + str(d.get("kind")))
            init = [c for c in d.get("inner", []) if c.get("kind") not in ("FullComment",)]
            try:
                kk = self.X.kind(d.get("type"))
            except Untranslatable:
                if self.mode == "shallow" and not handled:
                    return None
                raise
            nm = self.vname(d["name"])
            if kk[0] in ("i", "b", "p"):
                if self.mode == "shallow" and not handled:
                    return None
                if not init:
                    self.uninit[d["id"]] = [nm, kk]          # bound by its first assignment / as an out-argument
                    handled = True
                    continue
                v = self.ex(init[0], B)
                if isinstance(v, tuple):
                    raise Untranslatable("pointer into a payload object stored in a local")
                self.locals[d["id"]] = nm
                self.local_ty[nm] = lean_ty(kk)
                B.append("let %s := %s" % (nm, v))
                handled = True
                continue
            handled = True
            if self.mode == "shallow" and kk[0] not in ("str", "sstream"):
                raise Untranslatable("local of kind " + kk[0])
            if kk[0] == "pp":
                raise Untranslatable("local pointer to pointer")
            if not init:
                raise Untranslatable("uninitialised local " + d["name"])
            rk, v = self.vex(init[0], B, want=kk)
            if tuple(rk) != tuple(kk):
                raise Untranslatable("initialiser kind %s for %s" % (rk, kk))
            qt = d.get("type", {}).get("qualType", "")
            self.vals[d["id"]] = [kk, nm]
            self.local_ty[nm] = lean_ty(kk)
            if qt.strip().endswith("&"):
                self.readonly.add(d["id"])
            y = peel_casts(init[0])
            if kk[0] == "pktptr" and y.get("kind") == "DeclRefExpr":
                raise Untranslatable("second name for a shared packet")
            B.append("let %s := %s" % (nm, v))
        return self.with_binds(B, k(ind), ind)

    # ------------------------------------------------------------------ loops
    def mutated(self, body, did):
        """is the non-scalar local `did` (possibly) changed by `body`"""
        hit = [False]

        def walk(n, chain):
            if not isinstance(n, dict) or hit[0]:
                return
            if n.get("kind") == "DeclRefExpr" and n.get("referencedDecl", {}).get("id") == did:
                i = len(chain) - 1
                while i >= 0 and (chain[i].get("kind") in WRAPPERS or (chain[i].get("kind") == "ImplicitCastExpr" and chain[i].get("castKind") in ("NoOp", "DerivedToBase", "UncheckedDerivedToBase", "LValueToRValue"))):
                    i -= 1
                par = chain[i] if i >= 0 else {}
                child = chain[i + 1] if i + 1 < len(chain) else n
                pk = par.get("kind")
                if pk == "MemberExpr":
                    gp = chain[i - 1] if i >= 1 else {}
                    if par.get("referencedMemberDecl") in self.tu.nodes:
                        d = self.tu.decl(par["referencedMemberDecl"])
                        if not d.get("type", {}).get("qualType", "").rstrip().endswith("const"):
                            hit[0] = True
                    elif par.get("name") not in NONMUT_STD:
                        hit[0] = True
                elif pk == "CXXOperatorCallExpr":
                    nm = self.strip_casts(par["inner"][0]).get("referencedDecl", {}).get("name")
                    if par["inner"][1] is child and nm in ("operator=", "operator<<", "operator+="):
                        hit[0] = True
                    elif nm == "operator->" and par["inner"][1] is child:
                        gp = chain[i - 1] if i >= 1 else {}
                        j = i - 1
                        while j >= 0 and chain[j].get("kind") in ("ImplicitCastExpr", "ParenExpr"):
                            j -= 1
                        gp = chain[j] if j >= 0 else {}
                        if gp.get("kind") == "MemberExpr" and gp.get("referencedMemberDecl") in self.tu.nodes:
                            d = self.tu.decl(gp["referencedMemberDecl"])
                            if not d.get("type", {}).get("qualType", "").rstrip().endswith("const"):
                                hit[0] = True
                        else:
                            hit[0] = True
                elif pk == "UnaryOperator" and par.get("opcode") == "&":
                    hit[0] = True
                elif pk == "CallExpr" and self.strip_casts(par["inner"][0]).get("referencedDecl", {}).get("name") == "memcpy":
                    hit[0] = True
                elif pk in ("CallExpr", "CXXConstructExpr", "CXXMemberCallExpr"):
                    # passed on: by value / const reference (copy) is harmless; a shared packet pointer handed on may be changed by the callee
                    if tuple(self.vals[did][0])[0] == "pktptr":
                        hit[0] = True
            for c in n.get("inner", []):
                walk(c, chain + [n])
        walk(body, [])
        return hit[0]

    def loop_vars(self, body):
        live = list(self.local_ty.items())
        sdid = {v: kk for kk, v in self.locals.items()}
        vdid = {v[1]: kk for kk, v in self.vals.items()}
        assigned = []
        for nm, _ in live:
            if nm in sdid and self.assigns(body, sdid[nm]):
                assigned.append(nm)
            elif nm in vdid and self.mutated(body, vdid[nm]):
                if vdid[nm] in self.readonly:
                    raise Untranslatable("mutation of a reference parameter in a loop")
                assigned.append(nm)
            elif nm == "s" and self.contains(body, ("CXXThisExpr",)):
                raise Untranslatable("`this` inside a loop")
        return live, assigned

    def loop_tail(self, assigned):
        return "(%s)" % ", ".join(assigned) if len(assigned) != 1 else assigned[0]

    def while_stmt(self, s, k, ind):
        cond, body = s["inner"][0], s["inner"][1]
        if self.contains(body, ("ContinueStmt", "ReturnStmt", "BreakStmt")):
            raise Untranslatable("continue / return / break inside a loop")
        for o in self.outp.values():
            if not o[1]:
                raise Untranslatable("loop before the out-parameters are written")
        self.has_fuel = True
        self.nloops += 1
        name = "%s_loop%d" % (self.X.base_name(self.node), self.nloops)
        live, assigned = self.loop_vars(body)
        if not assigned:
            raise Untranslatable("loop that changes nothing")
        tyd = dict(live)
        tup = self.loop_tail(assigned)
        ret_ty = " × ".join(paren(tyd[a]) for a in assigned)
        args = " ".join(nm for nm, _ in live)
        params = " ".join("(%s : %s)" % (nm, ty) for nm, ty in live)
        B = []
        snap = self.snapshot()
        self.depth += 1
        c = self.cond(cond, B)
        body_code = self.stmt(body, lambda i2: "  " * i2 + "%s fuel ⟪M⟫%s" % (name, args), 3)
        self.depth -= 1
        self.restore(snap)
        mem = bool(self.fn.uses_mem)
        body_code = body_code.replace("⟪M⟫", "m " if mem else "")
        if mem:
            params, args = "(m : Bytes) " + params, "m " + args
        code = ["def %s (fuel : Nat) %s : Option (%s) :=" % (name, params, ret_ty), "  match fuel with", "  | 0 => none", "  | fuel + 1 => do"]
        code += ["    " + b for b in B]
        code += ["    if %s then" % c, body_code, "    else", "      pure %s" % tup]
        self.aux.append("\n".join(code) + "\n")
        return "  " * ind + "let %s ← %s fuel %s\n" % (tup, name, args) + k(ind)

    def range_for(self, s, k, ind):
        """`for (const auto& x : vec)` over a vector of pointers: structural recursion over the list"""
        inner = s["inner"]
        if len(inner) != 8 or (inner[0] and inner[0].get("kind")):
            raise Untranslatable("range-for shape")
        try:
            rng = inner[1]["inner"][0]
            src = peel_casts(rng["inner"][0])
            var = inner[6]["inner"][0]
            body = inner[7]
            assert src["kind"] == "DeclRefExpr" and src["referencedDecl"]["id"] in self.vals
            deref = peel_casts(var["inner"][0])
            assert deref["kind"] == "CXXOperatorCallExpr" and self.strip_casts(deref["inner"][0])["referencedDecl"]["name"] == "operator*"
        except (AssertionError, KeyError, IndexError, TypeError):
            raise Untranslatable("range-for shape")
        lk, lname = self.use_val(src["referencedDecl"]["id"])
        if lk[0] not in ("olist", "pktlist"):
            raise Untranslatable("range-for over " + lk[0])
        ek = ("optr", lk[1]) if lk[0] == "olist" else ("pktptr",)
        if self.X.kind(var.get("type")) != ek or not var.get("type", {}).get("qualType", "").replace(" ", "").endswith("const&"):
            raise Untranslatable("range-for variable that is not a const reference to the element")
        if self.contains(body, ("ContinueStmt", "ReturnStmt", "BreakStmt")):
            raise Untranslatable("continue / return / break inside a loop")
        if self.mutated(body, src["referencedDecl"]["id"]):
            raise Untranslatable("the vector changes inside its range-for")
        for o in self.outp.values():
            if not o[1]:
                raise Untranslatable("loop before the out-parameters are written")
        self.nloops += 1
        name = "%s_loop%d" % (self.X.base_name(self.node), self.nloops)
        live, assigned = self.loop_vars(body)
        if not assigned:
            raise Untranslatable("loop that changes nothing")
        tyd = dict(live)
        tup = self.loop_tail(assigned)
        ret_ty = " × ".join(paren(tyd[a]) for a in assigned)
        args = " ".join(nm for nm, _ in live)
        params = " ".join("(%s : %s)" % (nm, ty) for nm, ty in live)
        snap = self.snapshot()
        self.depth += 1
        vn = self.vname(var["name"])
        self.vals[var["id"]] = [ek, vn]
        self.readonly.add(var["id"])
        body_code = self.stmt(body, lambda i2: "  " * i2 + "%s ⟪F⟫⟪M⟫rest_ %s" % (name, args), 3)
        self.depth -= 1
        self.restore(snap)
        mem = bool(self.fn.uses_mem)
        fu = bool(self.has_fuel)
        body_code = body_code.replace("⟪M⟫", "m " if mem else "").replace("⟪F⟫", "fuel " if fu else "")
        pre_p = ("(fuel : Nat) " if fu else "") + ("(m : Bytes) " if mem else "")
        pre_a = ("fuel " if fu else "") + ("m " if mem else "")
        code = ["def %s %s(l_ : %s) %s : Option (%s) :=" % (name, pre_p, lean_ty(lk), params, ret_ty), "  match l_ with",
                "  | [] => pure %s" % tup, "  | %s :: rest_ => do" % vn, body_code]
        self.aux.append("\n".join(code) + "\n")
        return "  " * ind + "let %s ← %s %s%s %s\n" % (tup, name, pre_a, lname, args) + k(ind)


# =====================================================================================================================
# output
# =====================================================================================================================

MODEL_DOC = '''/-! ### how the C++ objects of the TECMP path are modelled (vlib/srctecmp.py)

  * An object of a class derived from `TECMP::Payload` / `ASAM::CMP::Payload` is a VALUE: the data members of the root class
    (`f_payloadData`, `f_type`); the derived classes add no data member (checked on every run).  Its dynamic class is therefore
    not observable: `std::make_shared<Payload>(derived)` (a slicing copy through the defaulted copy constructor) is the identity on
    these values, and `reinterpret_cast<TECMP::CanPayload*>(payload.get())` followed by calls of `CanPayload`'s NON-VIRTUAL getters
    runs those getters on the same bytes — which is how it is translated.
  * `std::shared_ptr<T>` / `T*` to such an object: `Option T`; `let o ← ptr` is the dereference (`none` = null dereferenced = undefined).
    `std::vector<std::shared_ptr<T>>`: `List (Option T)`; range-for: structural recursion (`…_loop`); `while`: recursion on `fuel`.
  * A local `TECMP::CmpHeader` is its 28 bytes (default member initialisers reflected by a compiled program); `PayloadType` is its one
    `uint32_t` (its methods run on `leEnc 4 value`); `std::string` / `std::stringstream` are byte lists.
  * `const uint8_t*` / `const void*` are addresses in the one read-only memory `m`; a `uint8_t**` out-parameter is an extra result.
  * The functions WITHOUT the suffix `_obj` have the signature of GeneratedSrc.lean (`m`, `pd_ pdsize_`, `this_`): methods that
    only touch `payloadData`.  They, and the ones of GeneratedSrc.lean, are run on an object value with memory = its own byte vector
    (`pd_ = 0`); a method that returns a pointer into the object is run with `pd_ = objBase` and its result is only ever a `memcpy`
    source (`ptrBytes`).
  * A `std::shared_ptr<Packet>` local is treated as a value; the translator rejects any use of a packet pointer after a copy of it
    was handed to a callee, and any mutation after it was stored in a vector (no observable aliasing). -/

'''

SEAM = '''/-! ### SEAM: the ASAM CMP packet the converter builds

  `TPacket_St` = the generated state of `ASAM::CMP::Packet` (its scalar members, GeneratedSrcObj.lean) + the payload the packet owns
  (`std::unique_ptr<Payload>`: none = null, otherwise the type code and the bytes).  CONTRACTS stated here, to be replaced by the
  translation of `Packet` once its `payload` member is part of `Packet_St`:
    * `std::make_shared<Packet>()`  = the defaulted constructor: default member initialisers, no payload;
    * `Packet::setPayload(const Payload& p)` = `payload = std::make_unique<Payload>(p)`: the slicing copy of `p` (type and bytes);
    * `Packet::isValid()` = `payload ? payload->isValid() : false`, with `Payload::isValid` translated from the AST below. -/

structure TPacket_St where
  hdr : Packet_St
  payload : Option (Nat × Bytes)
deriving Repr, Inhabited

def TPacket_new : TPacket_St := { hdr := Packet_default, payload := none }

def TPacket_setPayload (p : TPacket_St) (x : APayload_St) : TPacket_St := { p with payload := some (x.f_type, x.f_payloadData) }
'''


def shape(n):
    """structure of an AST subtree without types / ids: used to pin the bodies the seam states a contract for"""
    if not isinstance(n, dict) or not n.get("kind"):
        return "-"
    bits = [n["kind"]]
    for key in ("name", "opcode", "castKind", "value"):
        if key in n:
            bits.append(str(n[key]))
    rd = n.get("referencedDecl")
    if rd:
        bits.append(str(rd.get("name")))
    return ":".join(bits) + "(" + ",".join(shape(c) for c in n.get("inner", [])) + ")"


SEAM_SHAPES = {
    "ASAM::CMP::Packet::setPayload":
        "CompoundStmt(ExprWithCleanups(CXXOperatorCallExpr(ImplicitCastExpr:FunctionToPointerDecay(DeclRefExpr:operator=())"
        ",MemberExpr:payload(CXXThisExpr()),MaterializeTemporaryExpr(CXXBindTemporaryExpr(CallExpr(ImplicitCastExpr:FunctionToPointerDecay("
        "DeclRefExpr:make_unique()),DeclRefExpr:newPayload()))))))",
    "ASAM::CMP::Packet::isValid":
        "CompoundStmt(ReturnStmt(ConditionalOperator(ImplicitCastExpr:UserDefinedConversion(CXXMemberCallExpr(MemberExpr:operator bool("
        "MemberExpr:payload(CXXThisExpr())))),CXXMemberCallExpr(MemberExpr:isValid(ImplicitCastExpr:NoOp(CXXOperatorCallExpr("
        "ImplicitCastExpr:FunctionToPointerDecay(DeclRefExpr:operator->()),MemberExpr:payload(CXXThisExpr()))))),CXXBoolLiteralExpr:False())))",
}


def check_seam(X):
    """the contracts of the seam are those of the CURRENT bodies of Packet::setPayload / Packet::isValid and of a defaulted
    default constructor; anything else: fail closed"""
    found = set()
    for n in X.T.all_functions():
        q = X.tu.qualname(n)
        if q in SEAM_SHAPES:
            got = shape(TU.body_of(n))
            if got != SEAM_SHAPES[q]:
                raise Untranslatable("seam: the body of %s is not the one the contract was written for: %s" % (q, got[:300]))
            found.add(q)
    if found != set(SEAM_SHAPES):
        raise Untranslatable("seam: %s not found" % sorted(set(SEAM_SHAPES) - found))
    ok = False
    for c in X.records[PACKET].get("inner", []):
        if c.get("kind") == "CXXConstructorDecl" and not [p for p in c.get("inner", []) if p.get("kind") == "ParmVarDecl"]:
            ok = bool(c.get("isImplicit") or c.get("explicitlyDefaulted") == "default")
    if not ok:
        raise Untranslatable("seam: Packet's default constructor is not defaulted")
    # make_unique<Payload>(p) / make_shared<Payload>(p) slice by the root class's copy constructor
    if not X.copy_memberwise(AROOT) or not X.copy_memberwise(TROOT):
        raise Untranslatable("seam: user-provided copy constructor in a payload root class")


def emit_fn(f):
    out = []
    for a in getattr(f, "aux", []):
        out.append(a)
    out.append("/-- `%s` (%s) -/" % (f.qual, f.loc))
    if f.style == "shallow":
        ps = []
        if f.uses_mem:
            ps.append("(m : Bytes)")
        if f.uses_pd:
            ps.append("(pd_ pdsize_ : Nat)")
        for nm, t in f.params:
            ps.append("(%s : %s)" % (nm, "Bool" if t[0] == "b" else ("Bytes" if t[0] == "ext" else "Nat")))
        rt = {"b": "Bool", "v": "Unit", "str": "Bytes"}.get(f.ret[0], "Nat")
        if f.writes:
            rt = "Bytes" if f.ret[0] == "v" else "(Bytes × %s)" % rt
        out.append("def %s %s : Option %s := do" % (f.lean, " ".join(ps), rt))
    else:
        ps = []
        if f.has_fuel:
            ps.append("(fuel : Nat)")
        if f.uses_mem:
            ps.append("(m : Bytes)")
        for nm, k in f.params:
            ps.append("(%s : %s)" % (nm, lean_ty(k)))
        rt = lean_ty(f.ret)
        for nm, k in f.outs2:
            rt = "%s × %s" % (paren(rt), lean_ty(k))
        out.append("def %s %s : Option (%s) := do" % (f.lean, " ".join(ps), rt))
    out.append(f.body)
    out.append("")
    return "\n".join(out)


def struct_text(X, root):
    out = ["/-- an object of a class of the `%s` hierarchy, as a VALUE: the data members of the root class (derived classes add none) -/" % root,
           "structure %s where" % ST_NAME[root]]
    for nm, fk, rq, sz, fd in X.root_fields(root):
        out.append("  f_%s : %s" % (nm, "Bytes" if fk == "bytes" else "Nat"))
    out.append("deriving Repr, Inhabited, DecidableEq\n")
    return "\n".join(out)


def generate(T):
    """text of lean/AsamCmp/GeneratedSrcTecmp.lean and a note"""
    X = TecTranslator(T)
    check_seam(X)
    # `Payload::isValid` of the ASAM hierarchy for the seam: first, so that the seam precedes its uses
    pv = None
    for n in T.all_functions():
        if X.tu.qualname(n) == AROOT + "::isValid":
            pv = X.value_fn(n)
    if pv is None:
        raise Untranslatable("ASAM::CMP::Payload::isValid not found")
    X.run()
    head = ["/- GENERATED on every run by vlib/srctecmp.py from the typed clang AST of /repo/src/tecmp_*.cpp (and what they use) — do not edit. -/",
            "import AsamCmp.GeneratedSrcObj", "import AsamCmp.Src.ObjTecmp", "set_option linter.unusedVariables false", "namespace AsamCmp.SrcGen",
            "open AsamCmp AsamCmp.Src", "", MODEL_DOC, struct_text(X, TROOT), struct_text(X, AROOT), SEAM]
    body = []
    seam_done = False
    for f in X.order:
        body.append(emit_fn(f))
        if f is pv:
            body.append("/-- `ASAM::CMP::Packet::isValid` (seam): `payload ? payload->isValid() : false` -/\n"
                        "def TPacket_isValid (p : TPacket_St) : Option Bool :=\n  match p.payload with\n  | none => pure false\n"
                        "  | some (ty, b) => %s { f_payloadData := b, f_type := ty }\n" % pv.lean)
            seam_done = True
    if not seam_done:
        raise Untranslatable("seam")
    items = sorted(X.failed.items())
    tail = ["/-- functions of the TECMP path outside the translated subset, with the first reason -/",
            "def tecmp_untranslated : List (String × String) := ["]
    for i, (k, v) in enumerate(items):
        tail.append("  (%s, %s)%s" % (json.dumps(k), json.dumps(v[:160]), "," if i + 1 < len(items) else ""))
    tail.append("]")
    tail.append("")
    tail.append("def tecmp_translatedNames : List String := [%s]" % ", ".join(json.dumps(f.lean) for f in X.order))
    tail.append("")
    tail.append("end AsamCmp.SrcGen")
    text = "\n".join(head) + "\n" + "\n".join(body) + "\n" + "\n".join(tail) + "\n"
    note = "GeneratedSrcTecmp.lean: %d functions of the TECMP path translated (%d shallow extensions, %d in value mode), %d outside the subset" % (
        len(X.order), len([f for f in X.order if f.style == "shallow"]), len([f for f in X.order if f.style == "value"]), len(X.failed))
    return text, note, X
