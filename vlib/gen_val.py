"""Generators for C03 (validated payloads expose only in-bounds data)."""
from . import proto, gen_dec
from .proto import be
from .runner import Case

HDR = {"can": 16, "canfd": 16, "lin": 8, "eth": 6, "analog": 16, "cm": 26, "if": 36}
KINDS = list(HDR.keys())


def gen_c03(tier, rng):
    cases = []
    for k in KINDS:
        h = HDR[k]
        ops = []
        # every buffer length 0..header+8 (and the minimum sizes of the status payloads) x {zeros, ones, random}
        for n in list(range(0, h + 9)) + [36, 40, 44, 45, 46]:
            ops.append("val %s %s" % (k, proto.hexs(bytes(n))))
            ops.append("val %s %s" % (k, proto.hexs(b"\xff" * n)))
            ops.append("val %s %s" % (k, proto.hexs(proto.rand_bytes(rng, n))))
        cases.append(Case("c03len", ops, True, (k, "every-length")))
        # every inner length field x {0, fits-1, fits, fits+1, max}
        ops = []
        for _ in range(60 if tier == "quick" else 600):
            ty, b = proto.valid_payload(rng, k)
            b = bytearray(b)
            if k in ("can", "canfd"):
                room = len(b) - 16
                for v in {0, max(0, room - 1), room, min(255, room + 1), 255}:
                    b[15] = v
                    ops.append("val %s %s" % (k, bytes(b).hex()))
            elif k == "lin":
                room = len(b) - 8
                for v in {0, max(0, room - 1), room, min(255, room + 1), 255}:
                    b[7] = v
                    ops.append("val %s %s" % (k, bytes(b).hex()))
            elif k == "eth":
                room = len(b) - 6
                for v in {0, max(0, room - 1), room, room + 1, 0xFFFF}:
                    b[4:6] = be(v, 2)
                    ops.append("val %s %s" % (k, bytes(b).hex()))
            elif k == "analog":
                for extra in range(0, 9):
                    for dt in (0, 1, 2, 3):
                        c = bytearray(b[:16]) + proto.rand_bytes(rng, extra)
                        c[1] = (c[1] & 0xFC) | dt
                        ops.append("val %s %s" % (k, bytes(c).hex()))
            elif k == "cm":
                # corrupt each of the five length prefixes
                pos = 26
                offs = []
                for _i in range(5):
                    offs.append(pos)
                    pos += 2 + int.from_bytes(b[pos:pos + 2], "big")
                for o in offs:
                    cur = int.from_bytes(b[o:o + 2], "big")
                    room = len(b) - o - 2
                    for v in {0, cur, cur + 1, cur + 2, max(0, cur - 1), room, room + 1, max(0, room - 1), 0xFFFF, 0xFFFE}:
                        c = bytearray(b)
                        c[o:o + 2] = be(v, 2)
                        ops.append("val %s %s" % (k, bytes(c).hex()))
                for cut in range(26, len(b) + 1):
                    ops.append("val %s %s" % (k, bytes(b[:cut]).hex()))
                # strings without terminating NUL, NUL in the middle
                c = bytearray(b)
                if len(c) > 30:
                    c[28] = 0
                    ops.append("val %s %s" % (k, bytes(c).hex()))
            elif k == "if":
                cnt = int.from_bytes(b[36:38], "big")
                room = len(b) - 38
                for v in {0, 1, 2, cnt, cnt + 1, cnt + 2, max(0, cnt - 1), room, room - 1, room - 2, room - 3, room + 1, 0xFFFF, 0xFFFE}:
                    c = bytearray(b)
                    c[36:38] = be(max(0, v), 2)
                    ops.append("val %s %s" % (k, bytes(c).hex()))
                vpos = 38 + cnt + cnt % 2
                vl = int.from_bytes(b[vpos:vpos + 2], "big")
                for v in {0, vl, vl + 1, max(0, vl - 1), 0xFFFF}:
                    c = bytearray(b)
                    c[vpos:vpos + 2] = be(v, 2)
                    ops.append("val %s %s" % (k, bytes(c).hex()))
                for st in (0, 1, 2, 3, 255):
                    c = bytearray(b)
                    c[29] = st
                    ops.append("val %s %s" % (k, bytes(c).hex()))
                for cut in range(36, len(b) + 1):
                    ops.append("val %s %s" % (k, bytes(b[:cut]).hex()))
            if len(ops) > 400:
                cases.append(Case("c03inner", ops, True, (k, "inner-lengths")))
                ops = []
        if ops:
            cases.append(Case("c03inner", ops, True, (k, "inner-lengths")))
        # random content of random length
        ops = []
        for _ in range(200 if tier == "quick" else 3000):
            n = rng.choice([h, h + 1, h + 2, h + 4, h + 8, h + 10, h + 14, h + 40, rng.randrange(0, 120)])
            b = bytearray(proto.rand_bytes(rng, n))
            if rng.random() < 0.7 and n >= 2:
                b[0] &= 0xFC
                b[1] = 0 if k in ("can", "canfd") else (b[1] & 0xC4 if k == "eth" else b[1])
            if k in ("can", "canfd") and n >= 14 and rng.random() < 0.7:
                b[12] = b[13] = 0
            if k in ("cm", "if") and rng.random() < 0.8:
                for i in range(h, n - 1, 2):
                    if rng.random() < 0.7:
                        b[i] = 0
                        b[i + 1] = rng.choice([0, 1, 2, 3, 4, 6])
            if k == "if" and n > 29:
                b[29] = rng.choice([0, 1, 2, 2, 3])
            ops.append("val %s %s" % (k, proto.hexs(bytes(b))))
        cases.append(Case("c03rand", ops, True, (k, "random")))
    # interface payload of > 65576 bytes with count 0xFFFF (16-bit wrap of the padded count in the accessor)
    big = bytearray(proto.if_payload(b"", b""))
    big[36:38] = b"\xff\xff"
    big = bytes(big[:38]) + bytes(65536) + be(3, 2) + b"abc"
    cases.append(Case("c03big", ["val if " + big.hex(), "val if " + big[:-4].hex()], True, ("if", "count-wrap")))
    # payload objects of 64 KiB and more (they cannot arrive in one message, but the classes are public: `AnalogPayload(data, size)`):
    # sizes whose low 16 bits are smaller than the header, exactly 65536, and one below
    for k, mk in (("analog", lambda n: proto.analog_payload(proto.rand_bytes(rng, n - 16), flags=rng.choice([0, 1]))),
                  ("eth", lambda n: proto.eth_payload(proto.rand_bytes(rng, n - 6), data_len=(n - 6) & 0xFFFF))):
        ops = []
        for n in (65535, 65536, 65537, 65540, 65551, 65552, 131072 + 4):
            ops.append("val %s %s" % (k, mk(n).hex()))
        cases.append(Case("c03big", ops, True, (k, "payload-of-64KiB-and-more"), meta={"noshrink": True}))
    # message level: buffers accepted by isValidPacket become packets
    ops = []
    for _ in range(300 if tier == "quick" else 4000):
        kind = rng.choice(proto.KINDS)
        if rng.random() < 0.5 and kind != "gen":
            ty, body = gen_dec.inconsistent_payload(rng, kind)
        else:
            ty, body = proto.valid_payload(rng, kind)
        m = proto.message(rng.getrandbits(64), rng.getrandbits(32), rng.getrandbits(8) & 0xBF, ty & 0xFF, body,
                          length=rng.choice([None, None, len(body) + 1, max(0, len(body) - 1), 0, 0xFFFF]))
        cut = rng.choice([len(m), len(m), len(m), rng.randrange(0, len(m) + 1)])
        ops.append("mkpkt %d %s" % (ty >> 8, proto.hexs(m[:cut] + rng.choice([b"", b"", b"\0\0\0"]))))
        if len(ops) >= 100:
            cases.append(Case("c03msg", ops, True, ("message-level",)))
            ops = []
    # packets a decoder returns as valid: accessors on them
    for _ in range(150 if tier == "quick" else 2000):
        msgs = []
        mt = rng.choice([1, 1, 3])
        for _j in range(rng.randrange(1, 5)):
            kind = rng.choice([k for k in proto.KINDS if k != "gen" and (proto.TY[k] >> 8) == mt] + ["gen"])
            if rng.random() < 0.4 and kind != "gen":
                ty, body = gen_dec.inconsistent_payload(rng, kind)
            else:
                ty, body = proto.valid_payload(rng, kind)
            msgs.append(proto.message(rng.getrandbits(64), rng.getrandbits(32), rng.getrandbits(8) & 0xB3, ty & 0xFF, body))
        fr = proto.frame_header(1, 1, mt, 1, 1) + b"".join(msgs)
        cases.append(Case("c03dec", ["dec d feed " + fr.hex(), "dec d access"], True, ("decoded",)))
    # class confusion: a payload that is well-formed for ANOTHER class (or all zeros of every small length) travelling under each typed
    # payload type; whatever is returned as valid must still expose only in-bounds data
    for mt, kinds in ((1, ["can", "canfd", "lin", "eth", "analog"]), (3, ["cm", "if"])):
        for k_type in kinds:
            ops = []
            for k_body in kinds:
                for _r in range(3):
                    _ty, body = proto.valid_payload(rng, k_body)
                    m = proto.message(1, 2, 0, proto.TY[k_type] & 0xFF, body)
                    ops += ["dec d feed " + (proto.frame_header(1, 1, mt, 1, 1) + m).hex(), "dec d access"]
            for n in list(range(0, 48)):
                m = proto.message(1, 2, 0, proto.TY[k_type] & 0xFF, bytes(n))
                ops += ["dec d feed " + (proto.frame_header(1, 1, mt, 1, 1) + m).hex(), "dec d access"]
            cases.append(Case("c03x", ops, True, (k_type, "class-confusion")))
    # TECMP-converted packets are built by the library's own builders: their accessors too
    frames = gen_dec.gen_tecmp_frames("quick", rng)
    for i in range(0, len(frames), 40):
        ops = []
        for fr, _t in frames[i:i + 40:4]:
            ops += ["dec d feed " + proto.hexs(fr), "dec d access"]
        cases.append(Case("c03tecmp", ops, True, ("tecmp-converted",)))
    return cases


def pred_c03(case, impl, model, ctx):
    """implementation only: no sanitizer abort; every reported view lies inside the payload"""
    for o, l in zip(case.ops, impl):
        if l.startswith("CRASH"):
            return False
        if o.startswith("val ") and l.startswith("valid=1"):
            hx = o.split(" ")[2]
            n = 0 if hx == "-" else len(hx) // 2
            for tok in l.split(" ")[1:]:
                if "=" not in tok:
                    return False
                name, v = tok.split("=")
                if v == "MISMATCH":
                    return False
                off, ln = v.split(":")
                if off != "null" and int(off) + int(ln) > n:
                    return False
                if off != "null" and int(off) < 0:
                    return False
    if len(impl) > len(case.ops):
        return False
    return True


def selfcheck_val(cases, model):
    """a sample of validator verdicts of the compiled driver, as kernel-checked equations"""
    fn = {"can": "canValid", "canfd": "canValid", "lin": "linValid", "eth": "ethValid", "analog": "analogValid", "cm": "cmValid", "if": "ifValid"}
    ex = []
    seen = set()
    for c, m in zip(cases, model):
        for o, l in zip(c.ops, m):
            w = o.split(" ")
            if w[0] != "val" or w[2] == "-" or len(w[2]) > 160 or len(w[2]) < 12:
                continue
            key = (w[1], l.startswith("valid=1"))
            if key in seen:
                continue
            seen.add(key)
            b = bytes.fromhex(w[2])
            ex.append("example : %s ([%s] : Bytes) = %s := by decide" % (fn[w[1]], ", ".join(str(x) for x in b), "true" if key[1] else "false"))
    return ["AsamCmp.Packet"], ex[:14]
