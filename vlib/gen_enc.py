"""Generators for the encoder family: C01 (round trip), C07/C08 (frame structure), C09 (headers
and counters), C10 (history independence).  Boundary-directed: every fit / no-fit boundary of
every frame size, exhaustive small domains first."""
from . import proto
from .proto import Pkt
from .runner import Case

GEN_TYPES = [0x01FF, 0x0104, 0x0105, 0x0109, 0x0201, 0x03FF, 0x0303, 0xFF01, 0x7B05]


def gpkt(length, seed, ty=0x01FF, **kw):
    p = Pkt(ty, b"", **kw)
    p.gen = (length, seed)
    return p


def pline(p, pid):
    if hasattr(p, "gen"):
        ty = "%04x" % p.ty
        return "pkt %s %s %d %d %d %d %d %d %d %d %d gen:%d:%d" % (pid, ty, p.ver, p.dev, p.stream, p.seq, p.ts, p.ifid, p.vend, p.flags, p.seg,
                                                                  p.gen[0], p.gen[1])
    return p.line(pid)


def plen(p):
    return p.gen[0] if hasattr(p, "gen") else len(p.data)


def is_nontrivial(pkts, mn, mx):
    """batch contains a segmented packet, a message-type change, or a frame boundary caused by fill"""
    cap = mx - 8
    used = 0
    last_mt = None
    for p in pkts:
        n = plen(p)
        mt = (p.ty >> 8) & 0xFF
        if 16 + n > cap:
            return True
        if last_mt is not None and mt != last_mt:
            return True
        if used + 16 + n > cap:
            return True
        used += 16 + n
        last_mt = mt
    return False


_variant = [0]


def rt_case(pkts, mn, mx, dev, stream, tags, pre_ops=(), define=None):
    """`pkts`: the packets as they are when encode is called; `define`: as they are first defined (when `pre_ops` then change them in place)"""
    ops = [pline(p, "p%d" % i) for i, p in enumerate(define or pkts)]
    ops += ["enc e dev %d" % dev, "enc e stream %d" % stream]
    ops += list(pre_ops)
    ids = " ".join("p%d" % i for i in range(len(pkts)))
    # the three overloads of Encoder::encode take turns (iterator over Packet, iterator over shared_ptr<Packet>, single packet)
    _variant[0] += 1
    kind = "encode"
    if _variant[0] % 5 == 0:
        kind = "encodep"
    elif _variant[0] % 7 == 0 and len(pkts) == 1:
        kind = "encode1"
    elif _variant[0] % 3 == 0:
        kind = "encodell"      # answered by the low-level model on the driver side
    ops.append(("enc e %s %d %d %s" % (kind, mn, mx, ids)).rstrip())
    ops.append("dec d feedlast e")
    ops.append("dec d pending")
    ops.append("enc e seq")
    return Case("rt", ops, nontrivial=is_nontrivial(pkts, mn, mx), tags=tags,
                meta={"pkts": pkts, "min": mn, "max": mx, "dev": dev, "stream": stream})


def boundary_lengths(rng, cap, used):
    """payload lengths around every fit / no-fit boundary for a frame with `used` bytes taken"""
    c = set()
    for d in (-2, -1, 0, 1, 2):
        c.add(cap - used - 16 + d)      # just fits / just does not fit the open frame
        c.add(cap - 16 + d)             # just fits / does not fit an empty frame
        for k in (2, 3):
            c.add(k * (cap - 16) + d)   # exact multiples of the segment size
    c.update([1, 2, 3])
    return sorted(x for x in c if 1 <= x <= 65535)


def small_exhaustive(tier, rng):
    cases = []
    maxes = range(25, 41) if tier == "quick" else range(25, 65)
    seed = 0
    for mx in maxes:
        cap = mx - 8
        mins = sorted(set([0, mx // 2, mx]))
        # one packet, every length up to 3 frames' worth
        for mn in mins if tier != "quick" else [mins[seed % len(mins)]]:
            for n in range(1, 3 * mx + 3):
                seed += 1
                cases.append(rt_case([gpkt(n, seed % 251, ty=GEN_TYPES[seed % len(GEN_TYPES)], ts=seed)], mn, mx, seed % 65536, seed % 256,
                                     ("exh1",)))
        # two packets: first of every length that fits a frame, second at the boundaries
        step = 1 if tier != "quick" else 3
        for n1 in range(1, mx + 2, step):
            used = 16 + n1 if 16 + n1 <= cap else 0
            for n2 in boundary_lengths(rng, cap, used):
                seed += 1
                t1 = GEN_TYPES[seed % len(GEN_TYPES)]
                t2 = t1 if seed % 3 else GEN_TYPES[(seed // 3) % len(GEN_TYPES)]
                cases.append(rt_case([gpkt(n1, seed % 251, ty=t1, ts=seed, ifid=seed * 7, vend=seed % 65536),
                                      gpkt(n2, (seed * 3) % 251, ty=t2, ts=seed + 1, ifid=seed * 11, vend=(seed * 5) % 65536)],
                                     mins[seed % len(mins)], mx, seed % 65536, seed % 256, ("exh2",)))
    return cases


def random_batches(tier, rng, n_cases, same_version=True):
    cases = []
    for _ in range(n_cases):
        mx = rng.choice([rng.randrange(25, 301)] * 6 + [1500, 1500, 9000, 65559, 100000])
        cap = mx - 8
        mn = rng.choice([0, 0, 1, 8, 24, 25, mx // 2, mx - 1, mx, rng.randrange(0, mx + 1)])
        mn = min(mn, mx)
        npk = rng.randrange(1, 13 if mx <= 1500 else 5)
        ver = rng.choice([1, 1, 1, 2, 255, rng.randrange(1, 256)])
        pkts = []
        used = 0
        for _i in range(npk):
            kind = rng.choice(proto.KINDS)
            if rng.random() < 0.6:
                cand = boundary_lengths(rng, cap, used)
                cand = [x for x in cand if x >= proto.min_len(kind)] or [proto.min_len(kind)]
                total = rng.choice(cand)
                if mx > 9000 and rng.random() < 0.7:
                    total = min(total, 3000)
            elif rng.random() < 0.1 and mx >= 1500:
                total = rng.choice([65535, 65534, 65535 - rng.randrange(0, 3)])
            else:
                total = None
            if kind in ("can", "canfd", "lin") and total is not None and total > 255 + 16:
                kind = rng.choice(["eth", "analog", "gen", "cm", "if"])
            p = proto.rand_packet(rng, kind, total, ver=ver if same_version else rng.choice([1, 2, ver]))
            if rng.random() < 0.2:
                p.flags |= rng.choice([0x04, 0x08, 0x0C])    # stale segment bits in the source packet
            pkts.append(p)
            n = len(p.data)
            if 16 + n > cap:
                used = 0
            elif used + 16 + n > cap:
                used = 16 + n
            else:
                used += 16 + n
        cases.append(rt_case(pkts, mn, mx, rng.getrandbits(16), rng.getrandbits(8), ("rand",)))
    return cases


def inplace_batches(tier, rng, n_cases):
    """Packets whose payload is REPLACED or RE-TAGGED IN PLACE through the reference `Packet::getPayload()` returns after the payload was
    attached (a gateway that edits decoded packets before re-encoding them): another length across the fit / no-fit boundaries, another
    payload type or message type.  Whatever the packet object cached about its payload (length, message type) is stale then; the encoder
    must frame what the packet holds NOW."""
    import copy
    cases = []
    for _ in range(n_cases):
        mx = rng.choice([64, 100, 200, 1500])
        cap = mx - 8
        npk = rng.randrange(1, 5)
        define, final, pre = [], [], []
        for i in range(npk):
            kind = rng.choice(["eth", "gen", "analog", "gen"])
            p = proto.rand_packet(rng, kind, rng.choice([None, proto.min_len(kind) + rng.randrange(0, 40)]), ver=1)
            q = copy.copy(p)
            r = rng.random()
            if r < 0.5:
                # same type, other length: grown past one / two frames, or shrunk so that it fits
                total = rng.choice([cap - 16 + 1, cap - 16, 2 * (cap - 16) + 3, proto.min_len(kind), max(proto.min_len(kind), cap // 2), 3 * cap])
                total = max(total, proto.min_len(kind))
                ty2, d2 = proto.valid_payload(rng, kind, total)
                if kind == "gen":
                    ty2 = p.ty
                q.ty, q.data = ty2, d2
                pre.append("pk plassign p%d %04x %s" % (i, q.ty, proto.hexs(q.data)))
            elif r < 0.75 and kind == "gen":
                # re-tagged: another message type (generic payload types only: no validator involved)
                q.ty = rng.choice([0x0110, 0x0210, 0x0310, 0xFF10, 0x7B10])
                pre.append("pk plsettype p%d %d" % (i, q.ty))
            elif r < 0.88:
                # marked invalid by the application after it was filled (type 0): the bytes are still there and still have to be framed
                q.ty = 0
                pre.append("pk plsettype p%d 0" % i)
            define.append(p)
            final.append(q)
        if not pre:
            continue
        cases.append(rt_case(final, rng.choice([0, 24, mx]), mx, rng.getrandbits(16), rng.getrandbits(8), ("payload-changed-in-place",), pre_ops=pre, define=define))
    return cases


def many_segments(tier, rng):
    """One packet cut into MORE THAN 256 segments (and exactly 256 / 257 / 512 / 513): small frames (one to a few payload bytes per
    frame), alone and followed by another packet — a segment index kept in 8 bits wraps here and flags segment 256 `first` again."""
    cases = []
    for mx, nseg in ((25, 256), (25, 257), (25, 300), (26, 513), (27, 512), (30, 260)):
        per = mx - 24
        ln = nseg * per - rng.randrange(0, per)
        big = gpkt(ln, rng.randrange(251), ty=rng.choice([0x01FF, 0x0104]), ts=rng.getrandbits(40), ifid=rng.getrandbits(32))
        small = gpkt(3, rng.randrange(251), ty=0x01FF, ts=rng.getrandbits(40))
        for pk in ([big], [big, small], [small, big, small]):
            cases.append(rt_case(pk, rng.choice([0, mx]), mx, rng.getrandbits(16), rng.getrandbits(8), ("more-than-256-segments",)))
    return cases


def huge_frames(tier, rng):
    """frames longer than 65535 bytes: message headers that start at offsets >= 2^16 (a 16-bit offset or size somewhere shows here)"""
    cases = []
    for mx in [65553, 65556, 65559, 70000, 100000, 131096]:
        for first in ([65510, 65512, 65515, 65518, 65519, 65520, 65535] if tier != "quick" else [65512, 65518, 65535]):
            small = [gpkt(rng.randrange(1, 8), rng.randrange(251), ty=0x01FF, ts=rng.getrandbits(40)) for _ in range(3)]
            pk = [gpkt(first, rng.randrange(251), ty=0x01FF, ts=1)] + small
            cases.append(rt_case(pk, rng.choice([0, mx]), mx, 3, 4, ("huge-frame",)))
    return cases


def gen_c01(tier, rng):
    cases = small_exhaustive(tier, rng)
    cases += huge_frames(tier, rng)
    cases += random_batches(tier, rng, 1500 if tier == "quick" else 20000)
    cases += inplace_batches(tier, rng, 80 if tier == "quick" else 800)
    cases += many_segments(tier, rng)
    cases += history_batches(tier, rng, 300 if tier == "quick" else 3000)
    # a stale reassembly on the endpoint before the batch arrives
    for c in random_batches(tier, rng, 100 if tier == "quick" else 1000):
        m = c.meta
        first = proto.frame_header(1, m["dev"], 1, m["stream"], 77) + proto.message(5, 6, 0x04, 0x08, b"\x11" * 9)
        c.ops.insert(len(m["pkts"]) + 2, "dec d feed " + first.hex())
        c.tags = ("stale",)
        cases.append(c)
    return cases


def history_batches(tier, rng, n_cases):
    """any encoder history before the batch (the theorems quantify over every encoder state): earlier encode calls on the SAME
    encoder with other size limits, the same or other message types, empty batches, restarts"""
    cases = []
    for c in random_batches(tier, rng, n_cases):
        m = c.meta
        n = len(m["pkts"])
        pre = []
        longest = max(plen(p) for p in m["pkts"])
        for _h in range(rng.randrange(1, 4)):
            mx = rng.choice([25, 40, 64, 100, 1500])
            if longest // (mx - 24) > 1500:      # keep the number of frames of a history call moderate
                mx = max(1500, longest // 40)
            ids = " ".join("p%d" % rng.randrange(n) for _k in range(rng.randrange(0, 4)))
            pre.append(("enc e encode %d %d %s" % (rng.choice([0, mx]), mx, ids)).rstrip())
        if rng.random() < 0.2:
            pre.append("enc e restart")
        pos = n + 2
        if rng.random() < 0.35:
            # the call just before the batch: SAME size limits, a packet of the batch's first message type but of ANOTHER protocol
            # version (everything cached from one encode call to the next - frame template, message type - must be rebuilt from the
            # new batch's packets; seeded change u07B keeps a stale version byte)
            import copy
            q = copy.copy(m["pkts"][0])
            q.ver = (q.ver + rng.randrange(1, 4)) % 256
            c.ops.insert(n, pline(q, "p%d" % n))
            pre.append("enc e encode %d %d p%d" % (m["min"], m["max"], n))
            pos = n + 3
            c.tags = ("history", "history-other-version")
        else:
            c.tags = ("history",)
        c.ops[pos:pos] = pre
        cases.append(c)
    return cases


def gen_c07(tier, rng):
    cases = small_exhaustive(tier, rng)
    cases += huge_frames(tier, rng)
    cases += random_batches(tier, rng, 1500 if tier == "quick" else 20000, same_version=False)
    cases += inplace_batches(tier, rng, 80 if tier == "quick" else 800)
    cases += many_segments(tier, rng)
    cases += history_batches(tier, rng, 300 if tier == "quick" else 3000)
    # empty batch
    for mx in (25, 64, 1500):
        cases.append(Case("empty", ["enc e dev 3", "enc e encode 0 %d" % mx, "enc e seq", "enc e encode %d %d" % (mx, mx), "enc e seq"], tags=("empty",),
                          nontrivial=True))
    # zero-length payloads inside a batch
    for i in range(40 if tier == "quick" else 400):
        pk = [gpkt(rng.choice([0, 0, 5, 40, 100]), i, ty=rng.choice(GEN_TYPES)) for _ in range(rng.randrange(1, 6))]
        mx = rng.randrange(25, 120)
        cases.append(rt_case(pk, rng.choice([0, mx]), mx, 1, 2, ("zerolen",)))
    return cases


def enc_history_ops(rng, npk_defs, n_ops, allow_ids=True):
    """random history of encoder operations over packets p0..p(npk_defs-1)"""
    ops = []
    for _ in range(n_ops):
        r = rng.random()
        if allow_ids and r < 0.12:
            ops.append("enc e dev %d" % rng.choice([0, 1, 65535, rng.getrandbits(16)]))
        elif allow_ids and r < 0.22:
            ops.append("enc e stream %d" % rng.choice([0, 255, rng.getrandbits(8)]))
        elif allow_ids and r < 0.32:
            ops.append("enc e restart")
        elif r < 0.42 and not allow_ids:
            # (C10 only: C09 quantifies over completed encode calls) an encode call that is left by an exception of the caller's
            # iterator after k packets
            mx = rng.choice([25, 40, 64, 100, 200, 1500])
            n = rng.randrange(1, 5)
            ids = " ".join("p%d" % rng.randrange(npk_defs) for _ in range(n))
            ops.append("enc e encodethrow %d %d %d %s" % (rng.choice([0, mx]), mx, rng.randrange(0, n), ids))
        else:
            mx = rng.choice([25, 40, 64, 100, 200, 1500])
            mn = rng.choice([0, 0, mx // 2, mx])
            k = rng.randrange(0, 5)
            ids = " ".join("p%d" % rng.randrange(npk_defs) for _ in range(k))
            ops.append(("enc e encode %d %d %s" % (mn, mx, ids)).rstrip())
        ops.append("enc e seq")
        if allow_ids and rng.random() < 0.3:
            ops.append("enc e ids")
    return ops


def history_packets(rng, n):
    pk = []
    for i in range(n):
        kind = rng.choice(proto.KINDS)
        total = rng.choice([None, None, 30, 90, 150, 400])
        if total is not None:
            total = max(total, proto.min_len(kind))
        if kind in ("can", "canfd", "lin") and total and total > 200:
            kind = "gen"
        pk.append(proto.rand_packet(rng, kind, total, ver=rng.choice([1, 2, 7])))
    if rng.random() < 0.3:
        pk[0] = gpkt(0, 1, ty=rng.choice(GEN_TYPES))
    return pk


def gen_c09(tier, rng):
    cases = []
    # exhaustive sequences of <= 4 ops over a small alphabet
    alphabet = ["enc e dev 5", "enc e stream 9", "enc e restart", "enc e encode 0 64 p0", "enc e encode 0 40 p1", "enc e encode 64 64 p0 p2 p1",
                "enc e encode 0 64"]
    pk = [gpkt(20, 1, ty=0x0101 + 0x00FE), gpkt(70, 2, ty=0x0304), gpkt(10, 3, ty=0xFF01)]
    defs = [pline(p, "p%d" % i) for i, p in enumerate(pk)]
    depth = 4 if tier == "quick" else 5
    import itertools
    for L in range(1, depth + 1):
        for seq in itertools.product(range(len(alphabet)), repeat=L):
            ops = list(defs)
            for a in seq:
                ops.append(alphabet[a])
                ops.append("enc e seq")
            cases.append(Case("h", ops, nontrivial=len(set(seq)) > 1, tags=("exh-hist",)))
    for _ in range(300 if tier == "quick" else 3000):
        pks = history_packets(rng, 4)
        ops = [pline(p, "p%d" % i) for i, p in enumerate(pks)] + enc_history_ops(rng, 4, 30)
        cases.append(Case("h", ops, nontrivial=True, tags=("rand-hist",)))
    # packets re-tagged IN PLACE (another message type through getPayload().setType) between encode calls: the frame header must announce
    # the type the packet has when it is encoded
    for _ in range(40 if tier == "quick" else 400):
        pks = [gpkt(rng.choice([5, 20, 70]), rng.randrange(251), ty=rng.choice([0x0110, 0x0210, 0x0310])) for _i in range(3)]
        ops = [pline(p, "p%d" % i) for i, p in enumerate(pks)] + ["enc e dev %d" % rng.getrandbits(16), "enc e stream %d" % rng.getrandbits(8)]
        for _k in range(rng.randrange(2, 5)):
            if rng.random() < 0.6:
                ops.append("pk plsettype p%d %d" % (rng.randrange(3), rng.choice([0x0110, 0x0210, 0x0310, 0xFF10, 0x0100, 0x0300, 0xFF00, 0x0200])))
            ops.append("enc e encode %d 64 %s" % (rng.choice([0, 64]), " ".join("p%d" % rng.randrange(3) for _j in range(rng.randrange(1, 4)))))
            ops.append("enc e seq")
        cases.append(Case("h", ops, nontrivial=True, tags=("retagged-in-place",)))
    # a payload of 65536 bytes and more (its 16-bit length wraps; the library does not reject it) BEHIND ordinary packets of the same batch,
    # then further calls: whatever the call does with it, the counters of completed calls stay consecutive and the reported counter is the
    # last frame's
    for big in (65536, 65537, 70000, 131072):
        ops = [pline(gpkt(10, 1, ty=0x01FF), "p0"), pline(gpkt(big, 2, ty=0x01FF), "p1"), pline(gpkt(30, 3, ty=0x0310), "p2"), "enc e dev 4", "enc e stream 5",
               "enc e encode 0 1500 p0", "enc e seq", "enc e encode 0 1500 p0 p1 p2", "enc e seq", "enc e encode 0 1500 p2 p0", "enc e seq"]
        cases.append(Case("h", ops, nontrivial=True, tags=("payload-of-64KiB-and-more",), meta={"noshrink": True}))
    # counter wrap: start close to the wrap by many small encodes
    n = 70000 if tier == "thorough" else 66000
    ops = [pline(gpkt(5, 1), "p0"), "enc e dev 1"]
    ops += ["enc e encode 0 64 p0"] * 0
    # one encode of a payload segmented into > 65536 frames is impossible (65535 bytes max), so: many one-frame encodes
    ops += ["enc e encode 0 25 p0"] * n
    ops += ["enc e seq", "enc e encode 0 25 p0 p0 p0", "enc e seq"]
    cases.append(Case("wrap", ops, nontrivial=True, tags=("wrap",), meta={"noshrink": True}))
    cases += wrap_with_segments(tier, "c09")
    return cases


def wrap_with_segments(tier, kind):
    """histories that cross the 16-bit wrap while segmented packets are being emitted: the frame opened ahead of need after a last
    segment is dropped again, and for the right history length it is exactly the frame that received counter 0"""
    cases = []
    seg2 = gpkt(40, 7, ty=0x0104)          # two segments at max 48 (24 payload bytes per frame)
    seg3 = gpkt(60, 9, ty=0x0104)          # three segments
    small = gpkt(5, 1, ty=0x0104)
    hist = [65529, 65531, 65533] if tier == "quick" else [65524, 65525, 65526, 65527, 65528, 65529, 65530, 65531, 65532, 65533, 65534, 65535]
    for n in hist:
        ops = [pline(small, "p0"), pline(seg2, "p1"), pline(seg3, "p2"), pline(gpkt(30, 3, ty=0x0301 + 0x00FE), "p3"), "enc e dev 9", "enc e stream 3"]
        ops += ["enc e encode 0 48 p0"] * n          # one frame per call: the counter before the final batch is n
        ops += ["enc e seq"]
        final = "encode 0 48 p1 p1 p1 p1 p3 p2 p2 p0"
        if kind == "c09":
            ops += ["enc e " + final, "enc e seq", "enc e encode 0 48 p2 p2", "enc e seq"]
        else:
            ops += ["enc e " + final, "enc f dev 9", "enc f stream 3", "enc f " + final]
        cases.append(Case("wrapseg", ops, nontrivial=True, tags=("wrap-with-segments",), meta={"noshrink": True}))
    return cases


def gen_c10(tier, rng):
    cases = []
    for _ in range(600 if tier == "quick" else 8000):
        pks = history_packets(rng, 5)
        ops = [pline(p, "p%d" % i) for i, p in enumerate(pks)]
        dev, stream = rng.getrandbits(16), rng.getrandbits(8)
        ops += ["enc e dev %d" % dev, "enc e stream %d" % stream]
        ops += [o for o in enc_history_ops(rng, 5, rng.randrange(1, 7), allow_ids=False) if not o.endswith(" seq")]
        mx = rng.choice([25, 40, 64, 100, 200, 1500])
        # the minimum may also EXCEED the maximum (the library does not reject it: frames are padded to the minimum); an encoder that
        # keeps the earlier call's minimum in that case pads differently from a fresh one
        mn = rng.choice([0, mx // 2, mx, mx + 1, 2 * mx, mx + rng.randrange(1, 300)])
        k = rng.randrange(0, 5)
        ids = " ".join("p%d" % rng.randrange(5) for _ in range(k))
        final = ("encode %d %d %s" % (mn, mx, ids)).rstrip()
        ops += ["enc e seq", "enc e " + final, "enc f dev %d" % dev, "enc f stream %d" % stream, "enc f " + final]
        cases.append(Case("c10", ops, nontrivial=True, tags=("used-vs-fresh",)))
    cases += wrap_with_segments(tier, "c10")
    return cases


# ---- predicates on the implementation's output, evaluated by the Lean driver (`chk` operations) -------

def _chk_ops(prop, case, im):
    # packet definitions and in-place modifications (`pk ...`) stay where they are, so that every check sees the packets as they were
    # when the call was made
    ops = []
    n = 0
    dev = stream = 0
    last_ids = []
    for o, l in zip(case.ops, im):
        w = o.split(" ")
        if w[0] == "pkt" or (w[0] == "pk" and w[1] in ("plassign", "plsettype", "plwrite", "set", "setpayload")):
            ops.append(o)
        if w[0] == "enc" and len(w) > 3 and w[2] == "dev":
            dev = int(w[3])
        if w[0] == "enc" and len(w) > 3 and w[2] == "stream":
            stream = int(w[3])
        if w[0] == "enc" and w[2].startswith("encode"):
            last_ids = w[5:]
            if prop in ("C07", "C08", "C09") and l.startswith("frames "):
                ops.append(("chkfr %s %s %s | %s" % (w[3], w[4], " ".join(w[5:]), " ".join(l.split(" ")[2:]))).replace("  ", " "))
                n += 1
        if prop == "C01" and w[0] == "dec" and w[2] == "feedlast" and l.startswith("pk "):
            ops.append(("chkrt %d %d %s | %s" % (dev, stream, " ".join(last_ids), " ".join(l.split(" ")[2:]))).replace("  ", " "))
            n += 1
    return ops, n


def make_batch_pred(prop):
    from . import core

    def batch(cases, impl, ctx):
        res = [None] * len(cases)
        pairs = []
        idx = []
        for ci, (c, im) in enumerate(zip(cases, impl)):
            if im is None:
                continue
            if any(l.startswith("CRASH") for l in im):
                res[ci] = False
                continue
            ops, n = _chk_ops(prop, c, im)
            if n:
                pairs.append(("k%d" % ci, ops))
                idx.append(ci)
        import subprocess
        slow = [0]

        def take(ids, outs):
            for ci, out in zip(ids, outs):
                verdicts = [l for l in out if l.startswith("chk ")]
                if any((prop + "=false") in l for l in verdicts):
                    res[ci] = False
                elif any((prop + "=true") in l for l in verdicts):
                    res[ci] = True

        def ev(ps, ids, timeout):
            """the Lean predicate on the implementation's frames, in chunks: the evaluator is fast on every output of the model's shape
            (a whole quick batch takes seconds) but an implementation gone wrong can return output thousands of times more fragmented
            (e.g. a 64 KiB frame tiled by 4096 empty messages); a timeout must end neither the check nor the search"""
            if not ps:
                return
            if slow[0] >= 8 and len(ps) > 1:
                return          # enough cases beyond the evaluator: the others stay undecided (the comparison with the model still sees them)
            try:
                take(ids, core.run_driver(ps, timeout=30 if len(ps) == 1 else timeout))
            except subprocess.TimeoutExpired:
                if len(ps) == 1:
                    # the predicate could not be decided on this output within the limit; it is reported as failing only together
                    # with the model / implementation difference the comparison finds on the same case (see the replay's note)
                    slow[0] += 1
                    res[ids[0]] = False
                    cases[ids[0]].meta["pred_timeout"] = True
                    return
                mid = len(ps) // 2
                t2 = max(30, timeout // 2)
                ev(ps[:mid], ids[:mid], t2)
                ev(ps[mid:], ids[mid:], t2)
        CH = 400
        for k in range(0, len(pairs), CH):
            ev(pairs[k:k + CH], idx[k:k + CH], 240)
        return res
    return batch


def pred_c09(case, impl, model, ctx):
    """implementation only: every frame carries the configured ids, counters are consecutive mod 65536 restarting at 1 after a
    reset, the version byte is the batch's version when the batch has one, the reported counter is the last frame's"""
    dev = stream = q = 0
    vers = {}
    for o, l in zip(case.ops, impl):
        if l.startswith("CRASH"):
            return False
        w = o.split(" ")
        if w[0] == "pkt":
            vers[w[1]] = int(w[3])
        if w[0] != "enc" or w[1] != "e":
            continue
        if w[2] == "dev":
            dev, q = int(w[3]) % 65536, 0
        elif w[2] == "stream":
            stream, q = int(w[3]) % 256, 0
        elif w[2] == "restart":
            q = 0
        elif w[2] == "seq":
            if l != "seq %d" % q:
                return False
        elif w[2].startswith("encode"):
            if not l.startswith("frames "):
                # C09 quantifies over completed calls: a call the library rejects (an id the script does not define - only a shrunk
                # script has one) is not one; the comparison with the model still sees the line
                return None
            bv = {vers.get(i) for i in w[5:]}
            for f in l.split(" ")[2:]:
                b = bytes.fromhex(f[:16])
                q = (q + 1) % 65536
                if int.from_bytes(b[2:4], "big") != dev or b[5] != stream or int.from_bytes(b[6:8], "big") != q or b[1] != 0:
                    return False
                if len(bv) == 1 and b[0] != list(bv)[0] % 256:
                    return False
    return True


def pred_c10(case, impl, model, ctx):
    """implementation only: the frames of the used encoder equal those of the fresh one apart from a constant counter offset"""
    if any(l.startswith("CRASH") for l in impl) or len(impl) < len(case.ops):
        return False
    used = fresh = None
    used_args = fresh_args = None
    k = None
    conf = {"e": {}, "f": {}}
    for o, l in zip(case.ops, impl):
        w = o.split(" ")
        if w[0] == "enc" and w[2] in ("dev", "stream") and w[1] in conf and len(w) > 3:
            conf[w[1]][w[2]] = w[3]
        if w[0] == "enc" and w[1] == "e" and w[2] == "seq":
            k = int(l.split(" ")[1]) if l.startswith("seq ") else None
        if w[0] == "enc" and w[2].startswith("encode"):
            if w[1] == "e":
                used, used_args = l, w[3:]
            elif w[1] == "f":
                fresh, fresh_args = l, w[3:]
    if used is None or fresh is None or k is None:
        return None
    # the predicate speaks about the SAME batch and context on both encoders, both calls accepted (a shrunk script in which the final
    # call of the used encoder was removed compares unrelated calls: not applicable)
    if used_args != fresh_args or not used.startswith("frames ") or not fresh.startswith("frames "):
        return None
    if conf["e"] != conf["f"]:
        return None       # differently configured encoders (only a shrunk script has them): the predicate does not apply
    fu, ff = used.split(" ")[2:], fresh.split(" ")[2:]
    if len(fu) != len(ff):
        return False
    for a, b in zip(fu, ff):
        if a[:12] != b[:12] or a[16:] != b[16:]:
            return False
        if (int(b[12:16], 16) + k) % 65536 != int(a[12:16], 16):
            return False
    return True


def batch_pred_c09(cases, impl, ctx):
    """pred_c09 (ids, counters, version, reported counter - Python) and the Lean clause 'every frame announces the message type of its
    messages' (driver, chkfr) on the implementation's frames"""
    lean = make_batch_pred("C09")(cases, impl, ctx)
    out = []
    for c, im, lv in zip(cases, impl, lean):
        if im is None:
            out.append(None)
            continue
        pv = pred_c09(c, im, None, ctx)
        out.append(False if (pv is False or lv is False) else pv)
    return out
