"""Generators for C14 (value semantics) and C16 (status tracker)."""
import itertools

from . import proto
from .proto import Pkt
from .runner import Case


# ---- C14 ------------------------------------------------------------------------------

def c14_sources(rng):
    """packets all of whose fields are non-default and pairwise different, incl. the corner cases"""
    out = []
    out.append(Pkt(None, None))                                               # no payload
    out.append(Pkt(0x0104, b"", ver=1))                                       # zero-length payload (compares equal to the empty packet)
    out.append(Pkt(0x0301, b"", ver=1))                                       # zero-length payload of another type
    ty, d = proto.valid_payload(rng, "can")
    out.append(Pkt(ty, d, ver=2, dev=0x1234, stream=0x56, seq=0x789A, ts=0x0102030405060708, ifid=0x0B0C0D0E, vend=0x0F10, flags=0x33, seg=4))
    ty, d = proto.valid_payload(rng, "cm")
    out.append(Pkt(ty, d, ver=3, dev=0x4321, stream=0x65, seq=0xA987, ts=0x0807060504030201, ifid=0x0E0D0C0B, vend=0x100F, flags=0x21, seg=8))
    # payloads that are present but type-invalid and non-empty (what the decoder returns for a message rejected by inner validation)
    out.append(Pkt(0x0000, bytes(20), ver=5, dev=21, stream=22, seq=23, ts=24, ifid=25, vend=26, flags=27, seg=0))
    out.append(Pkt(0x0100, b"\x01\x02\x03", ver=5, dev=21, stream=22, seq=23, ts=24, ifid=25, vend=26, flags=27, seg=0))
    out.append(Pkt(0x01FF, b"\x5a", ver=4, dev=7, stream=8, seq=9, ts=10, ifid=11, vend=12, flags=13, seg=12))   # 1-byte generic
    out.append(Pkt(0x01FF, b"\x5b", ver=4, dev=7, stream=8, seq=9, ts=10, ifid=11, vend=12, flags=13, seg=12))   # differs in the payload byte only
    return out


def show_all(n):
    ops = []
    for i in range(n):
        ops.append("pk show o%d" % i)
    for i in range(n):
        for j in range(n):
            ops.append("pk eq o%d o%d" % (i, j))
    return ops


def gen_c14(tier, rng):
    cases = []
    srcs = c14_sources(rng)
    ns = len(srcs)
    # exhaustive: store of 3 objects, sequences of <= 3 (quick) / 4 operations, sources drawn from the corner cases
    opsk = ["copy", "move", "assign", "massign"]
    triples = list(itertools.product(range(ns), repeat=3))
    rng.shuffle(triples)
    triples = triples[:12 if tier == "quick" else 80]
    for ti, init in enumerate(triples):
        defs = [srcs[k].line("o%d" % i) for i, k in enumerate(init)]
        depth = 2 if (tier == "quick" or ti >= 3) else 3      # thorough: depth 3 for three initial stores, depth 2 for the rest
        for L in range(1, depth + 1):
            for seq in itertools.product(itertools.product(opsk, range(3), range(3)), repeat=L):
                if any(o in ("move",) and a == b for o, a, b in seq):
                    continue
                ops = list(defs)
                for o, a, b in seq:
                    ops.append("pk %s o%d o%d" % (o, a, b))
                    ops += show_all(3)
                cases.append(Case("c14", ops, nontrivial=True, tags=("exhaustive",)))
    # x == x for every corner case; assignment onto equal-looking targets
    for k, p in enumerate(srcs):
        ops = [p.line("a"), "pk eq a a", "pk assign a a", "pk show a", "pk eq a a"]
        for k2, q in enumerate(srcs):
            ops += [q.line("t"), "pk eq t a", "pk assign t a", "pk show t", "pk eq t a", "pk eq a t"]
        cases.append(Case("c14r", ops, True, ("reflexive+assign",)))
    # equality agrees with field-by-field comparison: packets that differ from a base packet in EXACTLY ONE field (each header
    # field, the payload type, one payload byte, the payload length)
    base = dict(ty=0x0101, data=bytes(range(1, 21)), ver=2, dev=0x1234, stream=0x56, seq=0x789A, ts=0x0102030405060708, ifid=0x0B0C0D0E, vend=0x0F10,
                flags=0x33, seg=4)
    variants = [dict(base)]
    for k, v in (("ver", 3), ("dev", 0x1235), ("stream", 0x57), ("seq", 0x789B), ("ts", 0x0102030405060709), ("ifid", 0x0B0C0D0F), ("vend", 0x0F11),
                 ("flags", 0x32), ("seg", 8), ("ty", 0x0102), ("data", bytes(range(1, 20)) + b"\xff"), ("data", bytes(range(1, 20)))):
        d = dict(base)
        d[k] = v
        variants.append(d)
    ops = []
    for i, d in enumerate(variants):
        ops.append(Pkt(d["ty"], d["data"], ver=d["ver"], dev=d["dev"], stream=d["stream"], seq=d["seq"], ts=d["ts"], ifid=d["ifid"], vend=d["vend"],
                       flags=d["flags"], seg=d["seg"]).line("v%d" % i))
    for i in range(len(variants)):
        for j in range(len(variants)):
            ops.append("pk eq v%d v%d" % (i, j))
    cases.append(Case("c14f", ops, True, ("one-field-differs",), meta={"fieldwise": len(variants)}))
    # byte-identical non-empty payloads under types that are all "invalid" (a zero message-type or payload-type byte) but DIFFERENT:
    # equality is field by field, so they are all unequal (and each equals itself)
    tys = [0x0100, 0x0300, 0x0001, 0x0002, 0xFF00, 0x0101]
    ops = [Pkt(t, b"\x11\x22\x33\x44").line("z%d" % i) for i, t in enumerate(tys)]
    for i in range(len(tys)):
        for j in range(len(tys)):
            ops.append("pk eq z%d z%d" % (i, j))
    cases.append(Case("c14z", ops, True, ("invalid-but-different-types",), meta={"eqclasses": [[i] for i in range(len(tys))], "noshrink": True}))
    # payloads whose size is a multiple of 65536 (the 16-bit wire length reads 0): equality must still look at the bytes
    ops = [Pkt(0x01FF, b"").line("z0").replace(" -", " gen:65536:1"), Pkt(0x01FF, b"").line("z1").replace(" -", " gen:65536:2"),
           Pkt(0x01FF, b"").line("z2").replace(" -", " gen:65536:1"), Pkt(0x01FF, b"").line("z3"), Pkt(None, None).line("z4")]
    for i in range(5):
        for j in range(5):
            ops.append("pk eq z%d z%d" % (i, j))
    cases.append(Case("c14z", ops, True, ("payload-multiple-of-65536",), meta={"eqclasses": [[0, 2], [1], [3, 4]], "noshrink": True}))
    # a copy shares no state with its original: the reference getPayload() returns is taken BEFORE the copy / assignment and a payload
    # byte is written through it AFTER (a copy-on-write payload that detaches only in getPayload() shows here and nowhere else); and
    # packets built from WIRE bytes (typed payload object inside, e.g. a CAN payload) whose payload is modified in place before the
    # copy (an error flag set through the payload reference): every observation of the copy equals that of the source
    for _ in range(30 if tier == "quick" else 300):
        ops = []
        src = Pkt(rng.choice([0x0101, 0x0102, 0x0108, 0x01FF, 0x0301]), proto.rand_bytes(rng, rng.choice([2, 8, 17, 40])), ver=rng.randrange(1, 4), dev=rng.getrandbits(16),
                  stream=rng.getrandbits(8), seq=rng.getrandbits(16), ts=rng.getrandbits(64), ifid=rng.getrandbits(32), vend=rng.getrandbits(16), flags=rng.getrandbits(8) & 0xB3,
                  seg=rng.choice([0, 4, 8, 12]))
        ops.append(src.line("a"))
        ops.append(Pkt(0x0103, proto.rand_bytes(rng, 9)).line("t"))
        for k in range(3):
            op = rng.choice(["refcopy", "refassign"])
            dst = rng.choice(["b", "t"])
            ops += ["pk show a", "pk %s %s a %d %d" % (op, dst, rng.randrange(0, 2), rng.getrandbits(8)), "pk show %s" % dst, "pk show a", "pk eq %s a" % dst]
        cases.append(Case("c14s", ops, True, ("no-shared-state",)))
    for _ in range(30 if tier == "quick" else 300):
        kind = rng.choice(["can", "canfd", "eth", "lin", "analog"])
        ty, body = proto.valid_payload(rng, kind)
        if len(body) < 2:
            continue
        m = proto.message(rng.getrandbits(64), rng.getrandbits(32), rng.getrandbits(8) & 0xB3, ty & 0xFF, body)
        ops = ["pk wire a 1 " + m.hex(), "pk show a"]
        for k in range(3):
            ops += ["pk plwrite a %d %d" % (rng.randrange(0, 2), rng.choice([1, 2, 0x10, 0xFF, rng.getrandbits(8)])), "pk show a",
                    "pk %s b a" % rng.choice(["copy", "assign"]), "pk show b", "pk show a", "pk eq a b", "pk eq b a"]
        cases.append(Case("c14w", ops, True, ("wire-packet-modified-in-place",), meta={"copy_equals_source": True}))
    # payloads the application marked INVALID after filling them (type 0 set in place: the bytes stay): copy construction, copy assignment
    # and the packet-level copies must all carry the bytes over (a copy constructor that goes through the "skip the memcpy for an invalid
    # type" constructor zero-fills them; assignment does not, so the two kinds of copy disagree)
    for _ in range(20 if tier == "quick" else 200):
        d = proto.rand_bytes(rng, rng.choice([1, 5, 13, 40]))
        ops = ["pl new a 0101 " + proto.hexs(d), "pl settype a 0", "pl show a", "pl copy b a", "pl show b", "pl eq a b",
               "pl new c 0103 " + proto.hexs(proto.rand_bytes(rng, 3)), "pl assign c a", "pl show c", "pl eq c b"]
        ops += [Pkt(0x0108, d + b"\x01").line("p"), "pk plsettype p 0", "pk show p", "pk copy q p", "pk show q", "pk eq p q",
                Pkt(0x0103, b"\x01\x02").line("t"), "pk assign t p", "pk show t", "pk eq t q"]
        cases.append(Case("c14i", ops, True, ("invalid-typed-payload-copied",), meta={"copy_equals_source": True}))
    # TECMP payload objects: copy / assignment / equality (incl. x == x and empty payloads)
    for _ in range(20 if tier == "quick" else 200):
        ops = []
        pls = [(0x0302, proto.rand_bytes(rng, rng.choice([0, 1, 5, 13]))), (0x0302, b""), (0x0304, b""), (0x0100, proto.rand_bytes(rng, 36)), (0xFFFF, b"\x01\x02")]
        for i, (ty, d) in enumerate(pls):
            ops.append("tpl new t%d %04x %s" % (i, ty, proto.hexs(d)))
        n = len(pls)
        for _j in range(6):
            o = rng.choice(["copy", "assign"])
            a, b = rng.randrange(n), rng.randrange(n)
            ops.append("tpl %s %s t%d" % (o, ("u%d" % a) if o == "copy" else ("t%d" % a), b))
            if o == "copy":
                ops += ["tpl show u%d" % a, "tpl eq u%d t%d" % (a, b), "tpl eq t%d u%d" % (b, a)]
            for i in range(n):
                ops += ["tpl show t%d" % i, "tpl eq t%d t%d" % (i, i), "tpl eq t%d t%d" % (i, (i + 1) % n)]
        cases.append(Case("c14t", ops, True, ("tecmp-payloads",)))
    # aliasing: a copy shares no state with its original (mutate every field of the copy, replace its payload, destroy it)
    for _ in range(60 if tier == "quick" else 600):
        p = proto.rand_packet(rng)
        p.seg = rng.choice([0, 4, 8, 12])
        ops = [p.line("a"), "pk show a"]
        how = rng.choice(["copy", "assign"])
        ops.append("pk %s b a" % how)
        for f, v in (("version", 200), ("deviceId", 60000), ("streamId", 201), ("sequenceCounter", 60001), ("timestamp", 1 << 63),
                     ("interfaceId", 4000000000), ("vendorId", 60002), ("commonFlags", 0xA5), ("segmentType", 8)):
            ops.append("pk set b %s %d" % (f, v))
        ops += ["pk show a", "pk setpayload b 01ff deadbeef", "pk show a", "pk show b", "pk eq a b", "pk drop b", "pk show a",
                "pk copy c a", "pk drop a", "pk show c"]
        cases.append(Case("c14a", ops, True, ("aliasing",)))
    # payload objects
    for _ in range(60 if tier == "quick" else 600):
        ops = []
        pls = [(0x0101, proto.rand_bytes(rng, rng.choice([0, 1, 16, 20]))), (0x0104, b""), (0x0301, b""), (0x0101, proto.rand_bytes(rng, 16)),
               (0, proto.rand_bytes(rng, 3))]
        for i, (ty, d) in enumerate(pls):
            ops.append("pl new p%d %04x %s" % (i, ty, proto.hexs(d)))
        n = len(pls)
        for _j in range(8):
            o = rng.choice(["copy", "assign", "move", "massign"])
            a, b = rng.randrange(n), rng.randrange(n)
            ops.append("pl %s q%d p%d" % (o, a, b) if o in ("copy",) else "pl %s p%d p%d" % (o, a, b))
            if o == "copy":
                ops += ["pl show q%d" % a, "pl eq q%d p%d" % (a, b), "pl eq p%d q%d" % (b, a)]
            # whatever survived
            for i in range(n):
                ops.append("pl show p%d" % i)
            for i in range(n):
                ops.append("pl eq p%d p%d" % (i, i))
                ops.append("pl eq p%d p%d" % (i, (i + 1) % n))
        cases.append(Case("c14p", ops, True, ("payloads",), meta={"lenient": True}))
    return cases


def c14_view(case, lines):
    # operations on ids that no longer exist are rejected identically on both sides ("bad-op")
    return lines


def pred_c14(case, impl, model, ctx):
    """implementation only: after copy/assign/move the target shows the source's former state; x == x; == symmetric; != is the negation"""
    shown = {}
    prev = {}
    for o, l in zip(case.ops, impl):
        if l.startswith("CRASH"):
            return False
        w = o.split(" ")
        if w[0] == "pkt":
            pass
        if w[0] == "pk" and w[1] == "eq" and l.startswith("eq="):
            e = l[3] == "1"
            n = l.split(" ")[1][3] == "1"
            if e == n:
                return False
            if w[2] == w[3] and not e:
                return False
    # field-by-field: in the one-field-differs case v_i == v_j exactly when i == j
    if case.meta.get("fieldwise"):
        for o, l in zip(case.ops, impl):
            w = o.split(" ")
            if w[0] == "pk" and w[1] == "eq":
                if (l[3] == "1") != (w[2] == w[3]):
                    return False
    if case.meta.get("eqclasses"):
        cls = {}
        for ci, members in enumerate(case.meta["eqclasses"]):
            for x in members:
                cls["z%d" % x] = ci
        for o, l in zip(case.ops, impl):
            w = o.split(" ")
            if w[0] == "pk" and w[1] == "eq":
                if (l[3] == "1") != (cls[w[2]] == cls[w[3]]):
                    return False
    # symmetric: collect eq results per (a, b) in the same block (between mutating operations)
    block = {}
    for o, l in zip(case.ops, impl):
        w = o.split(" ")
        if w[0] == "pk" and w[1] == "eq":
            block[(w[2], w[3])] = l
            if (w[3], w[2]) in block and block[(w[3], w[2])] != l:
                return False
        elif w[0] in ("pk", "pkt") and w[1] != "show":
            block = {}
    if case.meta.get("copy_equals_source"):
        last = None
        for o, l in zip(case.ops, impl):
            w = o.split(" ")
            if w[0] == "pk" and w[1] in ("copy", "assign"):
                last = (w[2], w[3])
            elif w[0] == "pk" and w[1] == "eq" and last and {w[2], w[3]} == set(last) and l.startswith("eq=") and l[3] != "1":
                return False
            elif w[0] == "pk" and w[1] in ("plwrite", "wire"):
                last = None
    # target shows the source's former state
    state = {}
    for o, l in zip(case.ops, impl):
        w = o.split(" ")
        if w[0] == "pk" and w[1] == "show" and l != "bad-op":
            state[w[2]] = l
    # replay: track expected show strings
    exp = {}
    for o, l in zip(case.ops, impl):
        w = o.split(" ")
        if w[0] == "pk" and w[1] == "show" and l != "bad-op":
            if w[2] in exp and exp[w[2]] is not None and exp[w[2]] != l:
                return False
            exp[w[2]] = l
        elif w[0] == "pk" and w[1] in ("copy", "assign") and l == "ok":
            exp[w[2]] = exp.get(w[3])
        elif w[0] == "pk" and w[1] == "move" and l == "ok":
            exp[w[2]] = exp.get(w[3])
            exp[w[3]] = None
        elif w[0] == "pk" and w[1] == "massign" and l == "ok":
            if w[2] != w[3]:
                exp[w[2]], exp[w[3]] = exp.get(w[3]), exp.get(w[2])
        elif w[0] == "pk" and w[1] in ("set", "setpayload", "drop", "plwrite", "wire"):
            exp[w[2]] = None
        elif w[0] == "pk" and w[1] in ("refcopy", "refassign") and l == "ok":
            exp[w[2]] = exp.get(w[3])      # the target shows the source as it was BEFORE the write through the old reference
            exp[w[3]] = None
        elif w[0] == "pkt":
            exp[w[1]] = None
    return True


# ---- C16 ------------------------------------------------------------------------------

def st_packet(rng, kind, dev, ifid, tag):
    if kind == "cm":
        # every third message repeats the device's previous payload byte for byte (only header fields differ: timestamp, counter, flags):
        # an update that is skipped "because nothing changed" keeps the older packet
        ptag = tag if tag % 3 else 0
        ty, d = 0x0301, proto.cm_payload(desc=b"dev%d-%d" % (dev, ptag), serial=b"%d" % ptag, uptime=ptag)
    elif kind == "if":
        ptag = tag if tag % 3 else 0
        ty, d = 0x0302, proto.if_payload(stream_ids=bytes([ptag % 256]), if_id=ifid, rx=ptag)
    elif kind == "other":
        # a status message of another kind (config status, events, vendor status, unknown) whose first four payload bytes spell `ifid`
        ty = 0x0300 | [0x03, 0x04, 0x05, 0xFF, 0x7B][tag % 5]
        d = proto.be(ifid, 4) + bytes([tag % 256, 1, 2, 3] * 9)
    elif kind == "badif":
        # an interface status message that the validator rejects (status byte 3): typed invalid, must be ignored
        g = bytearray(proto.if_payload(stream_ids=bytes([tag % 256]), if_id=ifid, rx=tag))
        g[29] = 3
        ty, d = 0x0302, bytes(g)
    else:
        ty, d = 0x0101, proto.can_payload(b"\x01\x02", ident=tag)
    # every member of the stored packet varies from update to update (a refresh that forgets one member keeps the old value):
    # version, segment type and common flags too, not only the fields a status message normally carries
    return Pkt(ty, d, ver=1 + tag % 3, dev=dev, stream=tag % 256, seq=tag % 65536, ts=tag, ifid=ifid if kind == "data" else 0, vend=tag % 65536,
               flags=(tag * 37) & 0xB3, seg=(0, 4, 8, 12)[(tag // 2) % 4])


def c16_huge_if_cases(rng):
    """interface status payloads of 65536 bytes and more (32750 stream ids + vendor data): the 16-bit wire length of such a packet wraps;
    the tracker must store them like any other (new interface: an entry; known interface: the latest packet)"""
    cases = []
    for total_ids, vend in ((32750, 32750), (32750, 32752), (40000, 25570)):
        ops = [st_packet(rng, "cm", 1, 0, 101).line("p1")]
        small = st_packet(rng, "if", 1, 10, 102)
        ops.append(small.line("p2"))
        big = Pkt(0x0302, proto.if_payload(stream_ids=bytes([7]) * total_ids, vendor=bytes([9]) * vend, if_id=10, rx=5), ver=1, dev=1, stream=3, seq=4, ts=103)
        ops.append(big.line("p3"))
        big2 = Pkt(0x0302, proto.if_payload(stream_ids=bytes([8]) * total_ids, vendor=bytes([6]) * vend, if_id=20, rx=6), ver=1, dev=1, stream=3, seq=5, ts=104)
        ops.append(big2.line("p4"))
        ops += ["st s update p1", "st s update p2", "st s dump", "st s update p3", "st s dump", "st s update p4", "st s dump", "st s ifidx 1 10", "st s ifidx 1 20"]
        cases.append(Case("c16big", ops, nontrivial=True, tags=("if-status-of-64KiB-and-more",), meta={"noshrink": True}))
    # updates whose timestamps go BACKWARDS (clock re-sync, reboot): the latest message wins, not the one with the largest timestamp
    for kinds in (("cm", "if", "if", "if"), ("cm", "cm", "if", "if")):
        ops, order = [], []
        for k, kind in enumerate(kinds):
            tag = 20 - k                                  # p20, p19, p18, p17: defined and applied in this order
            ops.append(st_packet(rng, kind, 1, 10, 100 + tag).line("p%d" % tag))
            order.append("st s update p%d" % tag)
        ops += [x for o in order for x in (o, "st s dump")]
        cases.append(Case("c16time", ops, nontrivial=True, tags=("timestamps-going-backwards",), meta={"noshrink": True}))
    # payload sizes that are an exact multiple of 65536 bytes (the 16-bit wire length reads 0), capture-module and interface status
    over = len(proto.cm_payload(desc=b"d"))
    cm = Pkt(0x0301, proto.cm_payload(desc=b"d", vendor=bytes([5]) * (65536 - over)), ver=1, dev=2, stream=1, seq=1, ts=101)
    cm2 = Pkt(0x0301, proto.cm_payload(desc=b"e", vendor=bytes([6]) * (65536 - over)), ver=1, dev=2, stream=1, seq=2, ts=102)
    ifb = Pkt(0x0302, proto.if_payload(stream_ids=bytes([1]) * 30000, vendor=bytes([2]) * (65536 - 40 - 30000), if_id=30), ver=1, dev=2, stream=1, seq=3, ts=103)
    assert len(cm.data) == 65536 and len(ifb.data) == 65536, (len(cm.data), len(ifb.data))
    ops = [cm.line("p1"), cm2.line("p2"), ifb.line("p3"), "st s update p1", "st s dump", "st s update p3", "st s dump", "st s update p2", "st s dump", "st s idx 2", "st s ifidx 2 30"]
    cases.append(Case("c16big", ops, nontrivial=True, tags=("status-payload-multiple-of-64KiB",), meta={"noshrink": True}))
    return cases


def c16_copy_cases(tier, rng):
    """a tracker that is a COPY of another one shares nothing with it: after `t = s`, updates, removals and clears of s (also from the
    other side) leave t exactly as it was when the copy was made (element objects held through shared pointers would be shared)"""
    cases = []
    for _ in range(20 if tier == "quick" else 200):
        ops = []
        n = 0

        def pk(kind, dev, ifid):
            nonlocal n
            n += 1
            ops.append(st_packet(rng, kind, dev, ifid, 100 + n).line("p%d" % n))
            return "p%d" % n
        for d in (1, 2):
            ops.append("st s update " + pk("cm", d, 0))
            for i in (10, 20):
                ops.append("st s update " + pk("if", d, i))
        ops += ["st s dump", "st t copyfrom s", "st t dump"]
        for _k in range(rng.randrange(2, 6)):
            r = rng.random()
            which = rng.choice(["s", "s", "t"])
            if r < 0.5:
                ops.append("st %s update %s" % (which, pk("if", rng.choice([1, 2]), rng.choice([10, 20, 30]))))
            elif r < 0.7:
                ops.append("st %s update %s" % (which, pk("cm", rng.choice([1, 2, 3]), 0)))
            elif r < 0.85:
                ops.append("st %s rmif %d %d" % (which, rng.choice([1, 2]), rng.choice([10, 20])))
            else:
                ops.append("st %s rmdev %d" % (which, rng.choice([1, 2])))
            ops += ["st s dump", "st t dump"]
        cases.append(Case("c16copy", ops, nontrivial=True, tags=("copied-tracker",), meta={"copycase": True}))
    return cases


def pred_c16_copy(case, impl):
    """each tracker equals ITS OWN latest-message map: the map of s at the moment of the copy, plus the operations applied to that tracker
    only.  Judged by replaying every operation on the tracker it names; a dump must show exactly the devices / interfaces / latest packet
    ids of that tracker's own history."""
    spec = {"s": {}, "t": {}}
    pkinfo = {}
    for o, l in zip(case.ops, impl):
        if l.startswith("CRASH"):
            return False
        w = o.split(" ")
        if w[0] == "pkt":
            data = b"" if w[12] == "-" else bytes.fromhex(w[12])
            pkinfo[w[1]] = (w[2], int(w[4]), data, w[7])
        elif w[0] == "st" and w[2] == "copyfrom":
            import copy
            spec[w[1]] = copy.deepcopy(spec[w[3]])
        elif w[0] == "st" and w[2] == "update":
            ty, dev, data, ts = pkinfo[w[3]]
            sp = spec[w[1]]
            if dev in sp:
                if ty == "0302":
                    sp[dev][1][int.from_bytes(data[0:4], "big")] = ts
                elif ty == "0301":
                    sp[dev] = (ts, sp[dev][1])
            elif ty == "0301":
                sp[dev] = (ts, {})
        elif w[0] == "st" and w[2] == "rmdev":
            spec[w[1]].pop(int(w[3]) % 65536, None)
        elif w[0] == "st" and w[2] == "rmif":
            if int(w[3]) % 65536 in spec[w[1]]:
                spec[w[1]][int(w[3]) % 65536][1].pop(int(w[4]), None)
        elif w[0] == "st" and w[2] == "dump":
            d = parse_dump(l)
            if d is None:
                return False
            sp = spec[w[1]]
            if sorted(x[0] for x in d) != sorted(sp.keys()):
                return False
            for dev, pkv, ifs in d:
                if pkv.split(":")[5] != sp[dev][0]:
                    return False
                if sorted((i, v.split(":")[5]) for i, v in ifs) != sorted(sp[dev][1].items()):
                    return False
    return True


def gen_c16(tier, rng):
    cases = c16_huge_if_cases(rng) + c16_copy_cases(tier, rng)
    devs = [1, 2, 3]
    ifs = [10, 20]
    # alphabet of operations; packets are defined on the fly so that every update carries a distinct packet
    letters = []
    for d in devs:
        letters.append(("cm", d, 0))
        for i in ifs:
            letters.append(("if", d, i))
        letters.append(("rmdev", d, 0))
        letters.append(("rmif", d, ifs[0]))
    letters.append(("data", devs[0], 5))
    letters.append(("other", devs[0], ifs[0]))
    letters.append(("clear", 0, 0))
    probes = ["st s idx %d" % d for d in devs + [9]] + ["st s ifidx %d %d" % (d, i) for d in devs[:2] for i in ifs + [99]]

    def script(seq):
        ops = []
        for n, (k, d, i) in enumerate(seq):
            if k in ("cm", "if", "data", "other", "badif"):
                ops.append(st_packet(rng, k, d, i, 100 + n).line("p%d" % n))
                ops.append("st s update p%d" % n)
            elif k == "rmdev":
                ops.append("st s rmdev %d" % d)
            elif k == "rmif":
                ops.append("st s rmif %d %d" % (d, i))
            else:
                ops.append("st s clear")
            ops.append("st s dump")
            ops += probes
        return ops
    depth = 3 if tier == "quick" else 4
    for L in range(1, depth + 1):
        for seq in itertools.product(letters, repeat=L):
            cases.append(Case("c16", script(seq), nontrivial=L > 1, tags=("exhaustive%d" % L,)))
    if tier == "quick":
        # a sample of length-4 and length-5 histories
        for _ in range(1500):
            L = rng.choice([4, 5])
            cases.append(Case("c16", script([rng.choice(letters) for _ in range(L)]), True, ("sampled%d" % L,)))
    for _ in range(40 if tier == "quick" else 400):
        seq = []
        for _j in range(200):
            r = rng.random()
            d = rng.choice(devs + [65535, 0])
            i = rng.choice(ifs + [0, 4294967295])
            seq.append(("cm", d, 0) if r < 0.25 else ("if", d, i) if r < 0.55 else ("other", d, i) if r < 0.6 else ("badif", d, i) if r < 0.62
                       else ("data", d, i) if r < 0.65 else ("rmdev", d, 0) if r < 0.8
                       else ("rmif", d, i) if r < 0.97 else ("clear", 0, 0))
        ops = []
        for n, (k, d, i) in enumerate(seq):
            if k in ("cm", "if", "data", "other", "badif"):
                ops.append(st_packet(rng, k, d, i, 1000 + n).line("p%d" % n))
                ops.append("st s update p%d" % n)
            elif k == "rmdev":
                ops.append("st s rmdev %d" % d)
            elif k == "rmif":
                ops.append("st s rmif %d %d" % (d, i))
            else:
                ops.append("st s clear")
            if n % 5 == 4:
                ops.append("st s dump")
                ops.append("st s dumpmut")
                ops += ["st s idx %d" % x for x in devs + [65535, 0, 9]]
        ops.append("st s dump")
        cases.append(Case("c16r", ops, True, ("random200",), meta={"noshrink": False}))
    return cases


def parse_dump(line):
    """devs n | dev id pkt ifs m ; ifid pkt ; ... -> list of (devid, pktview, [(ifid, pktview)])"""
    if not line.startswith("devs "):
        return None
    parts = line.split(" | ")
    out = []
    for p in parts[1:]:
        items = p.split(" ; ")
        w = items[0].split(" ")
        dev = int(w[1])
        pk = w[2]
        ifs = []
        for it in items[1:]:
            x = it.split(" ")
            ifs.append((int(x[0]), x[1]))
        out.append((dev, pk, ifs))
    return out


def c16_view(case, lines):
    """the compared view is the sorted map (device -> packet, interface -> packet); vector order and index results are
    checked by the predicate against the implementation's own dump"""
    out = []
    for l in lines:
        d = parse_dump(l)
        if d is not None:
            out.append(sorted((dev, pk, sorted(ifs)) for dev, pk, ifs in d))
        elif l.startswith("idx=") or l.startswith("ifidx="):
            out.append(("found", l.split(" ")[0].split("=")[1] != l.split(" ")[1].split("=")[1]))
        else:
            out.append(l)
    return out


def pred_c16(case, impl, model, ctx):
    """implementation only, against the latest-message-map specification replayed in Python, and index results against the
    implementation's own dump: the index returned for id x is where x sits, or the count"""
    if case.meta.get("copycase"):
        return pred_c16_copy(case, impl)
    spec = {}
    pk = {}
    hdrs = {}
    last_dump = None

    def same_header(view, pid):
        # every header member of the stored packet is the one of the latest packet (a refresh that skips a member keeps the old value)
        return view.split(":")[1:10] == hdrs.get(pid)
    for o, l in zip(case.ops, impl):
        if l.startswith("CRASH"):
            return False
        w = o.split(" ")
        if w[0] == "pkt":
            ty = w[2]
            dev = int(w[4])
            data = b"" if w[12] == "-" else bytes.fromhex(w[12])
            pk[w[1]] = (ty, dev, data)
            hdrs[w[1]] = w[3:12]      # version, device, stream, counter, timestamp, interface id, vendor id, flags, segment type
        elif w[0] == "st" and w[2] == "update":
            ty, dev, data = pk[w[3]]
            view = None     # the packet view is taken from the dump; the spec tracks which packet id is expected
            if dev in spec:
                if ty == "0302":
                    spec[dev][1][int.from_bytes(data[0:4], "big")] = w[3]
                elif ty == "0301":
                    spec[dev] = (w[3], spec[dev][1])
            elif ty == "0301":
                spec[dev] = (w[3], {})
        elif w[0] == "st" and w[2] == "rmdev":
            spec.pop(int(w[3]) % 65536, None)
        elif w[0] == "st" and w[2] == "rmif":
            if int(w[3]) % 65536 in spec:
                spec[int(w[3]) % 65536][1].pop(int(w[4]), None)
        elif w[0] == "st" and w[2] == "clear":
            spec = {}
        elif w[0] == "st" and w[2] == "dump":
            d = parse_dump(l)
            if d is None:
                return False
            last_dump = d
            if sorted(x[0] for x in d) != sorted(spec.keys()):
                return False     # exactly one entry per device id
            for dev, pkv, ifs in d:
                if sorted(i for i, _ in ifs) != sorted(spec[dev][1].keys()):
                    return False
                # the stored packets are the latest ones: compare a field that identifies the packet (timestamp = tag)
                ts = int(pkv.split(":")[5])
                if "p%d" % (ts - 100) != spec[dev][0] and "p%d" % (ts - 1000) != spec[dev][0]:
                    return False
                if not same_header(pkv, spec[dev][0]):
                    return False
                for i, v in ifs:
                    ts = int(v.split(":")[5])
                    if "p%d" % (ts - 100) != spec[dev][1][i] and "p%d" % (ts - 1000) != spec[dev][1][i]:
                        return False
                    if not same_header(v, spec[dev][1][i]):
                        return False
        elif w[0] == "st" and w[2] == "idx" and last_dump is not None:
            idx = int(l.split(" ")[0].split("=")[1])
            cnt = int(l.split(" ")[1].split("=")[1])
            ids = [x[0] for x in last_dump]
            want = ids.index(int(w[3])) if int(w[3]) in ids else len(ids)
            if idx != want or cnt != len(ids):
                return False
        elif w[0] == "st" and w[2] == "ifidx" and last_dump is not None:
            ids = [x[0] for x in last_dump]
            if int(w[3]) not in ids:
                if l != "nodev":
                    return False
            else:
                ifs = [i for i, _ in last_dump[ids.index(int(w[3]))][2]]
                idx = int(l.split(" ")[0].split("=")[1])
                want = ifs.index(int(w[4])) if int(w[4]) in ifs else len(ifs)
                if idx != want:
                    return False
    return True
