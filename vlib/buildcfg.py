"""The library's OWN build configuration, asked from its build system on every run.

`cmake -S <repo> -B <scratch> -DCMAKE_EXPORT_COMPILE_COMMANDS=ON` (tests and example switched off; 0.4 s) gives the compile command of
every translation unit of the target `asam_cmp`.  From it the harness build, the translator's clang run and the reflection program
take: the list of sources (not `src/*.cpp`: a file the build does not compile is not part of the library, and a file it compiles
from elsewhere is), the preprocessor definitions (`-D` / `-U` / `-include`), the include directories, the language standard and the
code-generation options that change what the sources MEAN (`-fshort-enums`, `-fpack-struct`, `-funsigned-char`, `-fwrapv`, `-m32` ...).
Warning, optimisation, debug and output options are dropped (the checks choose their own: `-O0`, sanitizers).

A change of the build files that changes the meaning of unchanged sources (a definition that switches a code path, another packing
default, a dropped or added source file) therefore reaches every check; without this module it reached none.
If the build system cannot be asked, BuildError is raised (a broken correspondence, reported as such) — there is no fallback to a guess.
"""
import hashlib
import json
import os
import shlex
import shutil
import subprocess
import tempfile

_cache = {}

# options that are about diagnostics, optimisation, debug info or output files: never forwarded
_DROP_PREFIX = ("-W", "-O", "-g", "-pedantic", "-M", "-pipe", "-fdiagnostics", "-fcolor", "-fmessage", "-fPIC", "-fPIE", "-fpic", "-fpie", "-fvisibility")
_DROP_WITH_ARG = ("-o", "-MF", "-MT", "-MQ")
# code-generation options clang is given too (it rejects unknown -f options, and gcc-only ones do not change the AST)
_CLANG_OK_PREFIX = ("-fshort-enums", "-fpack-struct", "-funsigned-char", "-fsigned-char", "-fwrapv", "-fno-strict-aliasing", "-fstrict-aliasing",
                    "-fshort-wchar", "-fno-short-enums", "-funsigned-bitfields", "-fsigned-bitfields", "-m32", "-m64", "-mx32", "-fms-extensions",
                    "-fno-exceptions", "-fexceptions", "-fno-rtti", "-frtti", "-fchar8_t", "-fno-char8_t")


class ConfigError(Exception):
    def __init__(self, what, output):
        super().__init__(what)
        self.what = what
        self.output = output


def _build_files(repo):
    out = []
    for dp, dn, fn in os.walk(repo):
        dn[:] = sorted(d for d in dn if d not in (".git", "_build", "_b", "build") and not d.startswith("."))
        for f in sorted(fn):
            if f == "CMakeLists.txt" or f.endswith(".cmake") or f.endswith(".cmake.in"):
                out.append(os.path.join(dp, f))
    return out


def project_config(repo):
    """-> dict(sources=[abs paths], defs=[...], includes=[...], std='-std=c++17', codegen=[...], key=<hash>, text=<one-line summary>)"""
    files = _build_files(repo)
    h = hashlib.sha256()
    for f in files:
        h.update(os.path.relpath(f, repo).encode())
        with open(f, "rb") as fh:
            h.update(fh.read())
    # the source list is part of the key as well (add_library may glob)
    srcdir = os.path.join(repo, "src")
    for f in sorted(os.listdir(srcdir)) if os.path.isdir(srcdir) else []:
        h.update(f.encode())
    key = h.hexdigest()[:16]
    if (repo, key) in _cache:
        return _cache[(repo, key)]
    tmp = tempfile.mkdtemp(prefix="verif-cmq-")
    try:
        r = subprocess.run(["cmake", "-S", repo, "-B", tmp, "-G", "Ninja", "-DASAM_CMP_LIB_ENABLE_TESTS=OFF", "-DASAM_CMP_LIB_BUILD_EXAMPLE=OFF",
                            "-DCMAKE_EXPORT_COMPILE_COMMANDS=ON", "-DCMAKE_BUILD_TYPE=RelWithDebInfo"],
                           stdout=subprocess.PIPE, stderr=subprocess.STDOUT)
        cc = os.path.join(tmp, "compile_commands.json")
        if r.returncode != 0 or not os.path.exists(cc):
            raise ConfigError("the library's build system cannot be configured (cmake)", r.stdout.decode(errors="replace")[-3000:])
        cmds = json.load(open(cc))
    finally:
        shutil.rmtree(tmp, ignore_errors=True)
    sources, per_file = [], {}
    for c in cmds:
        src = os.path.realpath(c["file"])
        if not src.startswith(os.path.realpath(repo) + os.sep):
            continue
        rel = os.path.relpath(src, os.path.realpath(repo))
        if rel.split(os.sep)[0] in ("tests", "example", "external"):
            continue
        args = shlex.split(c["command"]) if "command" in c else list(c["arguments"])
        keep, i = [], 1
        while i < len(args):
            a = args[i]
            if a in _DROP_WITH_ARG:
                i += 2
                continue
            if a == "-c":
                i += 2
                continue
            if a.startswith(_DROP_PREFIX) or a == src or a == c["file"]:
                i += 1
                continue
            if a in ("-I", "-D", "-U", "-include", "-isystem") and i + 1 < len(args):
                keep.append(a + args[i + 1] if a in ("-I", "-D", "-U") else a)
                if a in ("-include", "-isystem"):
                    keep.append(args[i + 1])
                i += 2
                continue
            keep.append(a)
            i += 1
        sources.append(os.path.join(repo, rel))
        per_file[rel] = keep
    if not sources:
        raise ConfigError("the library's build system compiles no source file of the library", json.dumps(cmds)[:2000])
    # one flag set for all units (they are compiled into one harness / one unity TU): the units must agree
    flagsets = set(tuple(v) for v in per_file.values())
    if len(flagsets) != 1:
        raise ConfigError("the library's translation units are compiled with different options; the checks build them as one program",
                          json.dumps({k: v for k, v in per_file.items()}, indent=1)[:3000])
    flags = list(flagsets.pop())
    includes, defs, codegen, std = [], [], [], "-std=c++17"
    i = 0
    while i < len(flags):
        a = flags[i]
        if a.startswith("-I"):
            p = a[2:]
            if os.path.isdir(p):
                p = os.path.realpath(p)
                # express include directories relative to the tree that is checked (the scratch binary directory is gone)
                includes.append("-I" + p)
        elif a.startswith(("-D", "-U")):
            defs.append(a)
        elif a in ("-include", "-isystem"):
            defs += [a, flags[i + 1]]
            i += 1
        elif a.startswith("-std="):
            std = a
        else:
            codegen.append(a)
        i += 1
    cfg = {
        "sources": sorted(sources), "defs": defs, "includes": includes, "std": std, "codegen": codegen, "key": key,
        "text": "%d sources from the build system; %s; definitions %s; code-generation options %s" % (
            len(sources), std, " ".join(defs) or "none", " ".join(codegen) or "none"),
    }
    _cache[(repo, key)] = cfg
    return cfg


def gcc_flags(cfg):
    """options every g++ compilation of library code gets (without -std / -O / sanitizers)"""
    return " ".join(shlex.quote(a) for a in cfg["includes"] + cfg["defs"] + cfg["codegen"])


def clang_args(cfg):
    out = list(cfg["includes"]) + list(cfg["defs"])
    out += [a for a in cfg["codegen"] if a.startswith(_CLANG_OK_PREFIX)]
    return out


def clang_std(cfg):
    # clang 14 is run in GNU mode (the translator relies on builtins being visible); keep the project's language level
    s = cfg["std"].replace("-std=c++", "-std=gnu++")
    return s if s in ("-std=gnu++17", "-std=gnu++14", "-std=gnu++20", "-std=gnu++2a", "-std=gnu++1z") else "-std=gnu++17"


def unity_source(cfg):
    return "".join('#include "%s"\n' % s for s in cfg["sources"])
