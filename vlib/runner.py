"""Generic flow of one check (DESIGN.md section 3.3)."""
import json
import os
import random
import time

from . import core


class Case:
    """One independent operation script (state is reset at `case`)."""

    def __init__(self, name, ops, nontrivial=False, tags=(), meta=None):
        self.name = name
        self.ops = list(ops)
        self.nontrivial = nontrivial
        self.tags = tuple(tags)
        self.meta = meta or {}


class Spec:
    """What a property needs: Lean obligations and a correspondence stream."""

    def __init__(self, prop, title, lean_targets, theorems, imports, gen, view=None, predicate=None, rule="", assumptions=(),
                 extra=None, partial=None, batch_predicate=None, selfcheck=None):
        self.batch_predicate = batch_predicate
        self.selfcheck = selfcheck   # selfcheck(cases, model_outputs) -> (imports, [Lean `example` strings]) re-checked by the kernel
        if batch_predicate and not predicate:
            predicate = lambda case, im, m, ctx: batch_predicate([case], [im], ctx)[0]  # noqa: E731
        self.prop = prop
        self.title = title
        self.lean_targets = lean_targets
        self.theorems = theorems
        self.imports = imports
        self.gen = gen              # gen(tier, rng) -> list[Case]
        self.view = view            # view(case, lines) -> comparable object (default: the lines)
        self.predicate = predicate  # predicate(case, impl_lines, model_lines, ctx) -> True/False/None
        self.rule = rule
        self.assumptions = list(assumptions)
        self.extra = extra          # extra(ctx) -> dict(coverage additions), may append violations
        self.partial = partial


TRUSTED_BASE = [
    "Lean 4.33 kernel (lake build; leanchecker re-check in the thorough tier)",
    "axioms: propext, Classical.choice, Quot.sound only (audited with #print axioms on every registered theorem); no native_decide, no bv_decide, no sorry/admit, no own axioms",
    "Lean compiler/runtime for the `driver` executable (assumed to compute what the kernel-level definitions denote)",
    "correspondence machinery: harness/harness.cpp (op interpreter over the real library, built from /repo's working tree with ASan+UBSan, -fno-sanitize=vptr,alignment,nonnull-attribute), vlib/*.py generators and differ, g++ 12, libstdc++",
    "translator (source-level theorems): clang++-14 parser and typed JSON AST; vlib/srctrans.py, srcdeep.py, srcfields.py, srcobj.py, srctmpl.py, srctecmp.py, srcsig.py and the hand-written semantics of the primitives they emit (lean/AsamCmp/Src/Sem.lean, Obj.lean, ObjTecmp.lean, BitProg.lean): flat byte memory, C++17 integer rules, std containers / unique_ptr / shared_ptr / string_view / to_string as lists, Options and named primitives; member offsets and default bytes reflected by a generated program compiled with g++; untranslated functions are listed in the generated files",
    "protocol tables in vlib/proto.py and lean/AsamCmp/Layout.lean (written from the ASAM CMP / TECMP layouts; the documents are not in the sandbox)",
    "little-endian x86-64 host; C++ object lifetime/aliasing is modelled by immutable values, not verified",
]


class Ctx:
    pass


def shrink(case, fails, budget=60):
    """Greedy removal of ops while `fails(ops)` stays true."""
    ops = list(case.ops)
    tries = 0
    changed = True
    while changed and tries < budget:
        changed = False
        for i in range(len(ops) - 1, -1, -1):
            if tries >= budget:
                break
            cand = ops[:i] + ops[i + 1:]
            if not cand:
                continue
            tries += 1
            if fails(cand):
                ops = cand
                changed = True
    return ops


def write_replay(prop, seed, tier, idx, kind, ops, model_out, impl_out, note=""):
    os.makedirs(core.REPLAYS, exist_ok=True)
    p = os.path.join(core.REPLAYS, "%s-%s-%d-%d.replay" % (prop, tier, seed, idx))
    with open(p, "w") as f:
        f.write("# property: %s\n# seed: %d\n# tier: %s\n# kind: %s\n" % (prop, seed, tier, kind))
        if note:
            for l in note.split("\n"):
                f.write("# note: %s\n" % l)
        f.write("# --- script (feed to harness and driver) ---\n")
        f.write("case replay\n")
        for o in ops:
            f.write(o + "\n")
        f.write("# --- model output ---\n")
        for o in model_out or []:
            f.write("#M " + o[:2000] + "\n")
        f.write("# --- implementation output ---\n")
        for o in impl_out or []:
            f.write("#I " + o[:2000] + "\n")
    return p


def run_check(spec, tier, seed):
    t0 = time.time()
    prop = spec.prop
    violations = []      # (replay_path, suffix)
    known_hits = []
    cov = {}
    ctx = Ctx()
    ctx.tier, ctx.seed, ctx.spec = tier, seed, spec
    known = [k for k in core.load_known() if k[0] == prop]

    # 1. rebuild the harness from /repo's working tree
    hdir = None
    try:
        hdir = core.build_harness("asan")
    except core.BuildError as e:
        p = write_replay(prop, seed, tier, 0, "correspondence-break", [], [], [], "harness build failed: %s\n%s" % (e.what, e.output[:1500]))
        violations.append((p, " no-failing-input-found"))
    ctx.hdir = hdir

    # 2. proof obligations
    gen_note = ""
    try:
        from . import generated
        # without a harness build the constants cannot be reflected, but the translation of the sources does not need it: the source-level
        # theorems are always checked against what the code says NOW (never against the translation of an earlier tree)
        gen_note = generated.regenerate(hdir) if hdir else "constants skipped (no harness build); " + generated.regenerate_src()
    except Exception as e:  # noqa
        gen_note = "regeneration failed: %r" % (e,)
    ok_drv, out_drv = core.lake_build(["driver"])
    if not ok_drv:
        raise SystemExit("model driver does not build:\n" + out_drv[-3000:])
    obligations = list(spec.theorems)
    discharged = []
    broken = []
    ok, out = core.lake_build(spec.lean_targets) if spec.lean_targets else (True, "")
    if not ok:
        broken.append(("lake build " + " ".join(spec.lean_targets), out[-2500:]))
    else:
        aud = core.audit_axioms(spec.theorems, spec.imports) if spec.theorems else {}
        for t in spec.theorems:
            okt, detail = aud.get(t, (False, "not audited"))
            if okt:
                discharged.append(t)
            else:
                broken.append((t, detail))
    hits = core.grep_forbidden()
    if hits:
        broken.append(("forbidden constructs in Lean sources", "\n".join(hits[:20])))
    checker_cmd = "cd lean && lake build %s && lake env lean <#print axioms of %d theorems>; grep -rn sorry|admit|axiom|native_decide|bv_decide|implemented_by|unsafe|maxHeartbeats 0" % (
        " ".join(spec.lean_targets), len(spec.theorems))
    if tier == "thorough" and ok and spec.lean_targets:
        import subprocess
        for tgt in spec.lean_targets:
            with core.Lock("lake"):
                r = subprocess.run(["lake", "env", "leanchecker", tgt], cwd=core.LEAN, stdout=subprocess.PIPE, stderr=subprocess.STDOUT)
            if r.returncode != 0:
                broken.append(("leanchecker " + tgt, r.stdout.decode(errors="replace")[-1500:]))
        checker_cmd += "; lake env leanchecker " + " ".join(spec.lean_targets)
    cov["leanchecker"] = "run" if tier == "thorough" else "thorough tier only"
    if os.environ.get("VERIF_OBLIGATIONS_ONLY"):
        # diagnostic mode of tools/run_seeded.py --obligations (never used by a registered command, writes no evidence): which proof
        # obligations does the tree break, independently of any sampling?
        import re as _re
        for t, detail in broken:
            mods = sorted(set(_re.findall(r"^- (AsamCmp[\w.]*)", detail, _re.M)))
            print("BROKEN-OBLIGATION %s :: %s" % ("modules that no longer build: " + " ".join(mods) if mods else t, " ".join(detail.split())[:300]))
        print("OBLIGATIONS property=%s discharged=%d/%d broken=%d" % (prop, len(discharged), len(obligations), len(broken)))
        return 1 if broken else 0

    # 3./4. corpus + generated cases
    rng = random.Random(seed * 1000003 + hash_str(prop))
    cases = []
    corpus_dir = os.path.join(core.ROOT, "corpus", prop)
    if os.path.isdir(corpus_dir):
        for f in sorted(os.listdir(corpus_dir)):
            ops = [l.rstrip("\n") for l in open(os.path.join(corpus_dir, f)) if l.strip() and not l.startswith("#") and not l.startswith("case ")]
            cases.append(Case("corpus_" + f.replace(".", "_"), ops, nontrivial=True, tags=("corpus",)))
    cases.extend(spec.gen(tier, rng))
    for i, c in enumerate(cases):
        c.name = "c%d" % i
    pairs = [(c.name, c.ops) for c in cases]
    model = core.run_driver(pairs)
    impl, crashes = core.run_harness(hdir, pairs) if hdir else ([None] * len(cases), 0)
    ctx.model, ctx.impl = model, impl

    # the compiled driver is assumed to compute what the kernel-level definitions denote; a sample of its results is re-checked
    # in the kernel (`example : <model term> = <driver's result> := by decide`)
    if spec.selfcheck:
        imports, examples = spec.selfcheck(cases, model)
        if examples:
            src = "".join("import %s\n" % i for i in imports) + "open AsamCmp\n" + "\n".join(examples) + "\n"
            rc, out = core.lean_run(src, "selfcheck_" + prop)
            cov["driver_results_rechecked_in_kernel"] = {"examples": len(examples), "ok": rc == 0}
            if rc != 0:
                broken.append(("kernel re-check of compiled driver results", out[-2000:]))

    view = spec.view or (lambda case, lines: lines)
    mismatches = []
    bad_ops = 0
    pred_evals = 0
    try:
        batch_res = spec.batch_predicate(cases, impl, ctx) if spec.batch_predicate and hdir else None
    except Exception as e:  # noqa: the predicate machinery itself failed on this tree's output: report, never crash
        import traceback
        batch_res = [None] * len(cases)
        p = write_replay(prop, seed, tier, 940, "correspondence-break", [], [], [],
                         "the predicate could not be evaluated on the implementation's output: %r\n%s" % (e, traceback.format_exc()[-1500:]))
        violations.append((p, " no-failing-input-found"))
    for ci, (c, m, im) in enumerate(zip(cases, model, impl)):
        if any(l == "bad-op" for l in m) and not c.meta.get("lenient"):
            bad_ops += 1
        if im is None:
            continue
        differs = view(c, m) != view(c, im)
        pfail = False
        if spec.predicate:
            # the property predicate is evaluated on the implementation's own output for every case
            try:
                pv = batch_res[ci] if batch_res is not None else spec.predicate(c, im, m, ctx)
            except Exception:  # noqa
                pv = None
            if pv is not None:
                pred_evals += 1
            pfail = pv is False
        if differs or pfail:
            mismatches.append((c, m, im, pfail))
    cov["predicate_evaluations_on_implementation_output"] = pred_evals
    # cases whose predicate fails on the implementation's output first, then crashes, then plain differences
    mismatches.sort(key=lambda x: (not x[3], not any(l.startswith("CRASH:") for l in x[2])))
    mismatches = [(c, m, im) for c, m, im, _pf in mismatches]
    if bad_ops:
        raise SystemExit("generator produced %d cases the model driver rejects (bad-op)" % bad_ops)

    # 5. classify
    def run_pair(ops):
        m = core.run_driver([("s", ops)])[0]
        im, _ = core.run_harness(hdir, [("s", ops)], timeout=60)
        return m, im[0]

    n_pred_fail = 0
    for idx, (c, m, im) in enumerate(mismatches[:12]):
        pred = None
        if spec.predicate:
            try:
                pred = spec.predicate(c, im, m, ctx)
            except Exception as e:  # noqa
                pred = None
        crashed = any(l.startswith("CRASH:") for l in im)
        failing = crashed or pred is False

        def still(ops, c=c):
            mm, ii = run_pair(ops)
            cc = Case("s", ops, meta=c.meta)
            if any(l.startswith("CRASH:") for l in ii):
                return True
            if crashed:
                return False      # the original case failed by crashing: a shorter script counts only if it still crashes
            if view(cc, mm) == view(cc, ii) and not (spec.predicate and failing):
                return False
            if spec.predicate and failing and not crashed:
                try:
                    return spec.predicate(cc, ii, mm, ctx) is False
                except Exception:  # noqa
                    return False
            return True
        ops = c.ops
        if len(ops) > 1 and not c.meta.get("noshrink") and not c.meta.get("pred_timeout"):
            try:
                ops = shrink(c, still)
            except Exception:  # noqa
                ops = c.ops
        mm, ii = run_pair(ops) if ops != c.ops else (m, im)
        sig = core.signature(ops)
        kind = "sanitizer/crash" if crashed else ("impl-violates-predicate" if pred is False else "correspondence-break")
        hit = [k for k in known if k[1] == sig]
        if hit:
            known_hits.append((hit[0], sig))
            continue
        note = "first differing case of %d; tags=%s" % (len(mismatches), ",".join(c.tags))
        if c.meta.get("pred_timeout"):
            note += ("\nthe model's predicate could not be evaluated on the implementation's output of this case within the time limit "
                     "(the output is far outside the shape of any model output: e.g. frames tiled by thousands of empty messages); "
                     "implementation and model differ on it")
        if not failing:
            note += "\nmodel and implementation differ on this input; the property predicate still holds on the implementation's output (or no predicate applies), so no failing input was found: the proof no longer covers the code (correspondence stream of %s)" % prop
        p = write_replay(prop, seed, tier, idx + 1, kind, ops, mm, ii, note)
        violations.append((p, "" if failing else " no-failing-input-found"))
        if failing:
            n_pred_fail += 1

    for (what, detail) in broken:
        # an obligation no longer checks; if the correspondence already produced a failing input that is the replay
        if any(s == "" for _, s in violations):
            continue
        p = write_replay(prop, seed, tier, 900 + len(violations), "obligation-break", [], [], [], "obligation: %s\n%s" % (what, detail))
        violations.append((p, " no-failing-input-found"))

    # supporting runs
    if spec.extra and hdir:
        try:
            add = spec.extra(ctx, cases, violations)
            if add:
                cov.update(add)
        except core.BuildError as e:
            p = write_replay(prop, seed, tier, 950, "correspondence-break", [], [], [], "supporting build failed: %s\n%s" % (e.what, e.output[:1500]))
            violations.append((p, " no-failing-input-found"))

    # 6. evidence
    nontriv = set()
    tags = {}
    for c in cases:
        for t in c.tags:
            tags[t] = tags.get(t, 0) + 1
        if c.nontrivial:
            nontriv.add("\n".join(c.ops))
    samples = []
    for c in cases[:: max(1, len(cases) // 4)][:4]:
        samples.append({"ops": [o[:300] for o in c.ops[:8]], "tags": list(c.tags)})
    cov.update({
        "obligations": len(obligations),
        "discharged": len(discharged),
        "theorems": obligations,
        "checker_cmd": checker_cmd,
        "trusted_base": TRUSTED_BASE,
        "generated_constants": gen_note,
        "evaluations": len(cases),
        "ops_executed": sum(len(c.ops) for c in cases),
        "distinct_nontrivial": len(nontriv),
        "rule": spec.rule,
        "samples": samples,
        "case_tags": tags,
        "correspondence_mismatches": len(mismatches),
        "implementation_crashes_or_sanitizer_aborts": crashes,
        "known_findings_hit": len(known_hits),
    })
    if spec.partial:
        cov["partial"] = spec.partial
    wall = time.time() - t0
    core.write_evidence(prop, tier, seed, cov, spec.assumptions, wall, len(violations))

    for k, sig in known_hits:
        print("KNOWN-FINDING: property=%s %s" % (prop, k[2]))
    if violations:
        # the most informative first: concrete failing inputs before unexplained breaks
        violations.sort(key=lambda v: v[1] != "")
        for p, suffix in violations[:5]:
            print("VIOLATION property=%s replay=%s%s" % (prop, p, suffix))
        return 1
    print("OK property=%s tier=%s seed=%d obligations=%d/%d cases=%d nontrivial=%d wall=%.1fs" % (
        prop, tier, seed, len(discharged), len(obligations), len(cases), len(nontriv), wall))
    return 0


def hash_str(s):
    h = 0
    for ch in s:
        h = (h * 131 + ord(ch)) % 1000000007
    return h
