"""Protocol tables written from the ASAM CMP 1.0 / TECMP layouts (not from the library's headers)
and builders of well-formed and deliberately malformed byte strings.  Big-endian throughout."""
import random
import struct


def be(n, w):
    return (n % (1 << (8 * w))).to_bytes(w, "big")


def hexs(b):
    return b.hex() if b else "-"


# ---- payloads -------------------------------------------------------------------------

def can_payload(data, ident=0x123, flags=0, ide=0, rtr=0, crc=0, crc_support=0, err_pos=0, dlc=None, data_len=None,
                fd=False, sbc=0, sbc_parity=0, sbc_support=0):
    idw = (ide << 31) | (rtr << 30) | (ident & 0x1FFFFFFF)
    if fd:
        crcw = (crc_support << 31) | (sbc_support << 30) | (sbc_parity << 24) | ((sbc & 7) << 21) | (crc & 0x1FFFFF)
    else:
        crcw = (crc_support << 31) | (crc & 0x7FFF)
    n = len(data) if data_len is None else data_len
    if dlc is None:
        dlc = dlc_code(n)
    return be(flags, 2) + be(0, 2) + be(idw, 4) + be(crcw, 4) + be(err_pos, 2) + be(dlc, 1) + be(n, 1) + bytes(data)


# ISO 11898-1: the number of data bytes a DLC code stands for (classic CAN 0..8, CAN FD 9..15)
DLC_LEN = [0, 1, 2, 3, 4, 5, 6, 7, 8, 12, 16, 20, 24, 32, 48, 64]


def dlc_code(n):
    """the DLC code of a data field of n bytes: the smallest code whose data field holds n bytes (a length between two CAN FD
    steps needs the next larger step); 15 — the largest code — for everything above 64"""
    for c, size in enumerate(DLC_LEN):
        if n <= size:
            return c
    return 15


def lin_payload(data, lin_id=0x11, parity=0, checksum=0, flags=0, data_len=None):
    n = len(data) if data_len is None else data_len
    return be(flags, 2) + be(0, 2) + be(((parity & 3) << 6) | (lin_id & 0x3F), 1) + b"\0" + be(checksum, 1) + be(n, 1) + bytes(data)


def eth_payload(data, flags=0, data_len=None):
    n = len(data) if data_len is None else data_len
    return be(flags, 2) + be(0, 2) + be(n, 2) + bytes(data)


def analog_payload(samples, flags=0, unit=0, interval=0, offset=0, scalar=0):
    """interval/offset/scalar are 32-bit patterns"""
    return be(flags, 2) + b"\0" + be(unit, 1) + be(interval, 4) + be(offset, 4) + be(scalar, 4) + bytes(samples)


def cm_string(s):
    n = len(s) + 1
    n += n % 2
    return be(n, 2) + bytes(s) + b"\0" * (n - len(s))


def cm_payload(desc=b"", serial=b"", hw=b"", sw=b"", vendor=b"", uptime=0, gm_id=0, gm_q=0, utc=0, ts_src=0, dom=0, gptp=0):
    hdr = be(uptime, 8) + be(gm_id, 8) + be(gm_q, 4) + be(utc, 2) + be(ts_src, 1) + be(dom, 1) + b"\0" + be(gptp, 1)
    return hdr + cm_string(desc) + cm_string(serial) + cm_string(hw) + cm_string(sw) + be(len(vendor), 2) + bytes(vendor)


def if_payload(stream_ids=b"", vendor=b"", if_id=0, rx=0, tx=0, drx=0, dtx=0, erx=0, etx=0, if_type=0, status=0, feat=0):
    hdr = be(if_id, 4) + be(rx, 4) + be(tx, 4) + be(drx, 4) + be(dtx, 4) + be(erx, 4) + be(etx, 4) + be(if_type, 1) + be(status, 1) + be(0, 2) + be(feat, 4)
    pad = b"\0" if len(stream_ids) % 2 else b""
    return hdr + be(len(stream_ids), 2) + bytes(stream_ids) + pad + be(len(vendor), 2) + bytes(vendor)


KINDS = ["can", "canfd", "lin", "eth", "analog", "cm", "if", "gen"]
TY = {"can": 0x0101, "canfd": 0x0102, "lin": 0x0103, "analog": 0x0107, "eth": 0x0108, "cm": 0x0301, "if": 0x0302}


def rand_bytes(rng, n):
    return bytes(rng.getrandbits(8) for _ in range(n))


def valid_payload(rng, kind, total_len=None):
    """(payload type, bytes) of a well-formed payload of the kind; total_len fixes the payload size
    when the kind allows it (falls back to the nearest feasible size)."""
    if kind == "can" or kind == "canfd":
        n = rng.choice([0, 1, 8, 12, 64, rng.randrange(0, 65)]) if total_len is None else max(0, min(255, total_len - 16))
        extra = 0 if total_len is None else max(0, total_len - 16 - n)
        fd = kind == "canfd"
        r = rng.random() if total_len is None else 1.0
        if r < 0.08:
            # a remote frame: no data, data length 0, the DLC of the frame that is requested (a data length "derived from the DLC" is wrong here)
            p = can_payload(b"", ident=rng.getrandbits(29), ide=rng.getrandbits(1), rtr=1, crc=rng.getrandbits(15), flags=rng.getrandbits(16) & 0x3C00, fd=fd,
                            dlc=rng.randrange(1, 16))
            return TY[kind], p
        p = can_payload(rand_bytes(rng, n), ident=rng.getrandbits(29), ide=rng.getrandbits(1), rtr=rng.getrandbits(1),
                        crc=rng.getrandbits(21 if fd else 15), crc_support=rng.getrandbits(1), flags=rng.getrandbits(16) & 0x3C00, fd=fd,
                        sbc=rng.getrandbits(3), sbc_parity=rng.getrandbits(1), sbc_support=rng.getrandbits(1))
        if r < 0.2:
            extra = rng.choice([1, 2, 3, 8])       # pad bytes behind the data (the message is longer than header + data length)
        return TY[kind], p + rand_bytes(rng, extra)
    if kind == "lin":
        n = rng.randrange(0, 9) if total_len is None else max(0, min(255, total_len - 8))
        extra = 0 if total_len is None else max(0, total_len - 8 - n)
        return TY[kind], lin_payload(rand_bytes(rng, n), lin_id=rng.getrandbits(6), parity=rng.getrandbits(2), checksum=rng.getrandbits(8),
                                     flags=rng.getrandbits(9)) + rand_bytes(rng, extra)
    if kind == "eth":
        n = rng.choice([0, 1, 60, 100]) if total_len is None else max(0, total_len - 6)
        return TY[kind], eth_payload(rand_bytes(rng, n), flags=rng.getrandbits(16) & 0xFFC4)
    if kind == "analog":
        n = rng.choice([0, 2, 4, 32]) if total_len is None else max(0, total_len - 16)
        return TY[kind], analog_payload(rand_bytes(rng, n), flags=(rng.getrandbits(16) & 0xFFFC) | rng.getrandbits(1), unit=rng.getrandbits(8),
                                        interval=rng.getrandbits(32), offset=rng.getrandbits(32), scalar=rng.getrandbits(32))
    if kind == "cm":
        if total_len is None:
            strs = [rand_text(rng, rng.randrange(0, 12)) for _ in range(4)]
            vend = rand_bytes(rng, rng.randrange(0, 6))
            r = rng.random()
            if r < 0.15:        # a block whose 16-bit length has a low byte >= 0x80 / crosses 255
                ln = rng.choice([127, 128, 129, 200, 255, 256, 257, 384])
                i = rng.randrange(5)
                if i < 4:
                    strs[i] = rand_text(rng, ln)
                else:
                    vend = rand_bytes(rng, ln)
            elif r < 0.30:      # binary vendor data with zero bytes at its ends / only zero bytes
                vend = rng.choice([bytes(rng.randrange(1, 5)), vend + b"\0", vend + b"\0\0", b"\0" + vend])
            elif r < 0.42:
                # the layout of a FOREIGN encoder: string blocks whose length field is ODD and that carry no pad byte (the validator and
                # the accessors advance by exactly the declared length, so this is a consistent payload; a validator that pads odd lengths
                # rejects it or reads behind it)
                hdr = be(rng.getrandbits(64), 8) + be(rng.getrandbits(64), 8) + be(rng.getrandbits(32), 4) + be(rng.getrandbits(16), 2) + be(rng.getrandbits(8), 1) + be(rng.getrandbits(8), 1) + b"\0" + be(rng.getrandbits(8), 1)
                blocks = b""
                for _i in range(4):
                    t = rand_text(rng, rng.choice([0, 1, 2, 3, 5, 7])) + b"\0"
                    if rng.random() < 0.3:
                        t = t[:-1]
                    blocks += be(len(t), 2) + t
                return TY[kind], hdr + blocks + be(len(vend), 2) + vend
        else:
            # 26 + 4*(2+2) + 2 = 44 minimum
            room = max(0, total_len - 44)
            strs = [b"", b"", b"", b""]
            vend = rand_bytes(rng, room)
        return TY[kind], cm_payload(strs[0], strs[1], strs[2], strs[3], vend, uptime=rng.getrandbits(64), gm_id=rng.getrandbits(64),
                                    gm_q=rng.getrandbits(32), utc=rng.getrandbits(16), ts_src=rng.getrandbits(8), dom=rng.getrandbits(8),
                                    gptp=rng.getrandbits(8))
    if kind == "if":
        if total_len is None:
            ids = rand_bytes(rng, rng.randrange(0, 7))
            vend = rand_bytes(rng, rng.randrange(0, 6))
            r = rng.random()
            if r < 0.15:
                ln = rng.choice([127, 128, 129, 255, 256, 257])
                if rng.random() < 0.5:
                    ids = rand_bytes(rng, ln)
                else:
                    vend = rand_bytes(rng, ln)
            elif r < 0.30:
                vend = rng.choice([bytes(rng.randrange(1, 5)), vend + b"\0", b"\0" + vend])
                ids = rng.choice([ids, bytes(len(ids)), ids + b"\0"])
        else:
            room = max(0, total_len - 40)
            ids = b""
            vend = rand_bytes(rng, room)
        return TY[kind], if_payload(ids, vend, if_id=rng.getrandbits(32), rx=rng.getrandbits(32), tx=rng.getrandbits(32), drx=rng.getrandbits(32),
                                    dtx=rng.getrandbits(32), erx=rng.getrandbits(32), etx=rng.getrandbits(32), if_type=rng.getrandbits(8),
                                    status=rng.randrange(3), feat=rng.getrandbits(32))
    # generic / unknown type with non-zero message type and payload type byte
    mt = rng.choice([1, 2, 3, 0xFF, 0x7B])
    raw = rng.choice([0x04, 0x05, 0x09, 0x0A, 0x10, 0xFE, 0xFF, 0x03 if mt != 1 else 0x0C])
    ty = (mt << 8) | raw
    if ty in TY.values():
        ty = (mt << 8) | 0x0D
    n = rng.randrange(1, 40) if total_len is None else total_len
    return ty, rand_bytes(rng, n)


def min_len(kind):
    return {"can": 16, "canfd": 16, "lin": 8, "eth": 6, "analog": 16, "cm": 44, "if": 40, "gen": 1}[kind]


def rand_text(rng, n):
    return bytes(rng.randrange(0x20, 0x7F) for _ in range(n))


# ---- headers --------------------------------------------------------------------------

def msg_header(ts, idw, flags, ptype, length):
    return be(ts, 8) + be(idw, 4) + be(flags, 1) + be(ptype, 1) + be(length, 2)


def message(ts, idw, flags, ptype, body, length=None):
    return msg_header(ts, idw, flags, ptype, len(body) if length is None else length) + bytes(body)


def frame_header(ver, dev, mt, stream, seq, reserved=0):
    return be(ver, 1) + be(reserved, 1) + be(dev, 2) + be(mt, 1) + be(stream, 1) + be(seq, 2)


# ---- packets as script lines ------------------------------------------------------------

class Pkt:
    def __init__(self, ty, data, ver=1, dev=0, stream=0, seq=0, ts=0, ifid=0, vend=0, flags=0, seg=0):
        self.ty, self.data, self.ver, self.dev, self.stream, self.seq = ty, bytes(data) if data is not None else None, ver, dev, stream, seq
        self.ts, self.ifid, self.vend, self.flags, self.seg = ts, ifid, vend, flags, seg

    def line(self, pid):
        ty = "none" if self.ty is None else "%04x" % self.ty
        return "pkt %s %s %d %d %d %d %d %d %d %d %d %s" % (pid, ty, self.ver, self.dev, self.stream, self.seq, self.ts, self.ifid, self.vend,
                                                           self.flags, self.seg, hexs(self.data or b""))


def rand_packet(rng, kind=None, total_len=None, ver=1):
    kind = kind or rng.choice(KINDS)
    ty, data = valid_payload(rng, kind, total_len)
    ts = rng.choice([0, 1, (1 << 64) - 1, rng.getrandbits(64)])
    return Pkt(ty, data, ver=ver, dev=rng.getrandbits(16), stream=rng.getrandbits(8), seq=rng.getrandbits(16), ts=ts,
               ifid=rng.choice([0, (1 << 32) - 1, rng.getrandbits(32)]), vend=rng.choice([0, 0xFFFF, rng.getrandbits(16)]),
               flags=rng.getrandbits(8) & 0xB3, seg=0)
