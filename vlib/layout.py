"""Protocol layout tables (ASAM CMP 1.0 / TECMP), written from the layouts in DESIGN.md Appendix D,
plus - separately - the names of the library's API calls that are supposed to write / read each field.

A field is (name, byte offset of its big-endian word, word width in bytes, bit position of its least
significant bit inside the word, width in bits).  `api` gives C++ snippets: setter(o, v) and getter(o)
on an object `o` of the class's C++ type; they name API functions only, never offsets.
"""

# (name, off, wbytes, shift, bits, setter, getter[, extra])   extra: "alias:<group>" | "range:<n>" (in-range values 0..n-1)
#   setter: C++ with {v} the value (unsigned long long) ; getter: C++ expression yielding an integer


def flags16(cls_enum, names):
    out = []
    for bit, nm in names:
        out.append((nm, 0, 2, bit, 1, "o.setFlag(%s::%s, {v} != 0)" % (cls_enum, nm), "(o.getFlag(%s::%s) ? 1 : 0)" % (cls_enum, nm)))
    return out


CAN_FLAGS = [(0, "crcErr"), (1, "ackErr"), (2, "passiveAckErr"), (3, "activeAckErr"), (4, "ackDelErr"), (5, "formErr"), (6, "stuffErr"),
             (7, "crcDelErr"), (8, "eofErr"), (9, "bitErr"), (10, "r0"), (11, "srrDom"), (12, "brs"), (13, "esi")]
LIN_FLAGS = [(0, "checksumErr"), (1, "collisionErr"), (2, "parityErr"), (3, "noSlaveRespErr"), (4, "syncErr"), (5, "framingErr"),
             (6, "shortDomErr"), (7, "longDomErr"), (8, "wup")]
ETH_FLAGS = [(0, "fcsErr"), (1, "frameShorterThan64b"), (2, "txPortDown"), (3, "collision"), (4, "frameTooLongErr"), (5, "phyErr"),
             (6, "frameTruncated"), (7, "fcsSupport")]


def simple(name, off, w, setter=None, getter=None, cast=None, extra=None):
    s = setter or ("set" + name[0].upper() + name[1:])
    g = getter or ("get" + name[0].upper() + name[1:])
    ctype = cast or {1: "uint8_t", 2: "uint16_t", 4: "uint32_t", 8: "uint64_t"}[w]
    t = (name, off, w, 0, 8 * w, "o.%s(static_cast<%s>({v}))" % (s, ctype), "static_cast<unsigned long long>(o.%s())" % g)
    return t + ((extra,) if extra else ())


def flt(name, off):
    s = "set" + name[0].upper() + name[1:]
    g = "get" + name[0].upper() + name[1:]
    return (name, off, 4, 0, 32, "o.%s(bitsToFloat(static_cast<uint32_t>({v})))" % s, "static_cast<unsigned long long>(floatToBits(o.%s()))" % g, "float")


CAN_COMMON = [
    ("flags", 0, 2, 0, 16, "o.setFlags(static_cast<uint16_t>({v}))", "static_cast<unsigned long long>(o.getFlags())"),
] + flags16("CanPayloadBase::Flags", CAN_FLAGS) + [
    ("id", 4, 4, 0, 29, "o.setId(static_cast<uint32_t>({v}))", "static_cast<unsigned long long>(o.getId())"),
    ("rsvd", 4, 4, 29, 1, "o.setRsvd({v} != 0)", "(o.getRsvd() ? 1 : 0)"),
    ("ide", 4, 4, 31, 1, "o.setIde({v} != 0)", "(o.getIde() ? 1 : 0)"),
    ("crcSupport", 8, 4, 31, 1, "o.setCrcSupport({v} != 0)", "(o.getCrcSupport() ? 1 : 0)"),
    ("errorPosition", 12, 2, 0, 16, "o.setErrorPosition(static_cast<uint16_t>({v}))", "static_cast<unsigned long long>(o.getErrorPosition())"),
]

CLASSES = {
    # name: (C++ type, construction kind, header size, default bytes (hex) or None, fields)
    "cmphdr": ("CmpHeader", "pod", 8, "0100000000000000", [
        simple("version", 0, 1), simple("deviceId", 2, 2), simple("messageType", 4, 1, cast="CmpHeader::MessageType"),
        simple("streamId", 5, 1), simple("sequenceCounter", 6, 2)]),
    "msghdr": ("MessageHeader", "pod", 16, "00" * 16, [
        simple("timestamp", 0, 8), simple("interfaceId", 8, 4, extra="alias:id"), simple("vendorId", 10, 2, extra="alias:id"),
        simple("commonFlags", 12, 1),
        ("recalc", 12, 1, 0, 1, "o.setCommonFlag(MessageHeader::CommonFlags::recalc, {v} != 0)", "(o.getCommonFlag(MessageHeader::CommonFlags::recalc) ? 1 : 0)"),
        ("insync", 12, 1, 1, 1, "o.setCommonFlag(MessageHeader::CommonFlags::insync, {v} != 0)", "(o.getCommonFlag(MessageHeader::CommonFlags::insync) ? 1 : 0)"),
        ("segmentType", 12, 1, 2, 2, "o.setSegmentType(static_cast<MessageHeader::SegmentType>(({v}) << 2))",
         "(static_cast<unsigned long long>(o.getSegmentType()) >> 2)"),
        # the two segment bits written through the generic flag setter with the two-bit mask `seg`: both bits set or both cleared
        ("segMask", 12, 1, 2, 2, "o.setCommonFlag(MessageHeader::CommonFlags::seg, {v} != 0)", "(static_cast<unsigned long long>(o.getSegmentType()) >> 2)",
         "values:0,3"),
        ("diOnIf", 12, 1, 4, 1, "o.setCommonFlag(MessageHeader::CommonFlags::diOnIf, {v} != 0)", "(o.getCommonFlag(MessageHeader::CommonFlags::diOnIf) ? 1 : 0)"),
        ("overflow", 12, 1, 5, 1, "o.setCommonFlag(MessageHeader::CommonFlags::overflow, {v} != 0)", "(o.getCommonFlag(MessageHeader::CommonFlags::overflow) ? 1 : 0)"),
        ("errorInPayload", 12, 1, 6, 1, "o.setCommonFlag(MessageHeader::CommonFlags::errorInPayload, {v} != 0)",
         "(o.getCommonFlag(MessageHeader::CommonFlags::errorInPayload) ? 1 : 0)"),
        simple("payloadType", 13, 1), simple("payloadLength", 14, 2)]),
    "can": ("CanPayload", "payload", 16, "00" * 16, CAN_COMMON + [
        ("rtr", 4, 4, 30, 1, "o.setRtr({v} != 0)", "(o.getRtr() ? 1 : 0)"),
        ("crc", 8, 4, 0, 15, "o.setCrc(static_cast<uint16_t>({v}))", "static_cast<unsigned long long>(o.getCrc())"),
        ("dlc", 14, 1, 0, 8, "o.getHeader()->setDlc(static_cast<uint8_t>({v}))", "static_cast<unsigned long long>(o.getDlc())"),
        ("dataLength", 15, 1, 0, 8, "o.getHeader()->setDataLength(static_cast<uint8_t>({v}))", "static_cast<unsigned long long>(o.getDataLength())"),
    ]),
    "canfd": ("CanFdPayload", "payload", 16, "00" * 16, CAN_COMMON + [
        ("rrs", 4, 4, 30, 1, "o.setRrs({v} != 0)", "(o.getRrs() ? 1 : 0)"),
        ("crc", 8, 4, 0, 21, "o.setCrc(static_cast<uint32_t>({v}))", "static_cast<unsigned long long>(o.getCrc())"),
        ("sbc", 8, 4, 21, 3, "o.setSbc(static_cast<uint8_t>({v}))", "static_cast<unsigned long long>(o.getSbc())"),
        ("sbcParity", 8, 4, 24, 1, "o.setSbcParity({v} != 0)", "(o.getSbcParity() ? 1 : 0)"),
        ("sbcSupport", 8, 4, 30, 1, "o.setSbcSupport({v} != 0)", "(o.getSbcSupport() ? 1 : 0)"),
        ("dlc", 14, 1, 0, 8, "o.getHeader()->setDlc(static_cast<uint8_t>({v}))", "static_cast<unsigned long long>(o.getDlc())"),
        ("dataLength", 15, 1, 0, 8, "o.getHeader()->setDataLength(static_cast<uint8_t>({v}))", "static_cast<unsigned long long>(o.getDataLength())"),
    ]),
    "lin": ("LinPayload", "payload", 8, "00" * 8, [
        ("flags", 0, 2, 0, 16, "o.setFlags(static_cast<uint16_t>({v}))", "static_cast<unsigned long long>(o.getFlags())"),
    ] + flags16("LinPayload::Flags", LIN_FLAGS) + [
        ("linId", 4, 1, 0, 6, "o.setLinId(static_cast<uint8_t>({v}))", "static_cast<unsigned long long>(o.getLinId())"),
        ("parityBits", 4, 1, 6, 2, "o.setParityBits(static_cast<uint8_t>({v}))", "static_cast<unsigned long long>(o.getParityBits())"),
        simple("checksum", 6, 1),
        ("dataLength", 7, 1, 0, 8, "o.getHeader()->setDataLength(static_cast<uint8_t>({v}))", "static_cast<unsigned long long>(o.getDataLength())"),
    ]),
    "eth": ("EthernetPayload", "payload", 6, "00" * 6, [
        ("flags", 0, 2, 0, 16, "o.setFlags(static_cast<uint16_t>({v}))", "static_cast<unsigned long long>(o.getFlags())"),
    ] + flags16("EthernetPayload::Flags", ETH_FLAGS) + [
        ("dataLength", 4, 2, 0, 16, "o.getHeader()->setDataLength(static_cast<uint16_t>({v}))", "static_cast<unsigned long long>(o.getDataLength())"),
    ]),
    "analog": ("AnalogPayload", "payload", 16, "00" * 16, [
        ("flags", 0, 2, 0, 16, "o.setFlags(static_cast<uint16_t>({v}))", "static_cast<unsigned long long>(o.getFlags())"),
        ("sampleDt", 0, 2, 0, 2, "o.setSampleDt(({v}) ? AnalogPayload::SampleDt::aInt32 : AnalogPayload::SampleDt::aInt16)",
         "(o.getSampleDt() == AnalogPayload::SampleDt::aInt16 ? 0ULL : (o.getSampleDt() == AnalogPayload::SampleDt::aInt32 ? 1ULL : (ASAM::CMP::swapEndian(static_cast<uint16_t>(o.getSampleDt())))))",
         "range:2"),
        simple("unit", 3, 1, cast="AnalogPayload::Unit"),
        flt("sampleInterval", 4), flt("sampleOffset", 8), flt("sampleScalar", 12),
    ]),
    "cm": ("CaptureModulePayload", "payload", 26, "00" * 36, [
        simple("uptime", 0, 8), simple("gmIdentity", 8, 8), simple("gmClockQuality", 16, 4), simple("currentUtcOffset", 20, 2),
        simple("timeSource", 22, 1), simple("domainNumber", 23, 1), simple("gptpFlags", 25, 1),
    ]),
    "if": ("InterfacePayload", "payload", 36, "00" * 40, [
        simple("interfaceId", 0, 4), simple("msgTotalRx", 4, 4), simple("msgTotalTx", 8, 4), simple("msgDroppedRx", 12, 4), simple("msgDroppedTx", 16, 4),
        simple("errorsTotalRx", 20, 4), simple("errorsTotalTx", 24, 4), simple("interfaceType", 28, 1),
        simple("interfaceStatus", 29, 1, cast="InterfacePayload::InterfaceStatus", extra="range:3"), simple("featureSupportBitmask", 32, 4),
    ]),
    "tecmphdr": ("TECMP::CmpHeader", "pod", 28, "00000000" + "00ff" + "ff00" + "00" * 20, [
        simple("deviceId", 1, 1), simple("sequenceCounter", 2, 2), simple("version", 4, 1), simple("messageType", 5, 1, cast="TECMP::CmpHeader::MessageType"),
        simple("dataType", 6, 2, cast="TECMP::CmpHeader::DataType"), simple("deviceFlags", 10, 2), simple("interfaceId", 12, 4), simple("timestamp", 16, 8),
        simple("payloadLength", 24, 2),
    ]),
    "tecmpcan": ("TECMP::CanPayload", "payload", 5, "00" * 5, [simple("arbId", 0, 4), simple("dlc", 4, 1)]),
    "tecmplin": ("TECMP::LinPayload", "payload", 2, "00" * 2, [simple("pid", 0, 1), simple("dataLength", 1, 1)]),
    "tecmpif": ("TECMP::InterfacePayload", "payload", 28, "00" * 28, [
        simple("vendorId", 0, 1), simple("cmVersion", 1, 1), simple("cmType", 2, 1), simple("vendorDataLength", 4, 2), simple("deviceId", 6, 2),
        simple("serialNumber", 8, 4), simple("interfaceId", 12, 4), simple("messagesTotal", 16, 4), simple("errorsTotal", 20, 4),
        simple("vendorDataLinkStatus", 24, 1), simple("vendorDataLinkQuality", 25, 1), simple("vendorDataLinkupTime", 26, 2),
    ]),
    "tecmpcm": ("TECMP::CaptureModulePayload", "payload", 36, "00" * 36, [
        simple("vendorId", 0, 1), simple("deviceVersion", 1, 1), simple("deviceType", 2, 1), simple("vendorDataLength", 4, 2), simple("deviceId", 6, 2),
        simple("serialNumber", 8, 4), simple("swVersionMajor", 13, 1), simple("swVersionMinor", 14, 1), simple("swVersionPatch", 15, 1),
        simple("hwVersionMajor", 16, 1), simple("hwVersionMinor", 17, 1), simple("bufferFill", 18, 1), simple("isBufferOverflow", 19, 1),
        simple("bufferSize", 20, 4), simple("lifecycle", 24, 8), simple("voltageWhole", 32, 1), simple("voltageFraction", 33, 1),
        simple("chassisTemp", 34, 1), simple("silliconTemp", 35, 1),
    ]),
    # pseudo classes: state observed through getters only, serialised by the harness in a fixed order
    "packet": ("Packet", "packet", 22, "01" + "00" * 21, [
        simple("version", 0, 1), simple("deviceId", 1, 2), simple("streamId", 3, 1), simple("sequenceCounter", 4, 2), simple("timestamp", 6, 8),
        simple("interfaceId", 14, 4), simple("vendorId", 18, 2), simple("commonFlags", 20, 1),
        ("recalc", 20, 1, 0, 1, "o.setCommonFlag(MessageHeader::CommonFlags::recalc, {v} != 0)", "(o.getCommonFlag(MessageHeader::CommonFlags::recalc) ? 1 : 0)"),
        ("insync", 20, 1, 1, 1, "o.setCommonFlag(MessageHeader::CommonFlags::insync, {v} != 0)", "(o.getCommonFlag(MessageHeader::CommonFlags::insync) ? 1 : 0)"),
        ("segMask", 20, 1, 2, 2, "o.setCommonFlag(MessageHeader::CommonFlags::seg, {v} != 0)", "((static_cast<unsigned long long>(o.getCommonFlags()) >> 2) & 3)",
         "values:0,3"),
        ("diOnIf", 20, 1, 4, 1, "o.setCommonFlag(MessageHeader::CommonFlags::diOnIf, {v} != 0)", "(o.getCommonFlag(MessageHeader::CommonFlags::diOnIf) ? 1 : 0)"),
        ("overflow", 20, 1, 5, 1, "o.setCommonFlag(MessageHeader::CommonFlags::overflow, {v} != 0)", "(o.getCommonFlag(MessageHeader::CommonFlags::overflow) ? 1 : 0)"),
        ("errorInPayload", 20, 1, 6, 1, "o.setCommonFlag(MessageHeader::CommonFlags::errorInPayload, {v} != 0)",
         "(o.getCommonFlag(MessageHeader::CommonFlags::errorInPayload) ? 1 : 0)"),
        simple("segmentType", 21, 1, cast="MessageHeader::SegmentType", extra="values:0,4,8,12"),
    ]),
    "ptype": ("PayloadType", "ptype", 4, "00000000", [
        simple("type", 0, 4, cast="uint32_t"),
        ("messageType", 0, 4, 8, 8, "o.setMessageType(static_cast<CmpHeader::MessageType>({v}))", "static_cast<unsigned long long>(o.getMessageType())"),
        ("rawPayloadType", 0, 4, 0, 8, "o.setRawPayloadType(static_cast<uint8_t>({v}))", "static_cast<unsigned long long>(o.getRawPayloadType())"),
    ]),
}


def field_extra(f):
    return f[7] if len(f) > 7 else None


def in_range_values(f):
    """list of all in-range values if small, else None"""
    ex = field_extra(f)
    if ex and ex.startswith("range:"):
        return list(range(int(ex.split(":")[1])))
    if ex and ex.startswith("values:"):
        return [int(x) for x in ex.split(":")[1].split(",")]
    return None


def abs_bits(f):
    """absolute bit interval [lo, hi) of the field counted from the end of its word, as (byte offset based) big-endian positions"""
    name, off, w, shift, bits = f[:5]
    # bit index 0 = most significant bit of byte 0
    hi_excl = (off + w) * 8 - shift
    return (hi_excl - bits, hi_excl)


def overlaps(f, g):
    a, b = abs_bits(f)
    c, d = abs_bits(g)
    return a < d and c < b


def gen_cpp():
    """C++ glue: per class a function applying a setter / printing all getters, by name"""
    out = ["// GENERATED by tools/gen_fields.py from vlib/layout.py (API names only) - do not edit", ""]
    for cname, (ctype, kind, size, default, fields) in CLASSES.items():
        fn = "fld_" + cname
        out.append("static bool %s_set(%s& o, const std::string& f, unsigned long long v)" % (fn, ctype))
        out.append("{")
        out.append("    (void) o; (void) v;")
        for f in fields:
            out.append('    if (f == "%s") { %s; return true; }' % (f[0], f[5].replace("{v}", "v")))
        out.append("    return false;")
        out.append("}")
        out.append("static std::string %s_getall(const %s& o)" % (fn, ctype))
        out.append("{")
        out.append("    std::ostringstream s;")
        for f in fields:
            out.append('    s << " %s=" << (unsigned long long) (%s);' % (f[0], f[6]))
        out.append("    return s.str();")
        out.append("}")
        out.append("")
    return "\n".join(out) + "\n"


def gen_lean():
    out = ["/-", "  GENERATED by tools/gen_fields.py from vlib/layout.py: the protocol layout tables (ASAM CMP 1.0 / TECMP).",
           "  Offsets, widths and bit positions are written from the protocol layouts, not from the library's headers.", "-/",
           "import AsamCmp.Fields", "namespace AsamCmp.Layout", "open AsamCmp", ""]
    for cname, (ctype, kind, size, default, fields) in CLASSES.items():
        out.append("def c_%s : ClassLayout :=" % cname)
        out.append("  { name := \"%s\", size := %d, dflt := \"%s\"," % (cname, size, default))
        out.append("    fields := [")
        rows = []
        for f in fields:
            ex = field_extra(f) or ""
            alias = ex.split(":")[1] if ex.startswith("alias:") else ""
            rows.append("      ⟨\"%s\", %d, %d, %d, %d, \"%s\"⟩" % (f[0], f[1], f[2], f[3], f[4], alias))
        out.append(",\n".join(rows))
        out.append("    ] }")
        out.append("")
    out.append("def all : List ClassLayout := [" + ", ".join("c_" + k for k in CLASSES.keys()) + "]")
    out.append("")
    out.append("end AsamCmp.Layout")
    return "\n".join(out) + "\n"
