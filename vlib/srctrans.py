"""C++ -> Lean translator for the byte-level functions of the library.

Input: the typed clang AST (JSON) of all of /repo/src/*.cpp (one unity translation unit, declarations of the namespaces
ASAM::CMP and TECMP) plus the sizes / member offsets printed by a reflection program that is itself generated from the record
declarations of that AST and compiled against /repo's headers.  Output: lean/AsamCmp/GeneratedSrc.lean, one Lean function per
C++ function of the supported subset:

  * scalars are bit patterns (Nat below 2^bits) of a statically known C type; unsigned arithmetic wraps, signed arithmetic,
    shifts and division are checked (`none` = undefined behaviour);
  * memory is ONE byte array `m`; pointers are indices; a member / element read outside `m` is `none`; writes return the new
    array (functions that write return `Option Bytes` or `Option (Bytes x value)`);
  * control flow: if / else, return, switch over constants without fall-through, `for (int i = 0; i < K; ++i)` with a constant
    K (unrolled), locals with assignment (Lean shadowing), `&&` `||` `?:` evaluated lazily;
  * calls to other functions of the library are translated recursively.

Anything else (containers, smart pointers, references, while loops, floating point, ...) makes the function *untranslatable*;
it is listed with the reason in a comment of the output and simply not available to the theorems.  The semantics of the
primitives is hand-written Lean (lean/AsamCmp/Src/Sem.lean) and part of the trusted base together with this file and clang.
"""
import json
import os
import re
import subprocess

from . import core


class Untranslatable(Exception):
    pass


INT_TYPES = {
    "unsigned char": (8, False), "signed char": (8, True), "char": (8, True),
    "unsigned short": (16, False), "short": (16, True),
    "unsigned int": (32, False), "int": (32, True),
    "unsigned long": (64, False), "long": (64, True),
    "unsigned long long": (64, False), "long long": (64, True),
    "uint8_t": (8, False), "uint16_t": (16, False), "uint32_t": (32, False), "uint64_t": (64, False),
    "int8_t": (8, True), "int16_t": (16, True), "int32_t": (32, True), "int64_t": (64, True),
    "size_t": (64, False), "std::size_t": (64, False), "ptrdiff_t": (64, True),
}

LEAN_KEYWORDS = set("at from end type fun do then else if let in have show this where with match open def theorem".split())


def load_ast(repo):
    from . import buildcfg
    try:
        cfg = buildcfg.project_config(repo)      # the build system's source list, definitions and include directories
    except buildcfg.ConfigError as e:
        raise Untranslatable(e.what + ": " + e.output[-600:])
    unity = buildcfg.unity_source(cfg)
    cmd = ["clang++-14", "-x", "c++", buildcfg.clang_std(cfg)] + buildcfg.clang_args(cfg) + ["-fsyntax-only", "-w",
           "-Xclang", "-ast-dump=json", "-Xclang", "-ast-dump-filter=CMP", "-"]
    r = subprocess.run(cmd, input=unity.encode(), stdout=subprocess.PIPE, stderr=subprocess.PIPE)
    if r.returncode != 0:
        raise Untranslatable("clang cannot parse the library sources: " + r.stderr.decode(errors="replace")[:800])
    txt = r.stdout.decode()
    dec = json.JSONDecoder()
    i, docs = 0, []
    n = len(txt)
    while i < n:
        while i < n and txt[i].isspace():
            i += 1
        if i >= n:
            break
        o, i = dec.raw_decode(txt, i)
        docs.append(o)
    return docs


class TU:
    def __init__(self, docs):
        self.nodes = {}        # decl id -> list of nodes
        self.parent = {}       # id(node) -> lexical parent node
        self.bodies = {}       # canonical decl id -> defining node
        for d in docs:
            self._walk(d, None)
        # definitions: a node with a body defines itself and every earlier declaration it names
        for lst in list(self.nodes.values()):
            for n in lst:
                if n["kind"] in ("FunctionDecl", "CXXMethodDecl", "CXXConstructorDecl") and self.body_of(n) is not None:
                    self.bodies.setdefault(n["id"], n)
                    p = n.get("previousDecl")
                    seen = set()
                    while p and p not in seen:
                        seen.add(p)
                        self.bodies.setdefault(p, n)
                        q = None
                        for cand in self.nodes.get(p, []):
                            q = cand.get("previousDecl") or q
                        p = q

    def _walk(self, n, parent):
        if not isinstance(n, dict):
            return
        self.parent[id(n)] = parent
        if "id" in n and n.get("kind", "").endswith("Decl"):
            self.nodes.setdefault(n["id"], []).append(n)
        for c in n.get("inner", []):
            self._walk(c, n)

    @staticmethod
    def body_of(n):
        for c in n.get("inner", []):
            if c.get("kind") == "CompoundStmt":
                return c
        return None

    def decl(self, did):
        lst = self.nodes.get(did)
        if not lst:
            raise Untranslatable("declaration outside the library")
        # prefer the richest node
        return max(lst, key=lambda n: len(n.get("inner", [])))

    def context(self, n):
        """semantic parent declaration"""
        pid = n.get("parentDeclContextId")
        if pid and pid in self.nodes:
            return self.decl(pid)
        return self.parent.get(id(n))

    def qualname(self, n):
        parts = []
        cur = n
        while cur is not None:
            k = cur.get("kind", "")
            if k in ("NamespaceDecl", "CXXRecordDecl", "EnumDecl", "FunctionDecl", "CXXMethodDecl", "FieldDecl", "VarDecl",
                     "EnumConstantDecl", "CXXConstructorDecl") and cur.get("name"):
                if not (k == "EnumDecl" and cur is not n and not cur.get("scopedEnumTag")):
                    parts.append(cur["name"])
            nxt = self.context(cur)
            if nxt is None and k == "NamespaceDecl" and cur.get("name") == "CMP":
                parts.append("ASAM")      # the dump filter shows the inner namespace as a top-level document
            cur = nxt
        return "::".join(reversed(parts))

    def records(self):
        out = []
        for lst in self.nodes.values():
            for n in lst:
                if n["kind"] == "CXXRecordDecl" and n.get("completeDefinition") and n.get("name"):
                    out.append(n)
        return out

    def enums(self):
        out = []
        for lst in self.nodes.values():
            for n in lst:
                if n["kind"] == "EnumDecl" and any(c.get("kind") == "EnumConstantDecl" for c in n.get("inner", [])):
                    out.append(n)
        return out


def strip_cv(t):
    t = t.strip()
    changed = True
    while changed:
        changed = False
        for q in ("const ", "volatile ", "struct ", "class ", "enum "):
            if t.startswith(q):
                t = t[len(q):]
                changed = True
        for q in (" const", " volatile", "*const"):
            if t.endswith(q):
                t = t[:-len(q)] + ("*" if q == "*const" else "")
                changed = True
    return t.strip()


class Layout:
    """sizeof / offsetof of the wire records, printed by a generated program compiled against /repo's headers"""

    def __init__(self, tu, repo, workdir):
        self.size = {}
        self.default = {}  # record -> bytes of a default-initialised object (only if independent of the storage's prior content)
        self.field = {}   # (record, field) -> (offset, size)
        recs = []
        for r in tu.records():
            q = tu.qualname(r)
            fields = [c for c in r.get("inner", []) if c.get("kind") in ("FieldDecl", "IndirectFieldDecl") and c.get("name")]
            if not fields or any(c.get("isBitfield") for c in fields):
                continue
            if any(c.get("kind") == "CXXRecordDecl" and c.get("isImplicit") is None and False for c in r.get("inner", [])):
                continue
            recs.append((q, [f["name"] for f in fields]))
        recs = sorted(set((q, tuple(f)) for q, f in recs))
        hdrs = sorted(f for f in os.listdir(os.path.join(repo, "include", "asam_cmp")) if f.endswith(".h"))
        src = "".join("#include <asam_cmp/%s>\n" % h for h in hdrs)
        src += "#include <cstdio>\n#include <cstddef>\n#include <cstring>\n#include <new>\n#include <type_traits>\n"
        # bytes of a default-initialised object (`T x;`), if they do not depend on what the storage held before
        src += ("template <class T> void dumpDefault(const char* name) {\n"
                "  if constexpr (std::is_default_constructible_v<T> && std::is_trivially_copyable_v<T> && std::is_trivially_destructible_v<T>) {\n"
                "    alignas(16) unsigned char a[sizeof(T)], b[sizeof(T)]; memset(a, 0x00, sizeof(T)); memset(b, 0xAA, sizeof(T));\n"
                "    new (a) T; new (b) T;\n"
                "    if (memcmp(a, b, sizeof(T)) == 0) { printf(\"D %s \", name); for (size_t i = 0; i < sizeof(T); ++i) printf(\"%02x\", a[i]); printf(\"\\n\"); }\n"
                "  }\n}\n")
        src += "int main(){\n"
        for q, fs in recs:
            src += '  dumpDefault<%s>("%s");\n' % (q, q)
            src += '  printf("S %s %%zu\\n", sizeof(%s));\n' % (q, q)
            for f in fs:
                src += '  printf("F %s %s %%zu %%zu\\n", (size_t)offsetof(%s, %s), sizeof(((%s*)0)->%s));\n' % (q, f, q, f, q, f)
        src += "  return 0;\n}\n"
        os.makedirs(workdir, exist_ok=True)
        cpp = os.path.join(workdir, "reflect.cpp")
        exe = os.path.join(workdir, "reflect")
        with open(cpp, "w") as f:
            f.write(src)
        from . import buildcfg
        cfg = buildcfg.project_config(repo)
        r = subprocess.run(["g++", cfg["std"], "-O0", "-w", "-fno-access-control", "-Wno-invalid-offsetof"] + cfg["includes"] + cfg["defs"] + cfg["codegen"] +
                           [cpp, "-o", exe], stdout=subprocess.PIPE, stderr=subprocess.STDOUT)
        if r.returncode != 0:
            raise Untranslatable("reflection program does not compile: " + r.stdout.decode(errors="replace")[:800])
        out = subprocess.run([exe], stdout=subprocess.PIPE).stdout.decode()
        for line in out.split("\n"):
            w = line.split(" ")
            if w[0] == "S":
                self.size[w[1]] = int(w[2])
            elif w[0] == "F":
                self.field[(w[1], w[2])] = (int(w[3]), int(w[4]))
            elif w[0] == "D":
                self.default[w[1]] = bytes.fromhex(w[2]) if len(w) > 2 else b""

    def sizeof_name(self, q):
        q = strip_cv(q)
        if q in self.size:
            return self.size[q]
        cands = [k for k in self.size if k.endswith("::" + q)]
        if len(set(self.size[k] for k in cands)) == 1:
            return self.size[cands[0]]
        raise Untranslatable("sizeof(%s) unknown" % q)


class Fn:
    def __init__(self):
        self.lean = None
        self.qual = None
        self.params = []       # (lean name, ctype)
        self.ret = None
        self.uses_mem = False
        self.uses_pd = False
        self.resizes = False     # calls payloadData.resize: the memory IS the object's own (resizable) byte vector
        self.writes = False
        self.has_this = False
        self.outs = []         # names of std::string_view& parameters (returned as extra results)
        self.body = None
        self.loc = ""
        self.deps = []


class Translator:
    def __init__(self, repo, workdir):
        self.repo = repo
        self.tu = TU(load_ast(repo))
        self.layout = Layout(self.tu, repo, workdir)
        self.enum_underlying = {}
        for e in self.tu.enums():
            q = self.tu.qualname(e)
            u = e.get("fixedUnderlyingType", {})
            ut = strip_cv(u.get("desugaredQualType") or u.get("qualType") or "unsigned int")
            self.enum_underlying[q] = INT_TYPES.get(ut, (32, False))
        self.overloaded = {}
        for lst in self.tu.nodes.values():
            for n in lst:
                if n["kind"] in ("FunctionDecl", "CXXMethodDecl") and TU.body_of(n) is not None:
                    q = self.tu.qualname(n)
                    self.overloaded[q] = self.overloaded.get(q, 0) + 1
        self.fns = {}          # definition node id -> Fn or Untranslatable
        self.order = []
        self.used_names = {}
        self.failed = {}

    # ---------------------------------------------------------------- types
    def ctype(self, tnode):
        if tnode is None:
            raise Untranslatable("untyped expression")
        q = tnode.get("desugaredQualType") or tnode.get("qualType")
        return self.ctype_s(q, tnode.get("qualType"))

    def ctype_s(self, q, alt=None):
        q0 = q
        q = strip_cv(q)
        if q.endswith("*"):
            return ("p", strip_cv(q[:-1]))
        if q.endswith("&"):
            if self.is_sv(strip_cv(q[:-1])):
                return ("svref",)
            if q0.strip().startswith("const") and strip_cv(q[:-1]) in ("std::vector<uint8_t>", "std::vector<unsigned char>",
                                                                          "std::vector<unsigned char, std::allocator<unsigned char>>"):
                return ("vec",)      # a caller's byte vector passed by const reference: usable as an external buffer only
            raise Untranslatable("reference type " + q0)
        if self.is_sv(q):
            return ("sv",)
        if q == "bool":
            return ("b",)
        if q == "void":
            return ("v",)
        if q in INT_TYPES:
            return ("i",) + INT_TYPES[q]
        if q == "float" and getattr(self, "float_bits", False):
            # bit-program mode only (vlib/srcdeep.py): an IEEE-754 single as its 32-bit pattern.  Only moves are translated (loads, stores,
            # by-value passing, byte access through a char pointer); every arithmetic operator, comparison and conversion on it is rejected.
            return ("i", 32, False, "f")
        e = self.enum_lookup(q)
        if e is not None:
            return ("i",) + e
        if alt and alt != q0:
            return self.ctype_s(alt)
        raise Untranslatable("type " + q0)

    @staticmethod
    def is_sv(q):
        """std::string_view: a (pointer, length) pair"""
        return q in ("std::string_view", "std::basic_string_view<char>", "std::basic_string_view<char, std::char_traits<char>>")

    def enum_lookup(self, q):
        if q in self.enum_underlying:
            return self.enum_underlying[q]
        c = set(v for k, v in self.enum_underlying.items() if k.endswith("::" + q) or q.endswith("::" + k))
        if len(c) == 1:
            return c.pop()
        # an alias such as `Encoder::SegmentType` (using SegmentType = MessageHeader::SegmentType): by last component, if unambiguous
        last = q.split("::")[-1]
        c = set(v for k, v in self.enum_underlying.items() if k.split("::")[-1] == last)
        if len(c) == 1 and "::" in q:
            return c.pop()
        return None

    def sizeof_type(self, q):
        t = strip_cv(q)
        if t.endswith("*"):
            return 8
        if t in INT_TYPES:
            return INT_TYPES[t][0] // 8
        if t == "bool":
            return 1
        e = self.enum_lookup(t)
        if e is not None:
            return e[0] // 8
        m = re.match(r"^(.*)\[(\d+)\]$", t)
        if m:
            return self.sizeof_type(m.group(1)) * int(m.group(2))
        return self.layout.sizeof_name(t)

    # ---------------------------------------------------------------- functions
    @staticmethod
    def ident(q):
        for pre in ("ASAM::CMP::", "ASAM::"):
            if q.startswith(pre):
                q = q[len(pre):]
        return re.sub(r"[^A-Za-z0-9_]", "_", q.replace("::", "_"))

    def lean_name(self, node):
        q = self.tu.qualname(node)
        for pre in ("ASAM::CMP::", "ASAM::"):
            if q.startswith(pre):
                q = q[len(pre):]
        base = re.sub(r"[^A-Za-z0-9_]", "_", q.replace("::", "_"))
        return base

    def translate_fn(self, defnode):
        key = id(defnode)
        if key in self.fns:
            f = self.fns[key]
            if isinstance(f, Untranslatable):
                raise f
            if f is None:
                raise Untranslatable("recursive call")
            return f
        self.fns[key] = None
        try:
            f0 = FnTr(self, defnode).run()
            # second pass with the effect flags known from the first (return statements before the first write need them)
            f = FnTr(self, defnode, preset=(f0.uses_mem, f0.writes, f0.uses_pd, f0.resizes)).run()
        except Untranslatable as e:
            self.fns[key] = e
            self.failed[self.tu.qualname(defnode) + " " + defnode.get("type", {}).get("qualType", "")] = str(e)
            raise
        # unique lean name; overloaded names always carry their parameter types
        base = f.lean
        if base in self.used_names or self.overloaded.get(f.qual, 0) > 1:
            sig = "_".join(self.suffix(t) for _, t in f.params if _ not in ("this_",)) or "v"
            base = base + "_" + sig
            k = 2
            while base in self.used_names:
                base = f.lean + "_" + sig + str(k)
                k += 1
        f.lean = base
        self.used_names[base] = f
        self.fns[key] = f
        self.order.append(f)
        return f

    @staticmethod
    def suffix(t):
        if t[0] == "i":
            return ("i" if t[2] else "u") + str(t[1])
        return {"b": "bool", "p": "ptr", "v": "void"}.get(t[0], "x")

    def definition(self, declid):
        d = self.tu.bodies.get(declid)
        if d is None:
            # maybe the declaration itself is templated / builtin
            nm = self.tu.nodes.get(declid, [{}])[0].get("name", "outside the library (std / libc)")
            raise Untranslatable("no body for callee " + str(nm))
        return d

    def all_functions(self):
        seen = set()
        out = []
        for lst in self.tu.nodes.values():
            for n in lst:
                if n["kind"] in ("FunctionDecl", "CXXMethodDecl") and TU.body_of(n) is not None and id(n) not in seen:
                    # skip uninstantiated templates
                    p = self.tu.parent.get(id(n))
                    if p is not None and p.get("kind") == "FunctionTemplateDecl" and p["inner"] and n is not None:
                        if any(c.get("kind") == "TemplateTypeParmDecl" for c in p["inner"]) and "typename" in n.get("type", {}).get("qualType", "") and "<T>" in n.get("type", {}).get("qualType", ""):
                            continue
                    seen.add(id(n))
                    out.append(n)
        out.sort(key=lambda n: (self.tu.qualname(n), n.get("type", {}).get("qualType", "")))
        return out

    def run_all(self):
        for n in self.all_functions():
            try:
                self.translate_fn(n)
            except Untranslatable:
                pass
            except (KeyError, IndexError, TypeError, AttributeError, ValueError, AssertionError) as e:   # unexpected AST shape: treat as untranslatable, never crash the check
                self.fns[id(n)] = Untranslatable("unexpected AST shape: %r" % (e,))
                self.failed[self.tu.qualname(n) + " " + n.get("type", {}).get("qualType", "")] = "unexpected AST shape: %r" % (e,)

    def emit(self):
        out = []
        out.append("/- GENERATED on every run by vlib/srctrans.py from the typed clang AST of /repo/src/*.cpp — do not edit. -/")
        out.append("import AsamCmp.Src.Sem")
        out.append("set_option linter.unusedVariables false")
        out.append("namespace AsamCmp.SrcGen")
        out.append("open AsamCmp AsamCmp.Src")
        out.append("")
        for f in self.order:
            ps = []
            if f.uses_mem:
                ps.append("(m : Bytes)")
            if f.uses_pd:
                ps.append("(pd_ pdsize_ : Nat)")
            for nm, t in f.params:
                ps.append("(%s : %s)" % (nm, "Bool" if t[0] == "b" else ("Nat × Nat" if t[0] in ("sv", "svref") else ("Bytes" if t[0] == "ext" else "Nat"))))
            rt = {"b": "Bool", "v": "Unit", "sv": "(Nat × Nat)"}.get(f.ret[0], "Nat")
            for _o in f.outs:
                rt = "(%s × (Nat × Nat))" % rt
            if f.writes:
                rt = "Bytes" if f.ret[0] == "v" else "(Bytes × %s)" % rt
            out.append("/-- `%s` (%s) -/" % (f.qual, f.loc))
            out.append("def %s %s : Option %s := do" % (f.lean, " ".join(ps), rt))
            out.append(f.body)
            out.append("")
        out.append("/-- functions with a body that are outside the translated subset, with the first reason -/")
        out.append("def untranslated : List (String × String) := [")
        items = sorted(self.failed.items())
        for i, (k, v) in enumerate(items):
            out.append("  (%s, %s)%s" % (json.dumps(k), json.dumps(v[:120]), "," if i + 1 < len(items) else ""))
        out.append("]")
        out.append("")
        out.append("/-- reflected layout: sizeof of every wire record, (offset, size) of every member -/")
        for q in sorted(self.layout.size):
            out.append("def sizeof_%s : Nat := %d" % (self.ident(q), self.layout.size[q]))
        for (q, fld) in sorted(self.layout.field):
            o, z = self.layout.field[(q, fld)]
            out.append("def off_%s_%s : Nat := %d" % (self.ident(q), fld, o))
        out.append("")
        out.append("def translatedNames : List String := [%s]" % ", ".join(json.dumps(f.lean) for f in self.order))
        out.append("")
        out.append("end AsamCmp.SrcGen")
        return "\n".join(out) + "\n"


def static_local(n):
    """name of a local variable with static or thread storage duration inside the subtree, if any: such a variable is state shared
    between calls (and threads) that none of the translation modes models — the function is outside every subset"""
    if not isinstance(n, dict):
        return None
    if n.get("kind") == "VarDecl" and (n.get("storageClass") == "static" or n.get("tls")):
        return n.get("name") or "?"
    for c in n.get("inner", []):
        r = static_local(c)
        if r:
            return r
    return None


class FnTr:
    """translation of one function body"""

    def __init__(self, T, node, preset=None):
        self.T = T
        self.tu = T.tu
        self.node = node
        if isinstance(node, dict) and node.get("kind") in ("FunctionDecl", "CXXMethodDecl", "CXXConstructorDecl"):
            body = TU.body_of(node)
            sl = static_local(body) if body is not None else None
            if sl:
                raise Untranslatable("static local variable `%s` (state shared between calls)" % sl)
        self.fn = Fn()
        self.ext = {}       # decl id of an external buffer parameter -> lean name (Bytes)
        if preset:
            self.fn.uses_mem, self.fn.writes, self.fn.uses_pd, self.fn.resizes = preset
            if self.fn.resizes:
                self.fn.uses_pd = False
        self.cnt = 0
        self.break_k = []
        self.sv_locals = set()
        self.const_arrays = {}   # decl id of a local `char x[n] = {constants}` -> Lean byte list
        self.locals = {}    # decl id -> lean name

    def fresh(self, p="t"):
        self.cnt += 1
        return "%s%d" % (p, self.cnt)

    def vname(self, name, pre="v_"):
        return pre + re.sub(r"[^A-Za-z0-9_]", "_", name)

    def run(self):
        n = self.node
        f = self.fn
        f.qual = self.tu.qualname(n)
        f.node = n
        f.lean = self.T.lean_name(n)
        loc = n.get("loc", {})
        f.loc = "line %s" % (loc.get("line") or loc.get("spellingLoc", {}).get("line") or "?")
        qt = n.get("type", {}).get("qualType", "")
        rts = qt.split("(")[0].strip()
        if n["kind"] == "CXXConstructorDecl":
            raise Untranslatable("constructor")
        f.ret = self.T.ctype_s(rts) if "typename" not in rts else None
        if n["kind"] == "CXXMethodDecl" and n.get("storageClass") != "static":
            # the in-class declaration carries `static`
            st = False
            for cand in self.tu.nodes.get(n.get("previousDecl") or "", []):
                if cand.get("storageClass") == "static":
                    st = True
            if not st:
                f.has_this = True
                f.params.append(("this_", ("p", "")))
        for c in n.get("inner", []):
            if c.get("kind") == "ParmVarDecl":
                t = self.T.ctype(c.get("type"))
                nm = self.vname(c.get("name") or self.fresh("anon"), "a_")
                if t[0] == "vec" and not self.is_external_buffer(c["id"], TU.body_of(n)):
                    raise Untranslatable("std::vector parameter that is not only copied from")
                if t[0] in ("p", "sv", "vec") and self.is_external_buffer(c["id"], TU.body_of(n)):
                    # a caller's buffer that is only ever COPIED FROM (memcpy source / handed on as such): a separate read-only byte list
                    nm = self.vname(c.get("name"), "x_")
                    self.ext[c["id"]] = nm
                    f.params.append((nm, ("ext", t[0])))
                    continue
                self.locals[c["id"]] = nm
                f.params.append((nm, t))
                if t[0] == "svref":
                    f.outs.append(nm)
        if f.ret is None:
            # return type of a template instantiation: take it from the return statement's cast; default to unsigned of the widest
            f.ret = self.T.ctype_s(re.sub(r"typename std::underlying_type<(.*)>::type", r"\1", rts))
        body = TU.body_of(n)
        code = self.block(body.get("inner", []), self.fall_off, 1)
        f.body = code
        return f

    # ---------------------------------------------------------------- external buffers, memcpy, resize
    def uses_of(self, n, did, parent_chain, out):
        if not isinstance(n, dict):
            return
        if n.get("kind") == "DeclRefExpr" and n.get("referencedDecl", {}).get("id") == did:
            out.append(list(parent_chain))
        for c in n.get("inner", []):
            self.uses_of(c, did, parent_chain + [n], out)

    def is_external_buffer(self, did, body):
        """every use of the parameter is (after casts / `.data()` / `.size()`) the source argument of memcpy, the size of a string_view,
        or an argument handed to a callee parameter that is itself external"""
        uses = []
        self.uses_of(body, did, [], uses)
        if not uses:
            return False
        any_src = False
        for chain in uses:
            # climb through casts, parens, `.data()` / `.size()` member calls and copy constructions
            i = len(chain) - 1
            via_size = False
            while i >= 0 and (chain[i].get("kind") in ("ImplicitCastExpr", "ParenExpr", "CXXStaticCastExpr", "CXXReinterpretCastExpr", "CStyleCastExpr",
                                                        "MemberExpr", "CXXConstructExpr", "MaterializeTemporaryExpr", "CXXBindTemporaryExpr")
                              or (chain[i].get("kind") == "CXXMemberCallExpr" and len(chain[i].get("inner", [])) == 1)):
                if chain[i].get("kind") == "MemberExpr" and chain[i].get("name") in ("size", "length"):
                    via_size = True
                i -= 1
            if via_size:
                continue
            if i < 0:
                return False
            par = chain[i]
            child = chain[i + 1] if i + 1 < len(chain) else None
            if par.get("kind") == "CallExpr":
                callee = self.strip_casts(par["inner"][0])
                nm = callee.get("referencedDecl", {}).get("name")
                idx = next((k for k, a in enumerate(par["inner"]) if a is child), None)
                if nm == "memcpy" and idx == 2:
                    any_src = True
                    continue
                if nm == "memcpy":
                    return False
                # handed on: the callee's parameter must be external too
                try:
                    d = self.T.definition(callee["referencedDecl"]["id"])
                    f = self.T.translate_fn(d)
                except (Untranslatable, KeyError):
                    return False
                ps = [p for p in f.params if p[0] != "this_"]
                if idx is None or idx - 1 >= len(ps) or ps[idx - 1][1][0] != "ext":
                    return False
                any_src = True
                continue
            if par.get("kind") == "CXXMemberCallExpr":
                me = par["inner"][0]
                while me.get("kind") in ("ParenExpr", "ImplicitCastExpr"):
                    me = me["inner"][0]
                idx = next((k for k, a in enumerate(par["inner"]) if a is child), None)
                try:
                    d = self.T.definition(me["referencedMemberDecl"])
                    f = self.T.translate_fn(d)
                except (Untranslatable, KeyError):
                    return False
                ps = [p for p in f.params if p[0] != "this_"]
                if idx is None or idx < 1 or idx - 1 >= len(ps) or ps[idx - 1][1][0] != "ext":
                    return False
                any_src = True
                continue
            return False
        return any_src

    def ext_bytes(self, n, B):
        """Lean byte-list expression for a memcpy source, or None: an external buffer parameter, `&local`, a local constant array"""
        k = n
        while k.get("kind") in ("ImplicitCastExpr", "ParenExpr", "CXXStaticCastExpr", "CXXReinterpretCastExpr", "CStyleCastExpr") and k.get("castKind") != "ArrayToPointerDecay":
            k = k["inner"][0]
        if k.get("kind") == "DeclRefExpr" and k["referencedDecl"]["id"] in self.ext:
            return self.ext[k["referencedDecl"]["id"]]
        if k.get("kind") == "CXXMemberCallExpr":
            me = k["inner"][0]
            while me.get("kind") in ("ParenExpr", "ImplicitCastExpr"):
                me = me["inner"][0]
            if me.get("kind") == "MemberExpr" and me.get("name") == "data":
                b = me["inner"][0]
                while b.get("kind") in ("ParenExpr", "ImplicitCastExpr"):
                    b = b["inner"][0]
                if b.get("kind") == "DeclRefExpr" and b["referencedDecl"]["id"] in self.ext:
                    return self.ext[b["referencedDecl"]["id"]]
        if k.get("kind") == "UnaryOperator" and k.get("opcode") == "&":
            t = k["inner"][0]
            while t.get("kind") == "ParenExpr":
                t = t["inner"][0]
            if t.get("kind") == "DeclRefExpr" and t["referencedDecl"]["id"] in self.locals:
                ct = self.ty(t)
                if ct[0] == "i":
                    return "(leEnc %d %s)" % (ct[1] // 8, self.locals[t["referencedDecl"]["id"]])
        if k.get("kind") == "ImplicitCastExpr" and k.get("castKind") == "ArrayToPointerDecay":
            t = k["inner"][0]
            if t.get("kind") == "DeclRefExpr" and t["referencedDecl"]["id"] in self.const_arrays:
                return self.const_arrays[t["referencedDecl"]["id"]]
        return None

    def fall_off(self, ind):
        if self.fn.ret[0] == "v":
            return self.ret_code(None, ind)
        return "  " * ind + "none"   # flowing off the end of a value-returning function is undefined

    def ret_code(self, val, ind):
        f = self.fn
        pad = "  " * ind
        if f.ret[0] == "v":
            if f.outs:
                raise Untranslatable("void function with string_view& parameter")
            return pad + ("pure m" if f.writes_possible() else "pure ()")
        return pad + "pure " + val

    # ---------------------------------------------------------------- statements
    def block(self, stmts, k, ind):
        if not stmts:
            return k(ind)
        s, rest = stmts[0], stmts[1:]
        return self.stmt(s, lambda i2: self.block(rest, k, i2), ind)

    def with_binds(self, B, code, ind):
        pad = "  " * ind
        return "".join(pad + b + "\n" for b in B) + code

    def stmt(self, s, k, ind):
        pad = "  " * ind
        kind = s.get("kind")
        if kind == "CompoundStmt":
            return self.block(s.get("inner", []), k, ind)
        if kind == "NullStmt":
            return k(ind)
        if kind == "ReturnStmt":
            inner = s.get("inner", [])
            B = []
            if not inner:
                return self.ret_code(None, ind)
            v = self.ex(inner[0], B)
            v = self.conv_ret(v, inner[0])
            return self.with_binds(B, self.ret_code_v(v, ind), ind)
        if kind == "IfStmt":
            inner = s["inner"]
            if s.get("hasInit") or s.get("hasVar"):
                raise Untranslatable("if with initialiser")
            B = []
            c = self.cond(inner[0], B)
            th = self.stmt(inner[1], k, ind + 1)
            el = self.stmt(inner[2], k, ind + 1) if len(inner) > 2 else k(ind + 1)
            return self.with_binds(B, "%sif %s then\n%s\n%selse\n%s" % (pad, c, th, pad, el), ind)
        if kind == "DeclStmt":
            B = []
            lines = []
            for d in s.get("inner", []):
                if d.get("kind") != "VarDecl":
                    raise Untranslatable("declaration of " + str(d.get("kind")))
                qt0 = d.get("type", {}).get("qualType", "")
                if re.fullmatch(r"(const )?(unsigned )?(char|uint8_t)\[\d+\]", qt0):
                    il = [c for c in d.get("inner", []) if c.get("kind") == "InitListExpr"]
                    if not il:
                        raise Untranslatable("local array without constant initialiser")
                    vals = [self.const_int(e) % 256 for e in il[0].get("inner", [])]
                    nlen = int(re.search(r"\[(\d+)\]", qt0).group(1))
                    vals += [0] * (nlen - len(vals))
                    self.const_arrays[d["id"]] = "([%s] : Bytes)" % ", ".join(str(v) for v in vals)
                    continue
                t = self.T.ctype(d.get("type"))
                nm = self.vname(d["name"])
                init = [c for c in d.get("inner", []) if c.get("kind") not in ("FullComment",)]
                if not init:
                    raise Untranslatable("uninitialised local " + d["name"])
                v = self.ex(init[0], B)
                self.locals[d["id"]] = nm
                if t[0] == "sv":
                    self.sv_locals.add(d["id"])
                B.append("let %s := %s" % (nm, v))
            return self.with_binds(B, k(ind), ind)
        if kind == "ForStmt":
            return self.for_stmt(s, k, ind)
        if kind == "SwitchStmt":
            return self.switch_stmt(s, k, ind)
        if kind == "BreakStmt":
            if not self.break_k:
                raise Untranslatable("break outside switch")
            return self.break_k[-1](ind)
        if kind in ("WhileStmt", "DoStmt", "CXXForRangeStmt", "CXXTryStmt", "ContinueStmt", "GotoStmt"):
            raise Untranslatable(kind)
        # expression statement
        B = []
        self.effect(s, B)
        return self.with_binds(B, k(ind), ind)

    def ret_code_v(self, v, ind):
        pad = "  " * ind
        for o in self.fn.outs:
            v = "(%s, %s)" % (v, o)
        if self.fn.writes:
            if self.fn.outs:
                raise Untranslatable("string_view& parameter in a writing function")
            return pad + "pure (m, %s)" % v
        return pad + "pure %s" % v

    def conv_ret(self, v, node):
        return v

    def for_stmt(self, s, k, ind):
        init, _, cond, inc, body = (s["inner"] + [None] * 5)[:5]
        try:
            vd = init["inner"][0]
            assert init["kind"] == "DeclStmt" and vd["kind"] == "VarDecl"
            start = self.const_int(vd["inner"][0])
            assert cond["kind"] == "BinaryOperator" and cond["opcode"] in ("<", "<=", "!=")
            lhs = self.strip_casts(cond["inner"][0])
            assert lhs["kind"] == "DeclRefExpr" and lhs["referencedDecl"]["id"] == vd["id"]
            bound = self.const_int(cond["inner"][1])
            if cond["opcode"] == "<=":
                bound += 1
            assert inc["kind"] == "UnaryOperator" and inc["opcode"] == "++"
            il = self.strip_casts(inc["inner"][0])
            assert il["referencedDecl"]["id"] == vd["id"]
        except (AssertionError, KeyError, IndexError, TypeError, Untranslatable):
            raise Untranslatable("for loop that is not `for (T i = c; i < K; ++i)` with constants")
        if bound - start > 64:
            raise Untranslatable("loop bound too large to unroll")
        if self.assigns(body, vd["id"]) or self.contains(body, ("BreakStmt", "ContinueStmt")):
            raise Untranslatable("loop counter modified / break / continue in loop")
        nm = self.vname(vd["name"])
        self.locals[vd["id"]] = nm

        def it(j, ind2):
            if j >= bound:
                return k(ind2)
            return "  " * ind2 + "let %s := %d\n" % (nm, j) + self.stmt(body, lambda i3: it(j + 1, i3), ind2)
        return it(start, ind)

    def contains(self, n, kinds):
        if not isinstance(n, dict):
            return False
        if n.get("kind") in kinds:
            return True
        return any(self.contains(c, kinds) for c in n.get("inner", []))

    def assigns(self, n, did):
        if not isinstance(n, dict):
            return False
        if n.get("kind") in ("BinaryOperator", "CompoundAssignOperator", "UnaryOperator") and n.get("opcode") in ("=", "+=", "-=", "*=", "/=", "|=", "&=", "^=", "<<=", ">>=", "++", "--"):
            l = self.strip_casts(n["inner"][0])
            if l.get("kind") == "DeclRefExpr" and l.get("referencedDecl", {}).get("id") == did:
                return True
        return any(self.assigns(c, did) for c in n.get("inner", []))

    def switch_stmt(self, s, k, ind):
        inner = s["inner"]
        B = []
        c = self.ex(inner[0], B)
        sv = self.fresh("sw")
        B.append("let %s := %s" % (sv, c))
        comp = inner[1]
        if comp.get("kind") != "CompoundStmt":
            raise Untranslatable("switch body")
        groups = []   # (labels or None for default, [stmts])
        for st in comp.get("inner", []):
            if st.get("kind") in ("CaseStmt", "DefaultStmt"):
                labels = []
                cur = st
                is_default = False
                while cur.get("kind") in ("CaseStmt", "DefaultStmt"):
                    if cur["kind"] == "DefaultStmt":
                        is_default = True
                        cur = cur["inner"][0]
                    else:
                        labels.append(self.const_int(cur["inner"][0]))
                        cur = cur["inner"][1]
                if groups and not groups[-1][2]:
                    # previous group had labels but no statement: cannot happen (labels nest), keep safe
                    raise Untranslatable("switch shape")
                groups.append([labels, is_default, [cur]])
            else:
                if not groups:
                    raise Untranslatable("statement before first case")
                groups[-1][2].append(st)
        for g in groups:
            last = g[2][-1]
            if not self.terminates(last):
                raise Untranslatable("switch group falls through")
        self.break_k.append(k)
        pad = "  " * ind
        code = ""
        default = None
        first = True
        for labels, is_default, stmts in groups:
            body = self.block(stmts, k, ind + 1)
            if is_default:
                default = body
                if not labels:
                    continue
            condc = " || ".join("%s == %d" % (sv, l) for l in labels)
            code += "%s%s %s then\n%s\n" % (pad, "if" if first else "else if", condc, body)
            first = False
        self.break_k.pop()
        tail = default if default is not None else k(ind + 1)
        if first:
            code = tail
        else:
            code += "%selse\n%s" % (pad, tail)
        return self.with_binds(B, code, ind)

    def terminates(self, s):
        k = s.get("kind")
        if k in ("ReturnStmt", "BreakStmt"):
            return True
        if k == "CompoundStmt":
            return bool(s.get("inner")) and self.terminates(s["inner"][-1])
        if k == "IfStmt":
            i = s["inner"]
            return len(i) > 2 and self.terminates(i[1]) and self.terminates(i[2])
        return False

    # ---------------------------------------------------------------- expressions
    def strip_casts(self, n):
        while n.get("kind") in ("ImplicitCastExpr", "ParenExpr", "ConstantExpr", "CXXStaticCastExpr", "CStyleCastExpr", "ExprWithCleanups",
                                "MaterializeTemporaryExpr", "CXXFunctionalCastExpr") and n.get("inner"):
            n = n["inner"][0]
        return n

    def const_int(self, n):
        if "value" in n and n.get("kind") in ("ConstantExpr", "IntegerLiteral"):
            return int(n["value"])
        m = self.strip_casts(n)
        if m.get("kind") == "IntegerLiteral":
            return int(m["value"])
        if m.get("kind") == "UnaryExprOrTypeTraitExpr":
            return self.sizeof_expr(m)
        if m.get("kind") == "DeclRefExpr":
            d = self.tu.decl(m["referencedDecl"]["id"])
            if d["kind"] == "EnumConstantDecl":
                return self.enum_value(d)
            if d["kind"] == "VarDecl" and (d.get("constexpr") or "const" in d.get("type", {}).get("qualType", "")):
                for cand in self.tu.nodes.get(m["referencedDecl"]["id"], []):
                    init = [c for c in cand.get("inner", []) if c.get("kind") not in ("FullComment",)]
                    if init:
                        return self.const_int_deep(init[0])
        raise Untranslatable("not a constant")

    def enum_value(self, d):
        en = self.tu.parent[id(d)]
        val = -1
        for c in en.get("inner", []):
            if c.get("kind") != "EnumConstantDecl":
                continue
            init = [x for x in c.get("inner", []) if x.get("kind") not in ("FullComment",)]
            if init:
                val = self.const_int_deep(init[0])
            else:
                val += 1
            if c["id"] == d["id"]:
                return val
        raise Untranslatable("enum constant")

    def const_int_deep(self, n):
        if n.get("kind") == "ConstantExpr" and "value" in n:
            return int(n["value"])
        m = self.strip_casts(n)
        if m.get("kind") == "IntegerLiteral":
            return int(m["value"])
        if m.get("kind") == "DeclRefExpr":
            d = self.tu.decl(m["referencedDecl"]["id"])
            if d["kind"] == "EnumConstantDecl":
                return self.enum_value(d)
            if d["kind"] == "VarDecl" and (d.get("constexpr") or "const" in d.get("type", {}).get("qualType", "")):
                for cand in self.tu.nodes.get(m["referencedDecl"]["id"], []):
                    init = [c for c in cand.get("inner", []) if c.get("kind") not in ("FullComment",)]
                    if init:
                        return self.const_int_deep(init[0])
        if m.get("kind") == "UnaryExprOrTypeTraitExpr":
            return self.sizeof_expr(m)
        if m.get("kind") == "BinaryOperator":
            a, b = self.const_int_deep(m["inner"][0]), self.const_int_deep(m["inner"][1])
            return {"|": a | b, "&": a & b, "+": a + b, "-": a - b, "<<": a << b, ">>": a >> b, "*": a * b}[m["opcode"]]
        raise Untranslatable("enum initialiser")

    def sizeof_expr(self, n):
        if n.get("name") != "sizeof":
            raise Untranslatable(n.get("name", "trait"))
        at = n.get("argType")
        if at:
            return self.T.sizeof_type(at.get("desugaredQualType") or at["qualType"])
        arg = n["inner"][0]
        t = arg.get("type", {})
        return self.T.sizeof_type(t.get("desugaredQualType") or t["qualType"])

    def ty(self, n):
        return self.T.ctype(n.get("type"))

    def cond(self, n, B):
        t = self.ty(n)
        v = self.ex(n, B)
        if t[0] == "b":
            return v
        if t[0] == "i":
            return "(%s != 0)" % v
        raise Untranslatable("condition of pointer type")

    def lv(self, n, B):
        """lvalue: ('local', name, declid) or ('mem', address, ctype-or-None, size)"""
        k = n.get("kind")
        if k == "ParenExpr":
            return self.lv(n["inner"][0], B)
        if k == "DeclRefExpr":
            rd = n["referencedDecl"]
            if rd["id"] in self.locals:
                return ("local", self.locals[rd["id"]], rd["id"])
            raise Untranslatable("lvalue reference to non-local " + rd.get("name", "?"))
        if k == "MemberExpr":
            fd = self.tu.decl(n["referencedMemberDecl"])
            if fd["kind"] != "FieldDecl":
                raise Untranslatable("member " + fd.get("kind", "?"))
            recn = self.tu.context(fd)
            base = n["inner"][0]
            arrow = n.get("isArrow")
            while recn is not None and recn.get("kind") == "CXXRecordDecl" and not recn.get("name"):
                # member of an anonymous struct / union: address it through the enclosing named record
                b = base
                while b.get("kind") in ("ParenExpr", "ImplicitCastExpr"):
                    b = b["inner"][0]
                if b.get("kind") != "MemberExpr":
                    raise Untranslatable("anonymous member access shape")
                afd = self.tu.decl(b["referencedMemberDecl"])
                arrow = b.get("isArrow")
                base = b["inner"][0]
                recn = self.tu.context(afd)
            rec = self.tu.qualname(recn)
            key = (rec, fd["name"])
            if key not in self.T.layout.field:
                raise Untranslatable("member %s::%s has no reflected offset" % key)
            off, sz = self.T.layout.field[key]
            if arrow:
                a = self.ex(base, B)
            else:
                l = self.lv(base, B)
                if l[0] != "mem":
                    raise Untranslatable("member of a local object")
                a = l[1]
            self.fn.uses_mem = True
            addr = "(%s + %d)" % (a, off) if off else a
            qt = fd["type"].get("desugaredQualType") or fd["type"]["qualType"]
            try:
                ct = self.T.ctype_s(qt)
            except Untranslatable:
                ct = None
            return ("mem", addr, ct, sz)
        if k == "ArraySubscriptExpr":
            base, idx = n["inner"]
            bt = self.ty(base)
            if bt[0] != "p":
                raise Untranslatable("subscript of non-pointer")
            es = self.T.sizeof_type(bt[1])
            a = self.ex(base, B)
            it = self.ty(idx)
            i = self.ex(idx, B)
            if it[0] != "i":
                raise Untranslatable("index type")
            if it[2]:
                # signed index: must be non-negative
                t = self.fresh()
                B.append("let %s ← nonneg %d %s" % (t, it[1], i))
                i = t
            self.fn.uses_mem = True
            addr = "(%s + %s)" % (a, i) if es == 1 else "(%s + %s * %d)" % (a, i, es)
            return ("mem", addr, self.T.ctype_s(bt[1]), es)
        if k == "UnaryOperator" and n.get("opcode") == "*":
            p = n["inner"][0]
            pt = self.ty(p)
            a = self.ex(p, B)
            self.fn.uses_mem = True
            return ("mem", a, self.T.ctype_s(pt[1]), self.T.sizeof_type(pt[1]))
        raise Untranslatable("lvalue " + str(k))

    def load(self, l, B):
        if l[0] == "local":
            return l[1]
        _, addr, ct, sz = l
        if ct is None or ct[0] not in ("i", "b"):
            raise Untranslatable("load of non-scalar member")
        t = self.fresh()
        B.append("let %s ← rd m %s %d" % (t, addr, sz))
        if ct[0] == "b":
            return "(%s != 0)" % t
        return t

    def store(self, l, v, B, vt):
        if l[0] == "local":
            B.append("let %s := %s" % (l[1], v))
            return
        _, addr, ct, sz = l
        if ct is None or ct[0] not in ("i", "b"):
            raise Untranslatable("store to non-scalar member")
        if ct[0] == "b":
            v = "(if %s then 1 else 0)" % v
        self.fn.uses_mem = True
        self.fn.writes = True
        B.append("let m ← wr m %s %d %s" % (addr, sz, v))

    def cast(self, v, ft, tt):
        """integral conversion of a bit pattern"""
        if ft[0] == "b" and tt[0] == "i":
            return "(if %s then 1 else 0)" % v
        if ft[0] == "i" and tt[0] == "b":
            return "(%s != 0)" % v
        if ft[0] == "b" and tt[0] == "b":
            return v
        if ft[0] == "p" and tt[0] == "p":
            return v
        if ft[0] != "i" or tt[0] != "i":
            raise Untranslatable("cast %s -> %s" % (ft, tt))
        fb, fs, tb = ft[1], ft[2], tt[1]
        if tb == fb:
            return v
        if tb > fb:
            if fs:
                if v.isdigit():
                    x = int(v)
                    return str(x if x < 2 ** (fb - 1) else x + 2 ** tb - 2 ** fb)
                return "(sext %d %d %s)" % (fb, tb, v)
            return v
        if v.isdigit():
            return str(int(v) % 2 ** tb)
        return "(%s %% %d)" % (v, 2 ** tb)

    def ex(self, n, B):
        """rvalue; returns a pure Lean term (binds pushed to B)"""
        k = n.get("kind")
        if k in ("ParenExpr", "ConstantExpr", "ExprWithCleanups", "MaterializeTemporaryExpr", "CXXBindTemporaryExpr"):
            if k == "ConstantExpr" and "value" in n and self.ty(n)[0] == "i":
                return self.lit(int(n["value"]), self.ty(n))
            return self.ex(n["inner"][0], B)
        if k == "IntegerLiteral":
            return self.lit(int(n["value"]), self.ty(n))
        if k == "CXXBoolLiteralExpr":
            return "true" if n["value"] else "false"
        if k == "CharacterLiteral":
            return self.lit(int(n["value"]), self.ty(n))
        if k == "CXXThisExpr":
            return "this_"
        if k == "UnaryExprOrTypeTraitExpr":
            return str(self.sizeof_expr(n))
        if k in ("ImplicitCastExpr", "CXXStaticCastExpr", "CStyleCastExpr", "CXXReinterpretCastExpr", "CXXFunctionalCastExpr", "CXXConstCastExpr"):
            ck = n.get("castKind")
            sub = n["inner"][0]
            if ck == "LValueToRValue":
                s2 = sub
                while s2.get("kind") == "ParenExpr":
                    s2 = s2["inner"][0]
                if s2.get("kind") == "MemberExpr" and s2.get("name") == "npos":
                    return "18446744073709551615"
                return self.load(self.lv(sub, B), B) if not self.is_const_ref(sub) else self.const_ref(sub, B)
            if ck == "NullToPointer":
                return "0"
            if ck in ("UncheckedDerivedToBase", "DerivedToBase"):
                return self.ex(sub, B)
            if ck in ("NoOp", "BitCast", "ConstructorConversion", "UserDefinedConversion"):
                if ck in ("ConstructorConversion", "UserDefinedConversion"):
                    raise Untranslatable(ck)
                return self.ex(sub, B)
            if ck in ("IntegralCast", "IntegralToBoolean", "BooleanToSignedIntegral"):
                return self.cast(self.ex(sub, B), self.ty(sub), self.ty(n))
            if ck == "ArrayToPointerDecay":
                l = self.lv(sub, B)
                if l[0] != "mem":
                    raise Untranslatable("decay of local array")
                return l[1]
            if ck == "FunctionToPointerDecay":
                raise Untranslatable("function pointer")
            raise Untranslatable("cast kind " + str(ck))
        if k == "DeclRefExpr":
            return self.const_ref(n, B)
        if k == "UnaryOperator":
            return self.unary(n, B)
        if k == "BinaryOperator":
            return self.binary(n, B)
        if k == "CompoundAssignOperator":
            raise Untranslatable("compound assignment used as a value")
        if k == "ConditionalOperator":
            c, a, b = n["inner"]
            cv = self.cond(c, B)
            Ba, Bb = [], []
            av = self.ex(a, Ba)
            bv = self.ex(b, Bb)
            if not Ba and not Bb:
                return "(if %s then %s else %s)" % (cv, av, bv)
            t = self.fresh()
            B.append("let %s ← (if %s then (do %s) else (do %s))" % (t, cv, "; ".join(Ba + ["pure " + av]), "; ".join(Bb + ["pure " + bv])))
            return t
        if k in ("CXXConstructExpr", "CXXTemporaryObjectExpr") and self.is_sv_node(n):
            args = [a for a in n.get("inner", []) if a.get("kind") != "CXXDefaultArgExpr"]
            if len(args) == 0:
                return "((0, 0) : Nat × Nat)"
            if len(args) == 1:
                return self.ex(args[0], B)          # copy
            if len(args) == 2:
                return "(%s, %s)" % (self.ex(args[0], B), self.ex(args[1], B))
            raise Untranslatable("string_view constructor")
        if k == "MemberExpr" and n.get("name") == "npos":
            return "18446744073709551615"
        if k == "CXXMemberCallExpr":
            sv = self.sv_method(n, B)
            if sv is not None:
                return sv
        if k == "CXXMemberCallExpr":
            intr = self.payload_intrinsic(n)
            if intr:
                if self.fn.resizes:
                    self.fn.uses_mem = True
                    return "0" if intr == "pd_" else "m.length"
                self.fn.uses_pd = True
                return intr
        if k in ("CallExpr", "CXXMemberCallExpr"):
            return self.call(n, B, want_value=True)
        if k == "CXXOperatorCallExpr":
            raise Untranslatable("overloaded operator")
        raise Untranslatable("expression " + str(k))

    def is_sv_node(self, n):
        t = n.get("type", {})
        q = strip_cv(t.get("desugaredQualType") or t.get("qualType") or "")
        return Translator.is_sv(q) or Translator.is_sv(strip_cv(t.get("qualType") or ""))

    def sv_object(self, n):
        """the Lean name of a string_view local / parameter named by expression n, or None"""
        while n.get("kind") in ("ParenExpr", "ImplicitCastExpr"):
            n = n["inner"][0]
        if n.get("kind") == "DeclRefExpr" and n["referencedDecl"]["id"] in self.locals and self.is_sv_node(n):
            return self.locals[n["referencedDecl"]["id"]]
        return None

    def sv_method(self, n, B):
        """size / data / find / empty on a std::string_view object (a (pointer, length) pair)"""
        me = n["inner"][0]
        while me.get("kind") in ("ParenExpr", "ImplicitCastExpr"):
            me = me["inner"][0]
        if me.get("kind") != "MemberExpr":
            return None
        b0 = me["inner"][0]
        while b0.get("kind") in ("ParenExpr", "ImplicitCastExpr"):
            b0 = b0["inner"][0]
        if b0.get("kind") == "DeclRefExpr" and b0["referencedDecl"]["id"] in self.ext:
            if me.get("name") in ("size", "length") and len(n["inner"]) == 1:
                return "%s.length" % self.ext[b0["referencedDecl"]["id"]]
            raise Untranslatable("method of an external string_view other than size()")
        obj = self.sv_object(me["inner"][0])
        if obj is None:
            return None
        args = [a for a in n["inner"][1:] if a.get("kind") != "CXXDefaultArgExpr"]
        nm = me.get("name")
        if nm in ("size", "length") and not args:
            return "%s.2" % obj
        if nm == "data" and not args:
            return "%s.1" % obj
        if nm == "empty" and not args:
            return "(%s.2 == 0)" % obj
        if nm == "find" and len(args) == 1:
            c = self.ex(args[0], B)
            self.fn.uses_mem = True
            t = self.fresh()
            B.append("let %s ← svFind m %s (%s %% 256)" % (t, obj, c))
            return t
        raise Untranslatable("string_view method " + str(nm))

    def payload_intrinsic(self, n):
        """`payloadData.data()` / `payloadData.size()` on the enclosing payload object: the address and the size of the bytes the
        object owns (parameters `pd_`, `pdsize_` of the translated function)"""
        me = n["inner"][0]
        while me.get("kind") in ("ParenExpr", "ImplicitCastExpr"):
            me = me["inner"][0]
        if me.get("kind") != "MemberExpr" or me.get("name") not in ("data", "size") or len(n["inner"]) != 1:
            return None
        b = me["inner"][0]
        while b.get("kind") in ("ParenExpr", "ImplicitCastExpr"):
            b = b["inner"][0]
        if b.get("kind") != "MemberExpr" or b.get("name") != "payloadData":
            return None
        t = b["inner"][0]
        while t.get("kind") in ("ParenExpr", "ImplicitCastExpr"):
            t = t["inner"][0]
        if t.get("kind") != "CXXThisExpr":
            return None
        return "pd_" if me["name"] == "data" else "pdsize_"

    def is_const_ref(self, sub):
        s = sub
        while s.get("kind") == "ParenExpr":
            s = s["inner"][0]
        if s.get("kind") == "DeclRefExpr":
            rd = s["referencedDecl"]
            return rd["id"] not in self.locals
        return False

    def const_ref(self, n, B):
        while n.get("kind") == "ParenExpr":
            n = n["inner"][0]
        rd = n["referencedDecl"]
        if rd["id"] in self.locals:
            return self.locals[rd["id"]]
        d = self.tu.decl(rd["id"])
        if d["kind"] == "EnumConstantDecl":
            return self.lit(self.enum_value(d), self.ty(n))
        if d["kind"] == "VarDecl" and (d.get("constexpr") or "const" in d.get("type", {}).get("qualType", "")):
            init = [c for c in d.get("inner", []) if c.get("kind") not in ("FullComment",)]
            if not init:
                # the in-class declaration may carry the initialiser
                for cand in self.tu.nodes.get(rd["id"], []):
                    init = [c for c in cand.get("inner", []) if c.get("kind") not in ("FullComment",)] or init
            if not init:
                raise Untranslatable("constant without initialiser " + d.get("name", ""))
            B2 = []
            sub = FnTr(self.T, self.node)
            v = sub.ex(init[0], B2)
            if B2:
                raise Untranslatable("constant with effects")
            return v
        raise Untranslatable("reference to " + d["kind"] + " " + d.get("name", ""))

    def lit(self, v, t):
        if t[0] != "i":
            raise Untranslatable("literal type")
        if v < 0:
            v += 2 ** t[1]
        return str(v)

    def unary(self, n, B):
        op = n["opcode"]
        sub = n["inner"][0]
        t = self.ty(n)
        if op == "!":
            return "(!%s)" % self.cond(sub, B)
        if op == "~":
            return "(bnot %d %s)" % (t[1], self.ex(sub, B))
        if op == "-":
            v = self.ex(sub, B)
            if t[2]:
                r = self.fresh()
                B.append("let %s ← sneg %d %s" % (r, t[1], v))
                return r
            return "(usub %d 0 %s)" % (t[1], v)
        if op == "+":
            return self.ex(sub, B)
        if op == "&":
            l = self.lv(sub, B)
            if l[0] != "mem":
                raise Untranslatable("address of a local")
            return l[1]
        if op == "*":
            return self.load(self.lv(n, B), B)
        if op in ("++", "--"):
            raise Untranslatable("++/-- used as a value")
        raise Untranslatable("unary " + op)

    def arith(self, op, t, a, b, B, tb=None):
        """binary arithmetic at integer type t on bit patterns a, b"""
        bits, sg = t[1], t[2]
        if op in ("&", "|", "^"):
            return "(%s %s %s)" % (a, {"&": "&&&", "|": "|||", "^": "^^^"}[op], b)
        if op in ("+", "-", "*"):
            if not sg and a.isdigit() and b.isdigit():
                x, y = int(a), int(b)
                return str({"+": x + y, "-": x - y, "*": x * y}[op] % 2 ** bits)
            if not sg:
                return "(%s %d %s %s)" % ({"+": "uadd", "-": "usub", "*": "umul"}[op], bits, a, b)
            r = self.fresh()
            B.append("let %s ← %s %d %s %s" % (r, {"+": "sadd", "-": "ssub", "*": "smul"}[op], bits, a, b))
            return r
        if op in ("/", "%"):
            r = self.fresh()
            B.append("let %s ← %s %d %s %s" % (r, {("/", False): "udiv", ("%", False): "umod", ("/", True): "sdiv", ("%", True): "smod"}[(op, sg)], bits, a, b))
            return r
        if op in ("<<", ">>"):
            r = self.fresh()
            f = {("<<", False): "ushl", ("<<", True): "sshl", (">>", False): "ushr", (">>", True): "sshr"}[(op, sg)]
            B.append("let %s ← %s %d %s %s" % (r, f, bits, a, self.count(b, tb)))
            return r
        raise Untranslatable("operator " + op)

    def count(self, b, tb):
        # shift count: a negative count is undefined; the bit pattern of a negative signed value is >= 2^(bits-1) >= any width, so the range check of the shift rejects it
        return b

    def binary(self, n, B):
        op = n["opcode"]
        a, b = n["inner"]
        t = self.ty(n)
        if op == "=":
            raise Untranslatable("assignment used as a value")
        if op == ",":
            raise Untranslatable("comma")
        if op in ("&&", "||"):
            av = self.cond(a, B)
            Bb = []
            bv = self.cond(b, Bb)
            if not Bb:
                return "(%s %s %s)" % (av, op, bv)
            r = self.fresh()
            rhs = "(do %s)" % "; ".join(Bb + ["pure " + bv])
            if op == "&&":
                B.append("let %s ← (if %s then %s else pure false)" % (r, av, rhs))
            else:
                B.append("let %s ← (if %s then pure true else %s)" % (r, av, rhs))
            return r
        ta, tb = self.ty(a), self.ty(b)
        if op in ("==", "!=", "<", ">", "<=", ">="):
            av, bv = self.ex(a, B), self.ex(b, B)
            if ta[0] == "b" and tb[0] == "b":
                if op in ("==", "!="):
                    return "(%s %s %s)" % (av, op, bv)
                raise Untranslatable("ordering of bools")
            if ta[0] == "p" or tb[0] == "p":
                raise Untranslatable("pointer comparison")
            if ta != tb:
                raise Untranslatable("comparison of different types %s %s" % (ta, tb))
            if op in ("==", "!="):
                return "(%s %s %s)" % (av, op, bv)
            if ta[2]:
                f = {"<": "slt %d %s %s", ">": "slt %d %s %s", "<=": "sle %d %s %s", ">=": "sle %d %s %s"}[op]
                x, y = (av, bv) if op in ("<", "<=") else (bv, av)
                return "(" + f % (ta[1], x, y) + ")"
            return "(decide (%s %s %s))" % (av, {"<": "<", ">": ">", "<=": "≤", ">=": "≥"}[op], bv)
        if t[0] == "p":
            # pointer arithmetic
            if op not in ("+", "-"):
                raise Untranslatable("pointer operator")
            if ta[0] == "p" and tb[0] == "i":
                p, i, it = self.ex(a, B), self.ex(b, B), tb
                es = self.T.sizeof_type(ta[1])
            elif tb[0] == "p" and ta[0] == "i" and op == "+":
                p, i, it = self.ex(b, B), self.ex(a, B), ta
                es = self.T.sizeof_type(tb[1])
            else:
                raise Untranslatable("pointer difference")
            if it[2]:
                r = self.fresh()
                B.append("let %s ← nonneg %d %s" % (r, it[1], i))
                i = r
            if op == "-":
                r = self.fresh()
                B.append("let %s ← psub %s (%s * %d)" % (r, p, i, es))
                return r
            return "(%s + %s * %d)" % (p, i, es) if es != 1 else "(%s + %s)" % (p, i)
        if t[0] != "i":
            raise Untranslatable("binary operator at type %s" % (t,))
        if op == "-" and ta[0] == "p" and tb[0] == "p":
            # pointer difference inside the one memory: defined here for a non-negative result only
            es = self.T.sizeof_type(ta[1])
            av, bv = self.ex(a, B), self.ex(b, B)
            r = self.fresh()
            B.append("let %s ← psub %s %s" % (r, av, bv))
            return r if es == 1 else "(%s / %d)" % (r, es)
        av, bv = self.ex(a, B), self.ex(b, B)
        if op in ("<<", ">>"):
            if ta != t:
                av = self.cast(av, ta, t)
            return self.arith(op, t, av, bv, B, tb)
        if ta != t or tb != t:
            raise Untranslatable("operand types %s %s at %s" % (ta, tb, t))
        return self.arith(op, t, av, bv, B)

    # ---------------------------------------------------------------- effects (expression statements)
    def effect(self, s, B):
        k = s.get("kind")
        if k in ("ParenExpr", "ExprWithCleanups"):
            return self.effect(s["inner"][0], B)
        if k == "BinaryOperator" and s.get("opcode") == "=":
            l, r = s["inner"]
            v = self.ex(r, B)
            lv = self.lv(l, B)
            self.store(lv, v, B, self.ty(r))
            return
        if k == "CompoundAssignOperator":
            l, r = s["inner"]
            op = s["opcode"][:-1]
            lt = self.ty(l)
            ct = self.T.ctype(s.get("computeResultType")) if s.get("computeResultType") else lt
            rv = self.ex(r, B)
            lv = self.lv(l, B)
            cur = self.load(lv, B)
            rt = self.ty(r)
            if lt[0] == "p" and op in ("+", "-") and rt[0] == "i":
                es = self.T.sizeof_type(lt[1])
                if rt[2]:
                    t = self.fresh()
                    B.append("let %s ← nonneg %d %s" % (t, rt[1], rv))
                    rv = t
                step = rv if es == 1 else "(%s * %d)" % (rv, es)
                if op == "+":
                    self.store(lv, "(%s + %s)" % (cur, step), B, lt)
                else:
                    t = self.fresh()
                    B.append("let %s ← psub %s %s" % (t, cur, step))
                    self.store(lv, t, B, lt)
                return
            if lt[0] != "i" or ct[0] != "i":
                raise Untranslatable("compound assignment on non-integer")
            a = self.cast(cur, lt, ct)
            if op in ("<<", ">>"):
                v = self.arith(op, ct, a, rv, B, rt)
            else:
                if rt != ct:
                    raise Untranslatable("compound assignment operand type")
                v = self.arith(op, ct, a, rv, B)
            v = self.cast(v, ct, lt)
            self.store(lv, v, B, lt)
            return
        if k == "UnaryOperator" and s.get("opcode") in ("++", "--"):
            l = s["inner"][0]
            lt = self.ty(l)
            if lt[0] != "i":
                raise Untranslatable("++ on non-integer")
            lv = self.lv(l, B)
            cur = self.load(lv, B)
            op = "+" if s["opcode"] == "++" else "-"
            if lt[1] < 32:
                # promoted to int, converted back
                v = "((%s + %s) %% %d)" % (cur, "1" if op == "+" else str(2 ** lt[1] - 1), 2 ** lt[1])
            else:
                v = self.arith(op, lt, cur, "1", B)
            self.store(lv, v, B, lt)
            return
        if k == "CallExpr":
            callee = self.strip_casts(s["inner"][0])
            if callee.get("referencedDecl", {}).get("name") == "memcpy" and len(s["inner"]) == 4:
                dst = self.ex(s["inner"][1], B)
                src = self.ext_bytes(s["inner"][2], B)
                if src is None:
                    raise Untranslatable("memcpy source is not an external buffer, &local or a constant array")
                cnt = self.ex(s["inner"][3], B)
                self.fn.uses_mem = True
                self.fn.writes = True
                B.append("let m ← wrBytes m %s %s %s" % (dst, src, cnt))
                return
        if k == "CXXMemberCallExpr":
            me = s["inner"][0]
            while me.get("kind") in ("ParenExpr", "ImplicitCastExpr"):
                me = me["inner"][0]
            if me.get("kind") == "MemberExpr" and me.get("name") == "resize" and len(s["inner"]) == 2:
                b = me["inner"][0]
                while b.get("kind") in ("ParenExpr", "ImplicitCastExpr"):
                    b = b["inner"][0]
                t = b["inner"][0] if b.get("inner") else {}
                while t.get("kind") in ("ParenExpr", "ImplicitCastExpr"):
                    t = t["inner"][0]
                if b.get("kind") == "MemberExpr" and b.get("name") == "payloadData" and t.get("kind") == "CXXThisExpr":
                    nsz = self.ex(s["inner"][1], B)
                    self.fn.uses_mem = True
                    self.fn.writes = True
                    self.fn.resizes = True
                    B.append("let m := resize m %s" % nsz)
                    return
        if k == "CXXOperatorCallExpr":
            inner = s["inner"]
            callee = self.strip_casts(inner[0])
            if callee.get("referencedDecl", {}).get("name") == "operator=" and len(inner) == 3:
                obj = self.sv_object(inner[1])
                if obj is not None:
                    v = self.ex(inner[2], B)
                    B.append("let %s := %s" % (obj, v))
                    return
            raise Untranslatable("overloaded operator")
        if k == "CXXMemberCallExpr":
            me = s["inner"][0]
            while me.get("kind") in ("ParenExpr", "ImplicitCastExpr"):
                me = me["inner"][0]
            if me.get("kind") == "MemberExpr" and me.get("name") == "remove_suffix":
                obj = self.sv_object(me["inner"][0])
                if obj is not None:
                    kx = self.ex(s["inner"][1], B)
                    t = self.fresh()
                    B.append("let %s ← svRemoveSuffix %s %s" % (t, obj, kx))
                    B.append("let %s := %s" % (obj, t))
                    return
        if k in ("CallExpr", "CXXMemberCallExpr"):
            self.call(s, B, want_value=False)
            return
        if k in ("ImplicitCastExpr", "CStyleCastExpr") and s.get("castKind") == "ToVoid":
            return self.effect(s["inner"][0], B)
        # an expression evaluated for nothing: still evaluate (may be undefined)
        self.ex(s, B)

    def call(self, n, B, want_value):
        inner = n["inner"]
        callee = inner[0]
        args = inner[1:]
        this_addr = None
        if n["kind"] == "CXXMemberCallExpr":
            me = callee
            while me.get("kind") in ("ParenExpr", "ImplicitCastExpr"):
                me = me["inner"][0]
            if me.get("kind") != "MemberExpr":
                raise Untranslatable("member call shape")
            did = me["referencedMemberDecl"]
            base = me["inner"][0]
            if me.get("isArrow"):
                this_addr = self.ex(base, B)
            else:
                l = self.lv(base, B)
                if l[0] != "mem":
                    raise Untranslatable("method call on a local object")
                this_addr = l[1]
        else:
            c = self.strip_casts(callee)
            if c.get("kind") != "DeclRefExpr":
                raise Untranslatable("indirect call")
            did = c["referencedDecl"]["id"]
        d = self.T.definition(did)
        f = self.T.translate_fn(d)
        argv = []
        out_objs = []
        for (pn, pt), a in zip([p for p in f.params if p[0] != "this_"], args):
            if a.get("kind") == "CXXDefaultArgExpr":
                raise Untranslatable("default argument")
            if pt[0] == "ext":
                e = self.ext_bytes(a, B)
                if e is None:
                    a2 = a
                    while a2.get("kind") in ("ImplicitCastExpr", "ParenExpr", "CXXConstructExpr", "MaterializeTemporaryExpr", "CXXBindTemporaryExpr") and a2.get("inner"):
                        a2 = a2["inner"][0]
                    if a2.get("kind") == "DeclRefExpr" and a2["referencedDecl"]["id"] in self.ext:
                        e = self.ext[a2["referencedDecl"]["id"]]
                if e is None:
                    raise Untranslatable("argument for an external buffer parameter")
                argv.append(e)
                continue
            if pt[0] == "svref":
                obj = self.sv_object(a)
                if obj is None:
                    raise Untranslatable("string_view& argument is not a local")
                out_objs.append(obj)
                argv.append(obj)
            else:
                argv.append(self.ex(a, B))
        if len(args) != len([p for p in f.params if p[0] != "this_"]):
            raise Untranslatable("argument count")
        pl = []
        if f.uses_mem:
            self.fn.uses_mem = True
            pl.append("m")
        if f.resizes:
            if n["kind"] != "CXXMemberCallExpr" or self.strip_casts(me["inner"][0]).get("kind") != "CXXThisExpr":
                raise Untranslatable("resizing callee on another object")
            self.fn.resizes = True
        if f.uses_pd and self.fn.resizes:
            # the object's bytes are the memory itself
            pl += ["0", "m.length"]
        elif f.uses_pd:
            # only on the same object
            if n["kind"] != "CXXMemberCallExpr" or self.strip_casts(me["inner"][0]).get("kind") != "CXXThisExpr":
                raise Untranslatable("payload-owning callee on another object")
            self.fn.uses_pd = True
            pl += ["pd_", "pdsize_"]
        if f.has_this:
            if this_addr is None:
                raise Untranslatable("non-static method without object")
            pl.append(this_addr)
        exp = len(f.params) - (1 if f.has_this else 0)
        if len(argv) != exp:
            raise Untranslatable("argument count")
        pl += argv
        callc = "%s %s" % (f.lean, " ".join(pl)) if pl else f.lean
        if f.writes:
            self.fn.writes = True
            if f.ret[0] == "v":
                B.append("let m ← %s" % callc)
                return None
            r = self.fresh()
            B.append("let (m, %s) ← %s" % (r, callc))
            return r
        r = self.fresh()
        if f.ret[0] == "v":
            B.append("let _ ← %s" % callc)
            return None
        if out_objs:
            pat = r
            for o in out_objs:
                pat = "(%s, %s)" % (pat, o)
            B.append("let %s ← %s" % (pat, callc))
            return r
        B.append("let %s ← %s" % (r, callc))
        return r


def _writes_possible(self):
    return self.writes


Fn.writes_possible = _writes_possible


def generate(repo, workdir):
    T = Translator(repo, workdir)
    T.run_all()
    return T
