"""Generators for C11 (setting a field changes that field and nothing else) and C12 (wire layout)."""
from . import layout, proto
from .runner import Case

EXTRA = 4   # data bytes behind the header of payload classes: must never change


def bg_len(cname):
    ctype, kind, size, default, fields = layout.CLASSES[cname]
    if kind == "payload":
        return max(size, len(default) // 2) + EXTRA
    return size


def no_nan(cname, b):
    """float fields must not hold NaN patterns (floats travel as bit patterns)"""
    b = bytearray(b)
    for f in layout.CLASSES[cname][4]:
        if len(f) > 7 and f[7] == "float":
            off = f[1]
            if (b[off] & 0x7F) == 0x7F and (b[off + 1] & 0x80):
                b[off + 1] &= 0x7F
    return bytes(b)


def backgrounds(rng, cname):
    n = bg_len(cname)
    out = [("zero", bytes(n)), ("ones", no_nan(cname, b"\xff" * n))]
    for i in range(2):
        out.append(("rand", no_nan(cname, proto.rand_bytes(rng, n))))
    if layout.CLASSES[cname][1] == "packet":
        # segment type is an enum: keep it in range in the background
        out = [(t, b[:21] + bytes([b[21] & 0x0C])) for t, b in out]
    return out


def values_for(rng, f, tier):
    name, off, w, shift, bits = f[:5]
    small = layout.in_range_values(f)
    if small is not None:
        return small
    limit = 8 if tier == "quick" else 16
    if bits <= limit:
        return list(range(1 << bits))
    top = (1 << bits) - 1
    vals = {0, 1, top, top - 1, 1 << (bits - 1), (1 << (bits - 1)) - 1, 0x55555555555555555 & top, 0xAAAAAAAAAAAAAAAA & top}
    for _ in range(24 if tier == "quick" else 200):
        vals.add(rng.getrandbits(bits))
    if len(f) > 7 and f[7] == "float":
        vals = {v for v in vals if not (((v >> 23) & 0xFF) == 0xFF and (v & 0x7FFFFF))}
    return sorted(vals)


def read_field(f, b):
    name, off, w, shift, bits = f[:5]
    word = int.from_bytes(b[off:off + w], "big")
    return (word >> shift) & ((1 << bits) - 1)


def write_field(f, v, b):
    name, off, w, shift, bits = f[:5]
    word = int.from_bytes(b[off:off + w], "big")
    mask = ((1 << bits) - 1) << shift
    word = (word & ~mask) | (v << shift)
    return b[:off] + word.to_bytes(w, "big") + b[off + w:]


def gen_c11(tier, rng):
    cases = []
    # the type setters of Payload and TECMP::Payload (they forward to the payload-type object): type, message type, raw type
    for kind in ("pl", "tpl"):
        ops = []
        for _ in range(80 if tier == "quick" else 800):
            ty = rng.choice([0x0101, 0x03FF, 0xFFFF, 0, rng.getrandbits(16), rng.getrandbits(32)])
            ops.append("%s new x %08x %s" % (kind, ty, proto.hexs(proto.rand_bytes(rng, rng.randrange(0, 6)))))
            for _k in range(3):
                op = rng.choice(["settype", "setmt", "setraw"])
                v = rng.getrandbits(32) if op == "settype" else rng.getrandbits(8)
                ops.append("%s %s x %d" % (kind, op, v))
            ops.append("%s show x" % kind)
        cases.append(Case("c11p", ops, nontrivial=True, tags=(kind, "type-setters")))
    for cname, (ctype, kind, size, default, fields) in layout.CLASSES.items():
        for f in fields:
            for tag, bg in backgrounds(rng, cname):
                ops = ["fld %s %s" % (cname, bg.hex())]
                for v in values_for(rng, f, tier):
                    ops.append("fld %s %s set %s %d" % (cname, bg.hex(), f[0], v))
                cases.append(Case("c11", ops, nontrivial=tag != "zero", tags=(cname, tag), meta={"cls": cname, "noshrink": False}))
        # chains of 1..8 sets from any prior state; flags set and cleared in any order
        for _ in range(30 if tier == "quick" else 300):
            tag, bg = rng.choice(backgrounds(rng, cname))
            ops = []
            for _j in range(6):
                chain = []
                for _k in range(rng.randrange(1, 9)):
                    f = rng.choice(fields)
                    vals = layout.in_range_values(f)
                    v = rng.choice(vals) if vals else rng.getrandbits(f[4])
                    if len(f) > 7 and f[7] == "float" and ((v >> 23) & 0xFF) == 0xFF:
                        v &= 0x7FFFFFFF & ~(1 << 30)
                    chain.append("set %s %d" % (f[0], v))
                ops.append("fld %s %s %s" % (cname, bg.hex(), " ".join(chain)))
            cases.append(Case("c11c", ops, nontrivial=True, tags=(cname, "chain"), meta={"cls": cname}))
    # header fields that only a builder writes (CAN / CAN-FD data length + DLC, LIN and Ethernet data length, analog sample block): set
    # through setData on fresh objects, on objects built from received bytes and on objects that held other data; the field must
    # read back and nothing else of the header may change (the C13 cases of those classes, judged by the same layout predicate)
    from . import gen_bld
    for c in gen_bld.gen_c13(tier, rng):
        if c.meta.get("kind") in ("can", "canfd", "lin", "eth", "analog", "if", "cm") and "chain" not in c.tags:
            c.tags = tuple(c.tags) + ("length-fields",)
            cases.append(c)
    return cases


def parse_out(line):
    """raw bytes and getter values of a fld output line"""
    if not line.startswith("raw="):
        return None, None
    parts = line.split(" ")
    raw = bytes.fromhex(parts[0][4:]) if parts[0][4:] != "-" else b""
    vals = {}
    for p in parts[1:]:
        k, v = p.split("=")
        vals.setdefault(k, int(v))
    return raw, vals


def pred_c11(case, impl, model, ctx):
    """implementation only, against the layout table: after a chain of sets on background bg, the raw bytes
    are bg with exactly the written fields replaced, and every getter reads the table's field of those bytes"""
    cname = case.meta.get("cls")
    if cname is None:
        if case.meta.get("kind") is not None and "length-fields" in case.tags:
            from . import gen_bld
            return gen_bld.pred_c13(case, impl, model, ctx)
        return None
    fields = {f[0]: f for f in layout.CLASSES[cname][4]}
    for o, l in zip(case.ops, impl):
        if l.startswith("CRASH"):
            return False
        w = o.split(" ")
        if w[0] != "fld":
            continue
        ctype, kind, size, default, flds = layout.CLASSES[cname]
        b = bytes.fromhex(default) if w[2] == "default" else bytes.fromhex(w[2])
        for i in range(3, len(w), 3):
            b = write_field(fields[w[i + 1]], int(w[i + 2]), b)
        raw, vals = parse_out(l)
        if raw is None:
            return False
        if raw != b:
            return False
        for f in flds:
            if vals.get(f[0]) != read_field(f, b):
                return False
    return True


def gen_c12(tier, rng):
    cases = []
    # Packet::getRawCmpHeader / getRawMessageHeader: the header bytes the encoder copies into frames
    ops = []
    for i in range(60 if tier == "quick" else 600):
        p = proto.rand_packet(rng)
        p.flags = rng.getrandbits(8)
        p.seg = rng.choice([0, 4, 8, 12])
        ops += [p.line("h%d" % i), "pk rawhdr h%d" % i]
    cases.append(Case("c12h", ops, nontrivial=True, tags=("packet", "raw-headers")))
    for cname, (ctype, kind, size, default, fields) in layout.CLASSES.items():
        # default-constructed object: reserved bytes / bits zero, protocol defaults
        ops = ["fld %s default" % cname]
        # raw bytes laid out by hand (from the table) are read back as the same values
        for _ in range(40 if tier == "quick" else 400):
            n = bg_len(cname)
            b = bytearray(n)
            for f in fields:
                vals = layout.in_range_values(f)
                v = rng.choice(vals) if vals else rng.choice([0, (1 << f[4]) - 1, rng.getrandbits(f[4])])
                if len(f) > 7 and f[7] == "float" and ((v >> 23) & 0xFF) == 0xFF:
                    v = 0x3F800000
                b = bytearray(write_field(f, v, bytes(b)))
            if kind == "packet":
                b[21] &= 0x0C
            ops.append("fld %s %s" % (cname, bytes(b).hex()))
        cases.append(Case("c12r", ops, nontrivial=True, tags=(cname, "read"), meta={"cls": cname}))
        # every field written through the API on a default object appears big-endian at its offset, reserved bits stay zero
        ops = []
        for f in fields:
            for v in values_for(rng, f, "quick")[:: 1 if f[4] > 8 else 17]:
                ops.append("fld %s default set %s %d" % (cname, f[0], v))
        cases.append(Case("c12w", ops, nontrivial=True, tags=(cname, "write"), meta={"cls": cname}))
        # the same on objects that already carry data (all ones / random): the field still lands at its table position and a SECOND
        # write of the same field replaces the first completely (a setter that clears with the wrong mask only shows here)
        ops = []
        for tag, bg in backgrounds(rng, cname):
            if tag == "zero":
                continue
            for f in fields:
                vals = layout.in_range_values(f)
                top = (1 << f[4]) - 1
                cands = vals if vals else [top, 0, 1, top >> 1, (top >> 1) + 1, rng.getrandbits(f[4])]
                if len(f) > 7 and f[7] == "float":
                    cands = [0x3F800000, 0, 0x40490FDB]
                v1, v2 = rng.choice(cands), rng.choice(cands)
                ops.append("fld %s %s set %s %d" % (cname, bg.hex(), f[0], v1))
                ops.append("fld %s %s set %s %d set %s %d" % (cname, bg.hex(), f[0], v1, f[0], v2))
                ops.append("fld %s default set %s %d set %s %d" % (cname, f[0], cands[0], f[0], cands[1 % len(cands)]))
        cases.append(Case("c12b", ops, nontrivial=True, tags=(cname, "write-on-data"), meta={"cls": cname}))
    cases.append(c12_tecmp_crc_case())
    # variable-length parts (stream-id list with its pad byte, strings with NUL and pad, vendor data, data blocks): laid out by the
    # builders, on fresh objects and on objects that held other data — the C13 cases, judged here by the same layout predicate
    from . import gen_bld
    for c in gen_bld.gen_c13(tier, rng):
        if "max-count" in c.tags:
            continue
        c.tags = tuple(c.tags) + ("builder-layout",)
        cases.append(c)
    return cases


def c12_tecmp_crc_case():
    """KNOWN FINDING (known-findings.txt, open): TECMP::CanPayload::getCrc copies the three CRC bytes behind the data into an integer in HOST
    order, so the big-endian wire value 0x123456 is read as 0x563412 (and the converter hands that to the ASAM CAN-FD payload).  Fixed script:
    one TECMP CAN-FD data message with 12 data bytes and CRC bytes 12 34 56 (proved of the model: C12S.tecmp_can_crc_host_order / _witness)."""
    import random
    from . import gen_dec
    pl = be_(0x1ABCDEF0, 4) + be_(12, 1) + bytes(range(1, 13)) + bytes([0x12, 0x34, 0x56])
    fr = gen_dec.tecmp_frame(random.Random(12345), 3, 3, pl)
    return Case("c12crc", ["tecmp " + fr.hex()], True, ("tecmp-can-crc-byte-order",), meta={"tecmp_crc": 0x123456, "noshrink": True})


def be_(v, n):
    return int(v).to_bytes(n, "big")


def pred_c12(case, impl, model, ctx):
    """fixed header fields against the layout table (pred_c11); builder cases against the variable-part layout (pred_c13)"""
    if case.meta.get("tecmp_crc") is not None:
        # the CAN-FD payload the converter built: crc word = bytes 8..11, CRC in its low 21 bits; it must be the BIG-ENDIAN value of the wire bytes
        l = impl[0] if impl else ""
        parts = l.split(" ")
        if len(parts) != 3 or parts[1] != "1":
            return False
        body = bytes.fromhex(parts[2].split(":")[-1])
        return len(body) >= 12 and (int.from_bytes(body[8:12], "big") & 0x1FFFFF) == (case.meta["tecmp_crc"] & 0x1FFFFF)
    if case.meta.get("cls") is not None:
        return pred_c11(case, impl, model, ctx)
    if case.meta.get("kind") is not None:
        from . import gen_bld
        return gen_bld.pred_c13(case, impl, model, ctx)
    return None


def lean_bytes(b):
    return "([" + ", ".join(str(x) for x in b) + "] : Bytes)"


def selfcheck_fld(cases, model):
    """a sample of `fld` results of the compiled driver, as kernel-checked equations about setField"""
    ex = []
    for c, m in zip(cases, model):
        if len(ex) >= 14:
            break
        cname = c.meta.get("cls")
        if cname is None or "chain" not in c.tags:
            continue
        fields = {f[0]: f for f in layout.CLASSES[cname][4]}
        for o, l in list(zip(c.ops, m))[:1]:
            w = o.split(" ")
            if w[2] == "default" or len(w) > 3 + 3 * 4 or not l.startswith("raw="):
                continue
            term = lean_bytes(bytes.fromhex(w[2]))
            for i in range(3, len(w), 3):
                f = fields[w[i + 1]]
                term = "(setField ⟨\"%s\", %d, %d, %d, %d, \"\"⟩ %s %s)" % (f[0], f[1], f[2], f[3], f[4], w[i + 2], term)
            raw = bytes.fromhex(l.split(" ")[0][4:])
            ex.append("example : %s = %s := by decide" % (term, lean_bytes(raw)))
    return ["AsamCmp.Fields"], ex
