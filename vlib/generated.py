"""Regeneration of lean/AsamCmp/Generated.lean from /repo's current headers and objects."""
import os
import re
import subprocess

from . import core


def regenerate(hdir):
    dumper = os.path.join(hdir, "dumper")
    if not os.path.exists(dumper):
        err = os.path.join(hdir, "dumper.err")
        if os.path.exists(err):
            # the constants program does not compile against the current headers: no constants can be reflected; a stub (no
            # definitions) replaces Generated.lean, so that every obligation about the constants breaks instead of being checked
            # against the constants of an earlier tree
            msg = open(err).read()
            text = ("/- STUB: harness/dumper.cpp does not compile against the current headers, the constants could not be regenerated.\n"
                    + msg[:1500].replace("-/", "- /") + "\n-/\nnamespace AsamCmp.Generated\nend AsamCmp.Generated\n")
            p = os.path.join(core.LEAN, "AsamCmp", "Generated.lean")
            if not os.path.exists(p) or open(p).read() != text:
                with core.Lock("lake"):
                    with open(p, "w") as f:
                        f.write(text)
            return "Generated.lean: STUB (the constants program does not compile: " + msg.strip().split("\n")[-1][:200] + "); " + regenerate_src()
        return "no dumper built"
    r = subprocess.run([dumper], stdout=subprocess.PIPE, stderr=subprocess.PIPE, env=dict(os.environ, **core.SAN_ENV))
    if r.returncode != 0:
        raise RuntimeError("dumper failed: " + r.stderr.decode(errors="replace")[:500])
    text = r.stdout.decode()
    # mutable static storage of the library objects (nm on the freshly built objects)
    syms, ignored, seen = mutable_statics_elf(os.path.join(hdir, "obj"))
    text += "\n" + create_dispatch() + "\n"
    text += ("\n/-- every defined OBJECT / TLS symbol (local, global, weak, unique: inline variables, statics of templates and inline functions too) in a\n"
             "    WRITABLE section of a library object other than relocation-read-only data, read from the ELF tables of the freshly built\n"
             "    objects (%d data symbols looked at), minus the ignored ones listed below -/\n" % seen)
    text += "def mutableStatics : List String := [" + ", ".join('"%s"' % s.replace('"', "'") for s in syms) + "]\n"
    text += "\n/-- what the scan found and ignored, and why (nothing is ignored silently) -/\n"
    text += "def mutableStaticsIgnored : List (String × String) := [" + ", ".join('("%s", "%s")' % (a.replace('"', "'"), b) for a, b in ignored) + "]\n\nend AsamCmp.Generated\n"
    p = os.path.join(core.LEAN, "AsamCmp", "Generated.lean")
    old = open(p).read() if os.path.exists(p) else None
    if old != text:
        with core.Lock("lake"):
            with open(p, "w") as f:
                f.write(text)
    note = regenerate_src()
    return "Generated.lean regenerated from /repo (%d bytes, %d mutable statics); %s" % (len(text), len(syms), note)


def regenerate_src():
    """lean/AsamCmp/GeneratedSrc.lean: the byte-level functions of /repo/src/*.cpp translated from the typed clang AST
    (vlib/srctrans.py).  The theorems of Props/SrcTie.lean are re-checked against it by the lake build that follows."""
    from . import srctrans
    p = os.path.join(core.LEAN, "AsamCmp", "GeneratedSrc.lean")
    try:
        T = srctrans.generate(core.REPO, os.path.join(core.CACHE, "srctrans-%d" % os.getpid()))
        text = T.emit()
        note = "GeneratedSrc.lean: %d functions translated from the clang AST, %d outside the subset" % (len(T.order), len(T.failed))
        from . import srcobj
        po = os.path.join(core.LEAN, "AsamCmp", "GeneratedSrcObj.lean")
        try:
            OT = srcobj.ObjTranslator(T, "ASAM::CMP::Encoder")
            OT.run()
            OP = srcobj.ObjTranslator(T, "ASAM::CMP::Packet")
            OP.run()
            OS = srcobj.ObjTranslator(T, "ASAM::CMP::Decoder::SegmentedPacket")
            OS.run()
            OS.run_ctors()
            OD = srcobj.ObjTranslator(T, "ASAM::CMP::Decoder", elem=OS)
            OD.run()
            # key type of the decoder's unordered_map: its operator== and hash (the map primitives of Src/Obj.lean compare keys structurally)
            OE = srcobj.ObjTranslator(T, "ASAM::CMP::Decoder::Endpoint")
            OE.run()
            OH = srcobj.ObjTranslator(T, "ASAM::CMP::Decoder::EndpointHash")
            OH.run()
            OI = srcobj.StTranslator(T, "ASAM::CMP::InterfaceStatus")
            OI.run()
            OV = srcobj.StTranslator(T, "ASAM::CMP::DeviceStatus", elem=OI)
            OV.run()
            OU = srcobj.StTranslator(T, "ASAM::CMP::Status", elem=OV)
            OU.run()
            from . import srctmpl
            tmpl_text, n_tmpl, n_tmpl_failed = srctmpl.range_templates(OT)
            # packet value mode: PayloadType / Payload / Packet as values (constructors, create, copy / move / swap / ==, getters)
            PV = srcobj.PvTranslator(T, flat=["ASAM::CMP::PayloadType"], records=[("ASAM::CMP::Payload", "Payload"), ("ASAM::CMP::Packet", "PacketV")])
            PV.run()
            otext = ("/- GENERATED on every run by vlib/srcobj.py from the typed clang AST of /repo/src/encoder.cpp, packet.cpp, payload.cpp (+ payload_type.h and the payload classes' constructors), decoder.cpp, status.cpp, device_status.cpp, interface_status.cpp — do not edit. -/\n"
                     "import AsamCmp.GeneratedSrc\nimport AsamCmp.Src.Obj\nset_option linter.unusedVariables false\nnamespace AsamCmp.SrcGen\n"
                     "open AsamCmp AsamCmp.Src\n\n" + OT.emit() + "\n" + tmpl_text + "\n" + OP.emit() + "\n" + OS.emit() + "\n" + OD.emit() + "\n" + OE.emit() + "\n" + OH.emit() + "\n" + OI.emit() + "\n" + OV.emit() + "\n" + OU.emit() + "\n" + PV.emit() + "\nend AsamCmp.SrcGen\n")
            note += "; GeneratedSrcObj.lean: %d Encoder, %d Packet, %d Decoder::SegmentedPacket, %d Decoder methods translated as state transformers (%d / %d / %d / %d not)" % (
                len(OT.order), len(OP.order), len(OS.order), len(OD.order), len(OT.failed), len(OP.failed), len(OS.failed), len(OD.failed))
            note += "; %d InterfaceStatus / %d DeviceStatus / %d Status methods" % (len(OI.order), len(OV.order), len(OU.order))
            note += "; %d Encoder member templates over an iterator range (%d not)" % (n_tmpl, n_tmpl_failed)
            note += "; packet value mode: %d functions of PayloadType / Payload / Packet (%d not)" % (len(PV.order), len(PV.failed))
        except Exception as e:  # noqa: any failure of the object translator on the current source => stub file => broken obligations
            otext = "/- GENERATED: the object translator could not run: %s -/\nimport AsamCmp.Src.Obj\nnamespace AsamCmp.SrcGen\nend AsamCmp.SrcGen\n" % str(e).replace("-/", "- /")[:400]
            note += "; GeneratedSrcObj.lean: object translator failed (%s)" % str(e)[:120]
        oldo = open(po).read() if os.path.exists(po) else None
        if oldo != otext:
            with core.Lock("lake"):
                with open(po, "w") as f:
                    f.write(otext)
        from . import srctecmp
        pt = os.path.join(core.LEAN, "AsamCmp", "GeneratedSrcTecmp.lean")
        try:
            ttext, tnote, _x = srctecmp.generate(T)
            note += "; " + tnote
        except Exception as e:  # noqa: any failure of the TECMP translator on the current source => stub file => broken obligations
            ttext = "/- GENERATED: the TECMP translator could not run: %s -/\nimport AsamCmp.GeneratedSrcObj\nimport AsamCmp.Src.ObjTecmp\nnamespace AsamCmp.SrcGen\nend AsamCmp.SrcGen\n" % str(e).replace("-/", "- /")[:400]
            note += "; GeneratedSrcTecmp.lean: TECMP translator failed (%s)" % str(e)[:120]
        oldt = open(pt).read() if os.path.exists(pt) else None
        if oldt != ttext:
            with core.Lock("lake"):
                with open(pt, "w") as f:
                    f.write(ttext)
        from . import srcsig
        try:
            stext, nsig = srcsig.generate(T)
            note += "; GeneratedSrcSig.lean: %d declared signatures / member types" % nsig
        except Exception as e:  # noqa
            stext = "/- GENERATED: the signature table could not be produced: %s -/\nnamespace AsamCmp.SrcGen\nend AsamCmp.SrcGen\n" % str(e).replace("-/", "- /")[:400]
            note += "; GeneratedSrcSig.lean: failed (%s)" % str(e)[:120]
        ps = os.path.join(core.LEAN, "AsamCmp", "GeneratedSrcSig.lean")
        olds = open(ps).read() if os.path.exists(ps) else None
        if olds != stext:
            with core.Lock("lake"):
                with open(ps, "w") as f:
                    f.write(stext)
        from . import srcfields
        try:
            ftext, nprog, nent, notes = srcfields.generate(T)
            note += "; GeneratedSrcFields.lean: %d bit programs, %d field-accessor entries, %d accessors not covered" % (nprog, nent, len(notes))
        except Exception as e:  # noqa
            ftext = "/- GENERATED: the bit-program translator could not run: %s -/\nimport AsamCmp.Src.FieldCheck\nnamespace AsamCmp.SrcGen\nend AsamCmp.SrcGen\n" % str(e).replace("-/", "- /")[:400]
            note += "; GeneratedSrcFields.lean: bit-program translator failed (%s)" % str(e)[:120]
        pf = os.path.join(core.LEAN, "AsamCmp", "GeneratedSrcFields.lean")
        oldf = open(pf).read() if os.path.exists(pf) else None
        if oldf != ftext:
            with core.Lock("lake"):
                with open(pf, "w") as f:
                    f.write(ftext)
    except Exception as e:  # noqa: clang cannot parse the sources, reflection program does not compile, unexpected AST: stub => broken obligations
        text = "/- GENERATED: the translator could not run: %s -/\nimport AsamCmp.Src.Sem\nnamespace AsamCmp.SrcGen\nend AsamCmp.SrcGen\n" % str(e).replace("-/", "- /")[:600]
        note = "GeneratedSrc.lean: translator failed (%s)" % str(e)[:200]
    finally:
        import shutil
        shutil.rmtree(os.path.join(core.CACHE, "srctrans-%d" % os.getpid()), ignore_errors=True)
    old = open(p).read() if os.path.exists(p) else None
    if old != text:
        with core.Lock("lake"):
            with open(p, "w") as f:
                f.write(text)
    return note


# symbols in writable sections that are not state of the library: (substring of the demangled name, why it is ignored)
ALLOW = (("std::__ioinit", "the iostream initialiser object every translation unit that includes <iostream> gets"),
         ("__asan", "AddressSanitizer instrumentation of the harness build"), ("__ubsan", "UBSan instrumentation"), ("__odr_asan", "ASan ODR indicators"),
         ("__tsan", "ThreadSanitizer instrumentation"), ("__sancov", "sanitizer coverage"), ("DW.ref.", "pointer to the exception personality routine"),
         ("guard variable for std::", "guard of a function-local static INSIDE the standard library headers"))
RELRO = (".data.rel.ro", ".init_array", ".fini_array", ".ctors", ".dtors", ".eh_frame", ".gcc_except_table", ".tm_clone_table")


def mutable_statics_elf(objdir):
    """Every defined OBJECT / TLS symbol — local, global, weak or unique (inline variables, statics of templates and of inline
    functions) — that lives in a WRITABLE section of a library object, other than relocation-read-only data (vtables, typeinfo),
    read from the ELF section and symbol tables.  -> (kept names, ignored [(name, reason)], number of symbols looked at)"""
    import glob
    keep, ignored, seen = set(), set(), 0
    for o in sorted(glob.glob(os.path.join(objdir, "*.o"))):
        sec = {}
        r = subprocess.run(["readelf", "-S", "-W", o], stdout=subprocess.PIPE, stderr=subprocess.PIPE).stdout.decode(errors="replace")
        for line in r.split("\n"):
            m = re.match(r"\s*\[\s*(\d+)\]\s+(\S+)\s+(\S+)\s+[0-9a-f]+\s+[0-9a-f]+\s+[0-9a-f]+\s+[0-9a-f]+\s+([A-Za-z]*)\s", line)
            if m:
                sec[m.group(1)] = (m.group(2), m.group(4))
        r = subprocess.run(["readelf", "-s", "-W", o], stdout=subprocess.PIPE, stderr=subprocess.PIPE).stdout.decode(errors="replace")
        names = []
        for line in r.split("\n"):
            w = line.split()
            if len(w) >= 8 and w[3] in ("OBJECT", "TLS") and w[6].isdigit():
                sname, flags = sec.get(w[6], ("?", ""))
                seen += 1
                if "W" in flags and not sname.startswith(RELRO):
                    names.append((w[7], w[3] == "TLS"))
        if names:
            dem = subprocess.run(["c++filt"], input="\n".join(n for n, _ in names).encode(), stdout=subprocess.PIPE).stdout.decode(errors="replace").split("\n")
            for (raw, tls), d in zip(names, dem):
                d = d.strip() or raw
                hit = [why for pat, why in ALLOW if pat in d or pat in raw]
                if hit:
                    ignored.add((d, hit[0]))
                else:
                    keep.add(("thread_local " if tls else "") + d)
    return sorted(keep), sorted(ignored), seen


def mutable_statics(objdir):
    return mutable_statics_elf(objdir)[0]


def _strip_comments(src):
    import re
    src = re.sub(r"/\*.*?\*/", " ", src, flags=re.S)
    return re.sub(r"//[^\n]*", " ", src)


def create_dispatch():
    """Source-level translation of the dispatch table of `Packet::create` (src/packet.cpp): for every `case PayloadType::X:` the class
    whose `isValidPayload` guards the branch and the class that is constructed.  A branch that validates with one class and
    constructs another (the repaired defect D3) shows here at build time, before any sampling."""
    import re
    src = _strip_comments(open(os.path.join(core.REPO, "src", "packet.cpp"), "rb").read().decode(errors="replace").replace("\r", ""))
    m = re.search(r"Packet::create\s*\([^)]*\)\s*\{(.*?)\n\}", src, re.S)
    rows = []
    if m:
        body = m.group(1)
        for c in re.finditer(r"case\s+PayloadType::(\w+)\s*:\s*if\s*\(\s*(\w+)::isValidPayload\s*\(\s*data\s*,\s*size\s*\)\s*\)\s*return\s+std::make_unique<\s*(\w+)\s*>\s*\(\s*data\s*,\s*size\s*\)\s*;\s*break\s*;", body):
            rows.append(c.groups())
        has_default = bool(re.search(r"default\s*:\s*return\s+std::make_unique<\s*Payload\s*>\s*\(\s*type\s*,\s*data\s*,\s*size\s*\)\s*;", body))
        has_fallback = bool(re.search(r"return\s+std::make_unique<\s*Payload\s*>\s*\(\s*PayloadType::invalid\s*,\s*data\s*,\s*size\s*\)\s*;\s*$", body.strip()))
        n_cases = len(re.findall(r"\bcase\b", body))
    else:
        has_default = has_fallback = False
        n_cases = -1
    out = "/-- dispatch table of `Packet::create`, translated from src/packet.cpp: (case, validating class, constructed class) -/\n"
    out += "def createDispatch : List (String × String × String) := [" + ", ".join('("%s", "%s", "%s")' % r for r in rows) + "]\n"
    out += "/-- number of `case` labels in `Packet::create`; unknown types are kept generic; rejected payloads become `PayloadType::invalid` -/\n"
    out += "def createShape : Nat × Bool × Bool := (%d, %s, %s)\n" % (n_cases, "true" if has_default else "false", "true" if has_fallback else "false")
    return out
