"""Regeneration of lean/AsamCmp/Generated.lean from /repo's current headers and objects."""
import os
import subprocess

from . import core


def regenerate(hdir):
    dumper = os.path.join(hdir, "dumper")
    if not os.path.exists(dumper):
        return "no dumper built"
    r = subprocess.run([dumper], stdout=subprocess.PIPE, stderr=subprocess.PIPE, env=dict(os.environ, **core.SAN_ENV))
    if r.returncode != 0:
        raise RuntimeError("dumper failed: " + r.stderr.decode(errors="replace")[:500])
    text = r.stdout.decode()
    # mutable static storage of the library objects (nm on the freshly built objects)
    syms = mutable_statics(os.path.join(hdir, "obj"))
    text += "\n/-- symbols in writable sections of the library objects, minus the allow-list -/\n"
    text += "def mutableStatics : List String := [" + ", ".join('"%s"' % s for s in syms) + "]\n\nend AsamCmp.Generated\n"
    p = os.path.join(core.LEAN, "AsamCmp", "Generated.lean")
    old = open(p).read() if os.path.exists(p) else None
    if old != text:
        with core.Lock("lake"):
            with open(p, "w") as f:
                f.write(text)
    return "Generated.lean regenerated from /repo (%d bytes, %d mutable statics)" % (len(text), len(syms))


ALLOW = ("std::__ioinit", "__asan", "__ubsan", "__odr_asan", "__tsan", "__sancov", "guard variable for std::", "DW.ref")


def mutable_statics(objdir):
    r = subprocess.run("nm -C %s/*.o" % objdir, shell=True, stdout=subprocess.PIPE, stderr=subprocess.PIPE)
    out = set()
    for line in r.stdout.decode(errors="replace").split("\n"):
        parts = line.split(None, 2)
        if len(parts) == 3 and parts[1] in "bBdDCsSgG":
            name = parts[2]
            if any(a in name for a in ALLOW):
                continue
            out.add(name)
    return sorted(out)
