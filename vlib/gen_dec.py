"""Generators for the decoder family: C02 (arbitrary bytes), C04 (wire fields), C05 (reassembly
under interleaving), C06 (faults), C15 (TECMP), C17 (pending state), C18 (isolation).
All frames are built from the protocol tables in proto.py, never with the library."""
import itertools

from . import proto
from .proto import be, frame_header, message
from .runner import Case
from . import gen_enc

GEN_PT = [0x04, 0x05, 0x09, 0x0A, 0xFF, 0x0D]

# endpoint families whose members coincide under plausible wrong packings of the (device id, stream id) key:
# dev | stream << 8, (dev << 8 | stream) & 0xFFFF, dev + stream, dev ^ stream, device only, stream only
COLLIDING = [
    [(0x0003, 1), (0x0103, 1), (0x0103, 0)],        # dev | stream << 8
    [(0x0101, 2), (0x0301, 0), (0x0201, 3)],        # (stream << 8) | dev
    [(0x0102, 3), (0x0002, 3), (0x0202, 3)],        # (dev << 8 | stream) truncated to 16 bits
    [(5, 3), (6, 2), (4, 4)],                       # dev + stream
    [(5, 6), (6, 5), (3, 0)],                       # dev ^ stream
    [(7, 1), (7, 2)], [(1, 9), (2, 9)],             # device only / stream only
]


def pick_endpoints(rng, k):
    fam = rng.choice(COLLIDING)
    eps = list(fam)
    rng.shuffle(eps)
    eps = eps[:k]
    while len(eps) < k:
        e = (rng.choice([1, 2, 0xFFFF, 300]), rng.choice([0, 7, 255]))
        if e not in eps:
            eps.append(e)
    return eps


def tecmp_runt(rng, ep):
    """a truncated TECMP buffer (first byte 0x00, 8..27 bytes) whose bytes 2..3 and 5 happen to spell the ids of endpoint ep"""
    n = rng.randrange(8, 28)
    b = bytearray(proto.rand_bytes(rng, n))
    b[0] = 0
    b[2:4] = be(ep[0], 2)
    b[5] = ep[1]
    return bytes(b)


# ---- helpers --------------------------------------------------------------------------

def rand_msg(rng, mt=None, kind=None, seg=0, body_len=None):
    """(message bytes, descriptor) of one well-formed message"""
    if kind is None:
        kind = rng.choice(proto.KINDS)
    ty, body = proto.valid_payload(rng, kind, body_len)
    if mt is None:
        mt = ty >> 8
    ts = rng.choice([0, (1 << 64) - 1, rng.getrandbits(64)])
    idw = rng.getrandbits(32)
    flags = (rng.getrandbits(8) & 0xB3) | seg
    return message(ts, idw, flags, ty & 0xFF, body), (mt, ty, ts, idw, flags, body)


def frame_of(rng, ver, dev, stream, seq, mt, msgs, pad=0):
    return frame_header(ver, dev, mt, stream, seq) + b"".join(msgs) + b"\0" * pad


def feed(b, d="d"):
    return "dec %s feed %s" % (d, proto.hexs(b))


# ---- C05 ------------------------------------------------------------------------------

class SegStream:
    """frames of one endpoint sending segmented messages of a generic payload type"""

    def __init__(self, rng, dev, stream, n_msgs, max_seg=200):
        self.dev, self.stream = dev, stream
        self.frames = []      # (bytes, expected output line)
        seq = rng.choice([0, 1, 65534, 65535, 65533, rng.getrandbits(16)])
        ver = rng.randrange(1, 256)
        for _ in range(n_msgs):
            mt = rng.choice([1, 1, 2, 3, 0xFF, 0x7B])
            pt = rng.choice(GEN_PT)
            nseg = rng.randrange(2, 7)
            ts = rng.getrandbits(64)
            idw = rng.getrandbits(32)
            fl = rng.getrandbits(8) & 0xB3
            bodies = []
            for k in range(nseg):
                n = rng.choice([0, 1, 3, 7, max_seg, rng.randrange(0, max_seg + 1)])
                bodies.append(proto.rand_bytes(rng, n))
            total = b"".join(bodies)
            for k, body in enumerate(bodies):
                seg = 0x04 if k == 0 else (0x0C if k == nseg - 1 else 0x08)
                # later segments may carry other header fields; the first segment's must win
                if k == 0:
                    hdr_ts, hdr_id, hdr_fl = ts, idw, fl
                else:
                    hdr_ts, hdr_id, hdr_fl = rng.getrandbits(64), rng.getrandbits(32), rng.getrandbits(8) & 0xB3
                m = message(hdr_ts, hdr_id, hdr_fl | seg, pt, body)
                trail = rng.choice([b"", b"", b"\x01", b"\0" * 16, proto.rand_bytes(rng, 16), proto.rand_bytes(rng, 3),
                                    # stale bytes of a reused transmit buffer: a whole well-formed message behind the segment's declared length
                                    message(rng.getrandbits(64), rng.getrandbits(32), 0, 0x05, b"\x01\x02\x03"), b"\0" * 40])
                fr = frame_header(ver, dev, mt, stream, seq) + m + trail
                if k == nseg - 1:
                    ifid = idw if mt == 1 else 0
                    vend = (idw & 0xFFFF) if mt in (3, 0xFF) else 0
                    exp = "pk 1 %08x:%d:%d:%d:0:%d:%d:%d:%d:0:1:%d:%s" % ((mt << 8) | pt, ver, dev, stream, ts, ifid, vend, fl | 0x04, len(total),
                                                                     proto.hexs(total))
                else:
                    exp = "pk 0"
                self.frames.append((fr, exp))
                seq = (seq + 1) % 65536
            if rng.random() < 0.3:
                seq = rng.getrandbits(16)     # a gap between messages is fine


def interleave(rng, streams):
    idx = [0] * len(streams)
    order = []
    while True:
        live = [i for i, s in enumerate(streams) if idx[i] < len(s)]
        if not live:
            break
        i = rng.choice(live)
        order.append((i, streams[i][idx[i]]))
        idx[i] += 1
    return order


def gen_c05(tier, rng):
    cases = []
    n = 700 if tier == "quick" else 10000
    for _ in range(n):
        k = rng.randrange(1, 5)
        eps = pick_endpoints(rng, k)
        streams = [SegStream(rng, d, s, rng.randrange(1, 4), max_seg=rng.choice([4, 40, 300])) for d, s in eps]
        lists = [st.frames for st in streams]
        # unsegmented traffic of a further endpoint in between
        other = []
        for _j in range(rng.randrange(0, 4)):
            m, _d = rand_msg(rng, kind="gen")
            other.append((frame_header(1, 9, 1, 9, rng.getrandbits(16)) + m, None))
        lists.append(other)
        # truncated TECMP buffers that spell the ids of one of the endpoints, and short buffers: never frames of any endpoint
        lists.append([(tecmp_runt(rng, rng.choice(eps)), "pk 0") for _j in range(rng.randrange(0, 3))])
        order = interleave(rng, lists)
        ops, exp = [], []
        for i, (fr, e) in order:
            ops.append(feed(fr))
            exp.append(e)
        ops.append("dec d pending")
        exp.append("pending 0")
        cases.append(Case("c05", ops, nontrivial=True, tags=("interleave%d" % k,), meta={"expected": exp}))
    # a message whose segments declare more than 65535 bytes in total (the wire format's 16-bit length is per segment).
    # Deterministic on purpose: this is the input of the open finding recorded in known-findings.txt.
    ops, exp, total = [], [], b""
    for k in range(45):
        seg = 0x04 if k == 0 else (0x0C if k == 44 else 0x08)
        body = bytes([(k * 7 + i) % 256 for i in range(1500)])
        total += body
        ops.append(feed(frame_header(1, 1, 1, 1, 100 + k) + message(5, 6, seg, 0x05, body)))
        exp.append("pk 0" if k < 44 else "pk 1 00000105:1:1:1:0:5:6:0:4:0:1:%d:%s" % (len(total), total.hex()))
    cases.append(Case("c05big", ops, nontrivial=True, tags=("over-65535",), meta={"expected": exp, "noshrink": True}))
    # the largest legal messages: totals just below and at the 16-bit limit, cut into many segments or into two
    for total_len in ([65519, 65520, 65535] if tier == "quick" else [65504, 65519, 65520, 65521, 65528, 65534, 65535]):
        for nseg in (2, 45):
            sizes = [total_len // nseg] * (nseg - 1)
            sizes.append(total_len - sum(sizes))
            seq0 = rng.choice([1, 65500, 65535])
            ops, exp, total = [], [], b""
            for k, n in enumerate(sizes):
                seg = 0x04 if k == 0 else (0x0C if k == nseg - 1 else 0x08)
                body = bytes([(k * 11 + i * 3) % 256 for i in range(n)])
                total += body
                ops.append(feed(frame_header(2, 7, 1, 3, (seq0 + k) % 65536) + message(9, 10, seg, 0x05, body)))
                exp.append("pk 0" if k < nseg - 1 else "pk 1 00000105:2:7:3:0:9:10:0:4:0:1:%d:%s" % (len(total), total.hex()))
            cases.append(Case("c05max", ops, nontrivial=True, tags=("largest-legal-message",), meta={"expected": exp, "noshrink": True}))
    # exhaustive: all interleavings of two 3-frame streams
    for rep in range(2 if tier == "quick" else 10):
        a = SegStream(rng, 1, 1, 1, max_seg=5).frames[:]
        b = SegStream(rng, 1, 2, 1, max_seg=5).frames[:]
        a, b = a[:3] if len(a) >= 3 else a, b[:3] if len(b) >= 3 else b
        for mask in itertools.combinations(range(len(a) + len(b)), len(a)):
            ia = ib = 0
            ops = []
            for pos in range(len(a) + len(b)):
                if pos in mask:
                    ops.append(feed(a[ia][0])); ia += 1
                else:
                    ops.append(feed(b[ib][0])); ib += 1
            cases.append(Case("c05x", ops, nontrivial=True, tags=("all-interleavings",)))
    return cases


def pred_c05(case, impl, model, ctx):
    exp = case.meta.get("expected")
    if not exp:
        return None
    for e, got in zip(exp, impl):
        if e is not None and e != got:
            return False
    return True


# ---- C17 / C18 ------------------------------------------------------------------------

def alphabet_frames(rng, dev, stream, base_seq):
    """frames of one endpoint: unsegmented, first, intermediary, last (good / bad counter), invalid,
    header-only; returns dict name -> bytes builder(seq)"""
    pt = 0x05
    def unseg(seq): return frame_header(1, dev, 1, stream, seq) + message(1, 2, 0x00, pt, b"\xaa" * 4)
    def first(seq): return frame_header(1, dev, 1, stream, seq) + message(1, 2, 0x04, pt, b"\xbb" * 5)
    def inter(seq): return frame_header(1, dev, 1, stream, seq) + message(1, 2, 0x08, pt, b"\xcc" * 6)
    def last(seq): return frame_header(1, dev, 1, stream, seq) + message(1, 2, 0x0C, pt, b"\xdd" * 3)
    def invalid(seq): return frame_header(1, dev, 1, stream, seq) + message(1, 2, 0x40, pt, b"\xee" * 3)
    def hdronly(seq): return frame_header(1, dev, 1, stream, seq)
    def unseg_then_inter(seq): return frame_header(1, dev, 1, stream, seq) + message(1, 2, 0, pt, b"\x11") + message(1, 2, 0x08, pt, b"\x22" * 2)
    def first_v2(seq): return frame_header(2, dev, 1, stream, seq) + message(1, 2, 0x04, pt, b"\x33" * 5)
    return {"unseg": unseg, "first": first, "inter": inter, "last": last, "invalid": invalid, "hdronly": hdronly, "u+inter": unseg_then_inter,
            "first-v2": first_v2}


TECMP_SAMPLE = bytes.fromhex("0012000103030002000000000000000700000000000000050009000000000123040102030401020300")


def gen_decoder_copies(tier, rng):
    """A Decoder is copied while reassemblies are open (a value type: implicit copy constructor).  Original and copy then receive the
    rest of the message in either order and further traffic of their own: each must deliver what a decoder fed the same frames from
    the start delivers, and neither may see what the other was fed after the copy."""
    cases = []
    for order in ("dc", "cd", "d", "c"):
        for nopen in (1, 3):
            eps = [(3 + i, 1 + i) for i in range(nopen)]
            body = {e: [proto.rand_bytes(rng, rng.choice([8, 40, 400])) for _ in range(3)] for e in eps}
            ops = []
            for k, sg in enumerate((0x04, 0x08)):
                for e in eps:
                    ops.append(feed(frame_header(1, e[0], 1, e[1], 10 + k) + message(5, 6, sg, 0x05, body[e][k])))
            ops += ["dec c copyfrom d", "dec d pending", "dec c pending"]
            for who in order:
                for e in eps:
                    ops.append(feed(frame_header(1, e[0], 1, e[1], 12) + message(5, 6, 0x0C, 0x05, body[e][2])).replace("dec d feed", "dec %s feed" % who))
                ops.append("dec %s pending" % who)
            # the one that was not fed the end still holds its open reassemblies; a fresh message on it is delivered too
            ops += ["dec d pending", "dec c pending"]
            for who in "dc":
                ops.append(feed(frame_header(1, 9, 1, 9, 1) + message(7, 8, 0, 0x05, b"\x01\x02\x03")).replace("dec d feed", "dec %s feed" % who))
            cases.append(Case("c17copy", ops, nontrivial=True, tags=("decoder-copied-mid-reassembly",), meta={"noshrink": True}))
    return cases


def gen_many_open(tier, rng):
    """Dozens of endpoints with a reassembly in progress at the same time (33, 40, 70 — legal traffic of a large installation), each
    completed afterwards: every message must be delivered and the table must hold exactly the open ones in between."""
    cases = []
    for n in (33, 40, 70):
        eps = [(1 + i // 8, i % 8) for i in range(n)]
        ops = []
        for d, s in eps:
            ops.append(feed(frame_header(1, d, 1, s, 10) + message(d, s, 0x04, 0x08, bytes([d, s] * 5))))
        ops.append("dec d pending")
        for d, s in eps:
            ops.append(feed(frame_header(1, d, 1, s, 11) + message(d, s, 0x0C, 0x08, bytes([s, d] * 3))))
        ops.append("dec d pending")
        cases.append(Case("c17many", ops, nontrivial=True, tags=("many-open-reassemblies",), meta={"noshrink": True}))
    return cases


def gen_huge_frames(tier, rng):
    """Frames of 2 GiB + 8 bytes and more (the remaining size was once narrowed to `int`: such a frame decoded to nothing and left an
    open reassembly of its endpoint pending).  The buffer is the given prefix followed by zeros; the prefix ends in a segmented message
    (decoding stops there), preceded by 0..2 small unsegmented messages that must be delivered."""
    cases = []
    for n in ([2 ** 31 + 8, 2 ** 31 + 7 + 8] if tier == "quick" else [2 ** 31 + 8, 2 ** 31 + 9, 2 ** 32 + 8, 2 ** 32 + 24, 3 * 2 ** 30]):
        for variant in ("orphan-last", "new-first"):
            ver, dev, stream, mt = rng.randrange(1, 256), rng.getrandbits(16), rng.getrandbits(8), 1
            seq = rng.getrandbits(16)
            ts, idw = rng.getrandbits(64), rng.getrandbits(32)
            first = proto.frame_header(ver, dev, mt, stream, seq) + proto.message(ts, idw, 0x04, 0x08, proto.rand_bytes(rng, 18))
            front = b"".join(proto.message(rng.getrandbits(64), rng.getrandbits(32), 0, 0xFE, proto.rand_bytes(rng, rng.randrange(1, 9))) for _ in range(rng.randrange(0, 3)))
            if variant == "orphan-last":
                tail = proto.message(ts, idw, 0x0C, 0x08, proto.rand_bytes(rng, 6))        # wrong counter: rejected, reassembly released
                hdr = proto.frame_header(ver, dev, mt, stream, (seq + 5) & 0xFFFF)
            else:
                tail = proto.message(ts + 1, idw, 0x04, 0x08, proto.rand_bytes(rng, 11))    # a new first segment replaces the open message
                hdr = proto.frame_header(ver, dev, mt, stream, (seq + 9) & 0xFFFF)
            ops = [feed(first), "dec d pending", "dec d feedhuge %d %s" % (n, (hdr + front + tail).hex()), "dec d pending"]
            cases.append(Case("c17huge", ops, nontrivial=True, tags=("frame-of-2GiB-and-more", variant), meta={"noshrink": True}))
    return cases


def gen_c17(tier, rng):
    cases = []
    names = ["unseg", "first", "inter", "last", "invalid", "hdronly", "u+inter"]
    eps = [(1, 1), (1, 2)]
    # exhaustive histories over (frame kind, endpoint, good/bad counter)
    letters = []
    for ei, (d, s) in enumerate(eps):
        for nm in names:
            for good in (True, False):
                if nm in ("unseg", "invalid", "hdronly", "first", "u+inter") and not good:
                    continue
                letters.append((ei, nm, good))
    letters.append((None, "tecmp", True))
    letters.append((None, "short", True))
    letters.append((None, "runt", True))
    depth = 3 if tier == "quick" else 4
    for L in range(1, depth + 1):
        for hist in itertools.product(range(len(letters)), repeat=L):
            seqs = [100, 65535]
            ops = []
            for h in hist:
                ei, nm, good = letters[h]
                if ei is None:
                    b = TECMP_SAMPLE if nm == "tecmp" else (b"\x01\x00\x00" if nm == "short" else bytes([0, 9, 0, 1, 9, 1, 9, 9, 9, 9, 9, 9]))
                else:
                    d, s = eps[ei]
                    fr = alphabet_frames(rng, d, s, 0)[nm]
                    seq = (seqs[ei] + 1) % 65536 if good else (seqs[ei] + 2) % 65536
                    seqs[ei] = seq
                    b = fr(seq)
                ops.append(feed(b))
                ops.append("dec d pending")
            cases.append(Case("c17", ops, nontrivial=L > 1, tags=("exh-hist%d" % L,)))
    cases += random_histories(tier, rng, 400 if tier == "quick" else 5000, with_pending=True)
    # orphan continuation segments whose header fields are what a DEFAULT-CONSTRUCTED table entry would "expect" (the entry that
    # operator[] inserts for an endpoint with nothing in progress): message type 0 / 1, version 1, counter 0 / 1, every continuation
    # flag, payloads shorter than, equal to and longer than a message header.  Nothing may stay pending and nothing may be delivered.
    for mt in (0, 1):
        ops = []
        for ver in (1, 2):
            for seq in (0, 1, 2):
                for flag in (0x08, 0x0C):
                    for n in (0, 1, 15, 16, 17, 64):
                        ep = (rng.getrandbits(16), rng.getrandbits(8))
                        fr = proto.frame_header(ver, ep[0], mt, ep[1], seq) + proto.message(rng.getrandbits(64), rng.getrandbits(32), flag, 0x08, proto.rand_bytes(rng, n))
                        ops += [feed(fr), "dec d pending"]
        cases.append(Case("c17", ops, nontrivial=True, tags=("orphan-matching-default-entry",)))
    cases += gen_huge_frames(tier, rng)
    cases += gen_many_open(tier, rng)
    cases += gen_decoder_copies(tier, rng)
    # the same histories answered by the LOW-LEVEL decoder model (DecoderLL.lean, proved to refine the model in Props/C17b.lean):
    # the harness treats feedll / pendingll as feed / pending, so this compares the transcription of decoder.cpp with the real decoder
    ll = []
    for c in cases:
        if "rand-hist" in c.tags or "exh-hist1" in c.tags or "exh-hist2" in c.tags or (tier != "quick" and rng.random() < 0.1):
            if any(" null" in o or " feedhuge " in o for o in c.ops):
                continue            # (the low-level model has no operation for these; a script must not mix the two decoder states)
            ops = [o.replace(" feed ", " feedll ").replace(" pending", " pendingll") for o in c.ops]
            ll.append(Case("c17ll", ops, nontrivial=c.nontrivial, tags=("ll",) + tuple(c.tags)))
    return cases + ll


def random_frame(rng, eps, seqs):
    """an arbitrary (well-formed or not) frame of one of the endpoints"""
    ei = rng.randrange(len(eps))
    d, s = eps[ei]
    r = rng.random()
    good = rng.random() < 0.75
    seq = (seqs[ei] + 1) % 65536 if good else rng.getrandbits(16)
    seqs[ei] = seq
    ver = rng.choice([1, 1, 1, 2])
    mt = rng.choice([1, 1, 1, 3])
    if r < 0.25:
        msgs = [rand_msg(rng)[0] for _ in range(rng.randrange(1, 4))]
        return frame_of(rng, ver, d, s, seq, mt, msgs, pad=rng.choice([0, 0, 5, 20]))
    if r < 0.75:
        seg = rng.choice([0x04, 0x08, 0x08, 0x0C])
        body = proto.rand_bytes(rng, rng.choice([0, 1, 10, 50]))
        m = message(rng.getrandbits(64), rng.getrandbits(32), (rng.getrandbits(8) & 0xB3) | seg, rng.choice(GEN_PT + [0x01, 0x08]), body)
        pre = [rand_msg(rng, kind="gen")[0]] if rng.random() < 0.15 else []
        return frame_of(rng, ver, d, s, seq, mt, pre + [m], pad=rng.choice([0, 0, 3, 16]))
    if r < 0.85:
        return frame_header(ver, d, mt, s, seq)
    if r < 0.95:
        m = rand_msg(rng)[0]
        cut = rng.randrange(0, len(m))
        return frame_header(ver, d, mt, s, seq) + m[:cut]
    return frame_header(ver, d, mt, s, seq) + proto.rand_bytes(rng, rng.randrange(1, 60))


def random_histories(tier, rng, n, with_pending=False, length=(5, 40)):
    cases = []
    for _ in range(n):
        k = rng.randrange(1, 5)
        eps = pick_endpoints(rng, k)
        seqs = [rng.choice([0, 65534, 1000]) for _ in eps]
        ops = []
        for _j in range(rng.randrange(*length)):
            r = rng.random()
            if r < 0.03:
                ops.append(feed(TECMP_SAMPLE))
            elif r < 0.07:
                ops.append(feed(tecmp_runt(rng, rng.choice(eps))))
            elif r < 0.08:
                ops.append(feed(proto.rand_bytes(rng, rng.randrange(0, 8))))
            elif r < 0.10:
                ops.append("dec d null")
            else:
                ops.append(feed(random_frame(rng, eps, seqs)))
            if with_pending:
                ops.append("dec d pending")
        cases.append(Case("hist", ops, nontrivial=True, tags=("rand-hist",), meta={"eps": eps}))
    return cases


def frame_ep(hexs):
    b = bytes.fromhex(hexs) if hexs != "-" else b""
    if len(b) < 8 or b[0] == 0:
        return None
    return (int.from_bytes(b[2:4], "big"), b[5])


def gen_c18(tier, rng):
    """a history on decoder d, and each endpoint's projection on its own decoder"""
    cases = []
    for c in random_histories(tier, rng, 500 if tier == "quick" else 6000, length=(5, 30)):
        full = [o for o in c.ops]
        eps = sorted({frame_ep(o.split(" ")[3]) for o in full if o.startswith("dec d feed")} - {None})
        ops = list(full)
        for i, e in enumerate(eps):
            for o in full:
                if o.startswith("dec d feed") and frame_ep(o.split(" ")[3]) == e:
                    ops.append(o.replace("dec d feed", "dec q%d feed" % i))
        cases.append(Case("c18", ops, nontrivial=len(eps) > 1, tags=("proj%d" % len(eps),), meta={"nfull": len(full), "eps": eps}))
    # directed: while endpoint A is in the middle of a reassembly, buffers that belong to NO endpoint (null, short, TECMP, TECMP
    # runts of every length 8..27 whose bytes spell A's ids) and frames of other endpoints (incl. colliding ids) arrive; A's
    # message must still complete exactly as on its own decoder
    for fam in COLLIDING + [[(1, 1), (2, 2)]]:
        a = fam[0]
        others = fam[1:] or [(9, 9)]
        body = [proto.rand_bytes(rng, 20) for _ in range(3)]
        segs = [frame_header(1, a[0], 1, a[1], 100 + k) + message(5, 6, sg, 0x05, body[k]) for k, sg in enumerate((0x04, 0x08, 0x0C))]
        intr = [("null", "dec d null"), ("short", feed(b"\x01\x02\x03")), ("tecmp", feed(TECMP_SAMPLE))]
        for n in range(8, 28):
            b = bytearray(proto.rand_bytes(rng, n))
            b[0] = 0
            b[2:4] = be(a[0], 2)
            b[5] = a[1]
            intr.append(("runt%d" % n, feed(bytes(b))))
        for o in others:
            intr.append(("other", feed(frame_header(1, o[0], 1, o[1], 7) + message(1, 2, 0, 0x05, b"\x01\x02"))))
            intr.append(("other-seg", feed(frame_header(1, o[0], 1, o[1], 8) + message(1, 2, 0x08, 0x05, b"\x03\x04"))))
            intr.append(("other-hdr", feed(frame_header(1, o[0], 1, o[1], 9))))
        for tag, op in intr:
            for where in (1, 2):
                full = [feed(f) for f in segs]
                full.insert(where, op)
                eps = sorted({frame_ep(o.split(" ")[3]) for o in full if o.startswith("dec d feed")} - {None})
                ops = list(full)
                for i, e in enumerate(eps):
                    for o in full:
                        if o.startswith("dec d feed") and frame_ep(o.split(" ")[3]) == e:
                            ops.append(o.replace("dec d feed", "dec q%d feed" % i))
                cases.append(Case("c18d", ops, nontrivial=True, tags=("directed", tag.rstrip("0123456789")), meta={"nfull": len(full), "eps": eps}))
    # the same for STATUS, CONTROL and VENDOR frames (message types 3, 2, 0xFF) and for mixed types: two streams of ONE device, one in the
    # middle of a reassembly, frames of the other stream in between (an endpoint key that ignores the stream id for some message types
    # merges them)
    for vmt in (1, 3, 2, 0xFF):
        for omt in (1, 3, 2):
            for a, o in (((5, 7), (5, 0)), ((5, 0), (5, 7)), ((0x0102, 1), (0x0102, 2))):
                body = [proto.rand_bytes(rng, 20) for _ in range(3)]
                segs = [frame_header(1, a[0], vmt, a[1], 100 + k) + message(5, 6, sg, 0x05, body[k]) for k, sg in enumerate((0x04, 0x08, 0x0C))]
                intr = [feed(frame_header(1, o[0], omt, o[1], 7) + message(1, 2, 0, 0x05, b"\x01\x02")),
                        feed(frame_header(1, o[0], omt, o[1], 8) + message(1, 2, 0x04, 0x05, b"\x03\x04")),
                        feed(frame_header(1, o[0], omt, o[1], 9))]
                for op in intr:
                    for where in (1, 2):
                        full = [feed(f) for f in segs]
                        full.insert(where, op)
                        eps = sorted({frame_ep(x.split(" ")[3]) for x in full if x.startswith("dec d feed")} - {None})
                        ops = list(full)
                        for i, e in enumerate(eps):
                            for x in full:
                                if x.startswith("dec d feed") and frame_ep(x.split(" ")[3]) == e:
                                    ops.append(x.replace("dec d feed", "dec q%d feed" % i))
                        cases.append(Case("c18d", ops, nontrivial=True, tags=("directed", "same-device-other-stream-mt%d-%d" % (vmt, omt)), meta={"nfull": len(full), "eps": eps}))
    # dozens of endpoints in the middle of a reassembly at the same time (33, 40, 70: a large installation), each completed afterwards:
    # the number of OTHER endpoints that are open must not matter to any of them
    for c in gen_many_open(tier, rng):
        full = [o for o in c.ops if o.startswith("dec d feed")]
        eps = sorted({frame_ep(o.split(" ")[3]) for o in full} - {None})
        ops = list(full)
        for i, e in enumerate(eps):
            for o in full:
                if frame_ep(o.split(" ")[3]) == e:
                    ops.append(o.replace("dec d feed", "dec q%d feed" % i))
        cases.append(Case("c18many", ops, nontrivial=True, tags=("directed", "many-open-reassemblies"), meta={"nfull": len(full), "eps": eps, "noshrink": True}))
    return cases


def packets_of(line):
    if not line.startswith("pk "):
        return None
    return line.split(" ")[2:]


def pred_c18(case, impl, model, ctx):
    """implementation only: per-endpoint packets of the full run equal those of the projected run"""
    nfull = case.meta["nfull"]
    if any(l.startswith("CRASH") for l in impl) or len(impl) < len(case.ops):
        return False
    full = {}
    for o, l in zip(case.ops[:nfull], impl[:nfull]):
        if o.startswith("dec d feed"):
            e = frame_ep(o.split(" ")[3])
            if e is not None:
                full.setdefault(e, []).extend(packets_of(l) or [])
    proj = {}
    for o, l in zip(case.ops[nfull:], impl[nfull:]):
        e = frame_ep(o.split(" ")[3])
        proj.setdefault(e, []).extend(packets_of(l) or [])
    for e in set(full) | set(proj):
        if full.get(e, []) != proj.get(e, []):
            return False
    return True


# ---- C06 ------------------------------------------------------------------------------

def c06_version_zero_case():
    """KNOWN FINDING (known-findings.txt, open): a segment frame whose version byte is corrupted to 0 is not an ASAM CMP frame any more —
    Decoder::decode hands every buffer that starts with 0x00 to the TECMP decoder.  With stream id 3 (= TECMP message type `data`) and
    sequence counter 2 (= TECMP data type `CAN`) the corrupted first segment of an Ethernet message parses as a TECMP CAN message and a CAN
    packet that nobody sent is delivered (proved of the model: C06S.VersionZero.delivered, delivered_any, ghost_not_sent).  The script is
    fixed (no randomness) so that its signature identifies exactly this input."""
    eth = bytes([0, 4, 0, 0, 0, 30]) + bytes([7]) * 30
    ops = [proto.Pkt(0x01FF, b"\x01").line("z"), proto.Pkt(0x0108, eth).line("p"), "enc e dev 2", "enc e stream 3", "enc e encode 0 48 z", "enc e encode 0 48 p",
           "dec c feedsel e 0 1", "dec d feedsel e 0:v0 1", "dec d pending"]
    return Case("c06", ops, nontrivial=True, tags=("version-byte-zero",), meta={"items": ["0:v0", "1"], "nfr": 2, "noshrink": True})


def gen_c06(tier, rng):
    cases = [c06_version_zero_case()]
    n = 500 if tier == "quick" else 6000
    for ci in range(n):
        mx = rng.choice([25, 30, 40, 64, 100])
        npk = rng.randrange(1, 6)
        pkts = []
        many = ci % 50 == 7            # every 50th stream carries one message of more than 256 segments
        if many:
            mx = rng.choice([25, 26])
            npk = rng.randrange(1, 3)
        for i in range(npk):
            ln = rng.choice([1, 5, mx - 24, mx - 23, 2 * (mx - 24), 3 * (mx - 24) + 1, rng.randrange(1, 4 * mx)])
            if many and i == 0:
                ln = (mx - 24) * rng.choice([257, 258, 300, 513])
            pkts.append(gen_enc.gpkt(ln, rng.randrange(251), ty=rng.choice([0x01FF, 0x0104, 0x0105, 0x0304, 0x03FF]), ts=rng.getrandbits(40),
                                     ifid=rng.getrandbits(32), vend=rng.getrandbits(16), flags=rng.getrandbits(8) & 0xB3, ver=3))
        # some packets get their payload REPLACED IN PLACE (through getPayload()) after they were built, with another length: the stream
        # that is sent - and that the faults are applied to - is the one of the packets as they are when encode is called
        import copy
        define = list(pkts)
        inplace = []
        if rng.random() < 0.2:
            j = rng.randrange(npk)
            q = copy.copy(pkts[j])
            q.gen = (rng.choice([1, mx - 24, 2 * (mx - 24) + 1, 5 * mx]), pkts[j].gen[1])
            define[j] = q
            inplace.append("pk plassign p%d %04x gen:%d:%d" % (j, pkts[j].ty, pkts[j].gen[0], pkts[j].gen[1]))
        ops = [gen_enc.pline(p, "p%d" % i) for i, p in enumerate(define)]
        ops += ["enc e dev 7", "enc e stream 9"] + inplace
        ids = " ".join("p%d" % i for i in range(npk))
        # (padding up to a minimum is part of the stream: zero bytes behind a short last segment must not disturb its reassembly)
        ops.append("enc e encode %d %d %s" % (rng.choice([0, 0, mx, mx // 2, 64 if mx >= 64 else mx]), mx, ids))
        # number of frames is known from the model of C08: compute here from the rules
        cap = mx - 8
        kinds = []          # per frame: "S" segment, "U" unsegmented messages
        used = None
        last_mt = None
        for p in pkts:
            ln = gen_enc.plen(p)
            mt = (p.ty >> 8)
            if 16 + ln > cap:
                kinds += ["S"] * (-(-ln // (cap - 16)))
                used = None
            else:
                if used is None or last_mt != mt or used + 16 + ln > cap:
                    kinds.append("U")
                    used = 16 + ln
                else:
                    used += 16 + ln
            last_mt = mt
        nfr = len(kinds)
        clean = " ".join(str(i) for i in range(nfr))
        ops.append("dec c feedsel e " + clean)
        # fault script
        order = list(range(nfr))
        mode = ci % 5
        tags = []
        corrupt_k = 0
        items = []
        if mode == 0 and nfr >= 1:      # single fault at every position is covered over the cases; here: one random fault
            pos = rng.randrange(nfr)
            f = rng.choice(["drop", "dup", "swap", "cv", "ct"])
            if kinds[pos] != "S" and f in ("cv", "ct"):
                f = "dup"
            tags.append("single-" + f)
            seq = []
            for i in order:
                if i == pos:
                    if f == "drop":
                        continue
                    if f == "dup":
                        seq += [str(i), str(i)]; continue
                    if f == "swap" and i + 1 < nfr:
                        seq += [str(i + 1), str(i)]; continue
                    if f == "cv":
                        seq.append("%d:v%d" % (i, 3 + 1)); continue
                    if f == "ct":
                        seq.append("%d:t%d" % (i, 2)); continue
                if f == "swap" and i == pos + 1:
                    continue
                seq.append(str(i))
            items = seq
        else:
            tags.append("multi")
            seq = []
            for i in order:
                r = rng.random()
                if r < 0.12:
                    continue
                if r < 0.2:
                    seq += [str(i), str(i)]
                elif r < 0.28 and kinds[i] == "S":
                    corrupt_k += 1
                    seq.append("%d:v%d" % (i, 3 + corrupt_k))      # the k-th corruption uses original + k: pairs never coincide
                elif r < 0.34 and kinds[i] == "S":
                    corrupt_k += 1
                    seq.append("%d:t%d" % (i, 100 + corrupt_k))
                else:
                    seq.append(str(i))
            if rng.random() < 0.4 and len(seq) > 1:
                a = rng.randrange(len(seq) - 1)
                seq[a], seq[a + 1] = seq[a + 1], seq[a]
            if rng.random() < 0.2:
                rng.shuffle(seq)
            # a clean tail so that recovery is exercised
            if rng.random() < 0.5:
                seq += [str(i) for i in order]
            items = seq
        ops.append(("dec d feedsel e " + " ".join(items)).rstrip())
        ops.append("dec d pending")
        cases.append(Case("c06", ops, nontrivial=nfr > 1, tags=tuple(tags), meta={"items": items, "nfr": nfr}))
    cases += gen_c06_multicall(tier, rng)
    cases += gen_c06_interleaved(tier, rng)
    return cases


def gen_c06_interleaved(tier, rng):
    """two endpoints whose ids coincide under plausible wrong key packings, both sending segmented messages; the frames of the
    first stream suffer faults, those of the second arrive complete and in order, interleaved with the first"""
    cases = []
    for ci in range(120 if tier == "quick" else 1500):
        fam = rng.choice(COLLIDING)
        (d1, s1), (d2, s2) = rng.sample(fam, 2)
        mx = rng.choice([30, 40, 64])
        cap = mx - 8
        ops = []
        nfr = []
        for e, (d, s_) in (("e1", (d1, s1)), ("e2", (d2, s2))):
            ops += ["enc %s dev %d" % (e, d), "enc %s stream %d" % (e, s_)]
            ln = rng.choice([2 * (cap - 16), 2 * (cap - 16) + 1, 3 * (cap - 16), 4 * (cap - 16) - 1])
            p = gen_enc.gpkt(ln, rng.randrange(251), ty=0x0104, ts=rng.getrandbits(40), ifid=rng.getrandbits(32), flags=rng.getrandbits(8) & 0xB3, ver=3)
            ops.append(gen_enc.pline(p, "p" + e))
            ops.append("enc %s encode 0 %d p%s" % (e, mx, e))
            nfr.append(-(-ln // (cap - 16)))
        ops.append("dec c1 feedsel e1 " + " ".join(str(i) for i in range(nfr[0])))
        ops.append("dec c2 feedsel e2 " + " ".join(str(i) for i in range(nfr[1])))
        # stream 1 with faults
        seq1 = []
        for i in range(nfr[0]):
            r = rng.random()
            if r < 0.2:
                continue
            if r < 0.3:
                seq1 += [str(i), str(i)]
            elif r < 0.4:
                seq1.append("%d:v%d" % (i, 4 + i))
            else:
                seq1.append(str(i))
        seq2 = [str(i) for i in range(nfr[1])]
        # random interleaving that keeps each stream's order
        merged = []
        a, b = list(seq1), list(seq2)
        while a or b:
            if a and (not b or rng.random() < 0.5):
                merged.append(("e1", a.pop(0)))
            else:
                merged.append(("e2", b.pop(0)))
        for e, it in merged:
            ops.append("dec d feedsel %s %s" % (e, it))
        ops.append("dec d pending")
        cases.append(Case("c06i", ops, nontrivial=True, tags=("interleaved-colliding-endpoints",), meta={"items": [it for _e, it in merged], "interleaved": True, "noshrink": True}))
    return cases


def pred_c06_interleaved(case, impl):
    if any(l.startswith("CRASH") for l in impl) or len(impl) < len(case.ops):
        return False
    good = {}
    got = {"e1": [], "e2": []}
    for o, l in zip(case.ops, impl):
        w = o.split(" ")
        if w[0] == "dec" and w[2] == "feedsel" and w[1] in ("c1", "c2"):
            pk = []
            for x in (l[4:].split("|") if l.startswith("sel ") else []):
                pk += packets_of(x.strip()) or []
            good[w[3]] = pk
        elif w[0] == "dec" and w[1] == "d" and w[2] == "feedsel":
            for x in (l[4:].split("|") if l.startswith("sel ") else []):
                got[w[3]] += packets_of(x.strip()) or []
    allgood = set(good.get("e1", [])) | set(good.get("e2", []))
    # nothing but packets that were sent; the uninterrupted stream is delivered completely, on its own frames
    if any(p not in allgood for e in got for p in got[e]):
        return False
    if got["e2"] != good.get("e2"):
        return False
    return all(p in good.get("e1", []) for p in got["e1"])


def gen_c06_multicall(tier, rng):
    """one encoder stream over several encode calls (each call may start with a packet that needs segmentation), faults across
    the call boundaries; the frames of all calls are accumulated (`encodeacc`)"""
    cases = []
    for ci in range(200 if tier == "quick" else 2500):
        mx = rng.choice([25, 30, 40, 64])
        cap = mx - 8
        ops = ["enc e dev 7", "enc e stream 9"]
        kinds = []
        npk = 0
        for call in range(rng.randrange(2, 5)):
            ids = []
            used = None
            last_mt = None
            for _p in range(rng.randrange(1, 3)):
                ln = rng.choice([1, 5, mx - 24, mx - 23, 2 * (mx - 24), 2 * (mx - 24) + 1, 3 * (mx - 24)])
                p = gen_enc.gpkt(ln, rng.randrange(251), ty=rng.choice([0x01FF, 0x0104]), ts=rng.getrandbits(40), ifid=rng.getrandbits(32),
                                 flags=rng.getrandbits(8) & 0xB3, ver=3)
                ops.append(gen_enc.pline(p, "p%d" % npk))
                ids.append("p%d" % npk)
                npk += 1
                mt = p.ty >> 8
                if 16 + ln > cap:
                    kinds += ["S"] * (-(-ln // (cap - 16)))
                    used = None
                else:
                    if used is None or last_mt != mt or used + 16 + ln > cap:
                        kinds.append("U")
                        used = 16 + ln
                    else:
                        used += 16 + ln
                last_mt = mt
            ops.append("enc e encodeacc 0 %d %s" % (mx, " ".join(ids)))
        nfr = len(kinds)
        ops.append("dec c feedsel e " + " ".join(str(i) for i in range(nfr)))
        seq = []
        k = 0
        for i in range(nfr):
            r = rng.random()
            if r < 0.25:
                continue
            if r < 0.32:
                seq += [str(i), str(i)]
            elif r < 0.38 and kinds[i] == "S":
                k += 1
                seq.append("%d:v%d" % (i, 3 + k))
            else:
                seq.append(str(i))
        if rng.random() < 0.3 and len(seq) > 1:
            a = rng.randrange(len(seq) - 1)
            seq[a], seq[a + 1] = seq[a + 1], seq[a]
        ops.append(("dec d feedsel e " + " ".join(seq)).rstrip())
        ops.append("dec d pending")
        cases.append(Case("c06m", ops, nontrivial=True, tags=("multi-call-stream",), meta={"items": seq, "nfr": nfr}))
    return cases


def _gen_bytes(n, seed):
    return bytes((seed + 7 * i + 13 * (i >> 8)) % 256 for i in range(n))


def _payload_arg(x):
    if x == "-":
        return b""
    if x.startswith("gen:"):
        _, n, sd = x.split(":")
        return _gen_bytes(int(n), int(sd))
    return bytes.fromhex(x)


def _sent_payloads(ops):
    """payload bytes of the packets handed to the encoder, in order, over all accepted encode calls of encoder e (None when the script
    uses something this reader does not know)"""
    store, sent = {}, []
    for o in ops:
        w = o.split(" ")
        if w[0] == "pkt":
            store[w[1]] = _payload_arg(w[12])
        elif w[0] == "pk" and w[1] == "plassign":
            store[w[2]] = _payload_arg(w[4])
        elif w[0] == "pk" and w[1] in ("plsettype",):
            pass
        elif w[0] == "pk":
            return None
        elif w[0] == "enc" and w[1] == "e" and w[2] in ("encode", "encodep", "encodell"):
            sent = [store[i] for i in w[5:] if i in store]
        elif w[0] == "enc" and w[1] == "e" and w[2] == "encodeacc":
            sent += [store[i] for i in w[5:] if i in store]
    return sent


def pred_c06(case, impl, model, ctx):
    """implementation only: every delivered packet is one the clean run delivered; every message whose
    frames arrived as a clean contiguous run was delivered at the end of that run"""
    if case.meta.get("interleaved"):
        return pred_c06_interleaved(case, impl)
    if any(l.startswith("CRASH") for l in impl):
        return False
    clean_line = [l for o, l in zip(case.ops, impl) if o.startswith("dec c feedsel")][0]
    fault_line = [l for o, l in zip(case.ops, impl) if o.startswith("dec d feedsel")][0]
    per_frame = [x.strip() for x in clean_line[4:].split("|")] if clean_line.startswith("sel ") else []
    clean_pk = [packets_of(x) or [] for x in per_frame]
    good = set(p for l in clean_pk for p in l)
    # "byte-identical to one that was SENT": the reference run on the undisturbed frames must itself deliver exactly the payloads of the
    # packets handed to the encoder (otherwise a broken encoder would define what counts as good)
    sent = _sent_payloads(case.ops)
    if sent is not None and case.meta.get("items") is not None and "version-byte-zero" not in case.tags:
        got_clean = [p.split(":")[-1] for l in clean_pk for p in l]
        if got_clean != [("-" if not b else b.hex()) for b in sent]:
            return False
    items = case.meta["items"]
    got = [packets_of(x.strip()) or [] for x in fault_line[4:].split("|")] if fault_line.startswith("sel ") and items else []
    if len(got) != len(items):
        return False if items else True
    for l in got:
        for p in l:
            # a corrupted unsegmented frame legitimately changes version / type of what it carries: only segments are corrupted by the generator
            if p not in good:
                return False
    # groups: consecutive zero-output frames followed by a delivering frame
    groups = []
    cur = []
    for i, l in enumerate(clean_pk):
        cur.append(i)
        if l:
            groups.append((cur, l))
            cur = []
    for pos in range(len(items)):
        for frames, pk in groups:
            n = len(frames)
            if pos + n <= len(items) and items[pos:pos + n] == [str(f) for f in frames]:
                if got[pos + n - 1] != pk:
                    return False
                if any(got[pos + j] for j in range(n - 1)):
                    return False
    return True


# ---- C04 ------------------------------------------------------------------------------

def inconsistent_payload(rng, kind):
    """payload whose inner structure is inconsistent with its length, or that carries bus-error flags"""
    ty, b = proto.valid_payload(rng, kind)
    b = bytearray(b)
    r = rng.random()
    if kind in ("can", "canfd"):
        if r < 0.3:
            b[15] = min(255, len(b) - 16 + rng.choice([1, 2, 100]))
        elif r < 0.6:
            b[0:2] = be(rng.choice([0x0001, 0x0200, 0x03FF, 0x0100, 0x0002]) | (int.from_bytes(b[0:2], "big") & 0x3C00), 2)
        elif r < 0.8:
            b[12:14] = be(rng.choice([1, 0x100, 0xFFFF]), 2)
        else:
            b = b[:rng.randrange(0, 16)]
    elif kind == "lin":
        if r < 0.6:
            b[7] = min(255, len(b) - 8 + rng.choice([1, 2, 100]))
        else:
            b = b[:rng.randrange(0, 8)]
    elif kind == "eth":
        if r < 0.4:
            b[4:6] = be(len(b) - 6 + rng.choice([1, 2, 1000]), 2)
        elif r < 0.8:
            b[0:2] = be(int.from_bytes(b[0:2], "big") | rng.choice([0x01, 0x02, 0x08, 0x10, 0x20]), 2)
        else:
            b = b[:rng.randrange(0, 6)]
    elif kind == "analog":
        if r < 0.6:
            b[1] = (b[1] & 0xFC) | rng.choice([2, 3])
        else:
            b = b[:rng.randrange(0, 16)]
    elif kind == "cm":
        if r < 0.3:
            b = b[:rng.randrange(0, len(b))]
        elif r < 0.7:
            b[26:28] = be(rng.choice([0xFFFF, len(b), len(b) - 27]), 2)
        else:
            b[-2:] = be(rng.choice([1, 0xFFFF]), 2) if len(b) >= 2 else b
    elif kind == "if":
        if r < 0.3:
            b = b[:rng.randrange(0, len(b))]
        elif r < 0.5:
            b[29] = rng.choice([3, 4, 0xFF])
        elif r < 0.8:
            b[36:38] = be(rng.choice([0xFFFF, len(b), len(b) - 39, len(b) - 40]), 2)
        else:
            b[-2:] = be(rng.choice([1, 0xFFFF]), 2)
    return ty, bytes(b)


def gen_c04(tier, rng):
    cases = []
    n = 1500 if tier == "quick" else 20000
    for ci in range(n):
        ver = rng.randrange(1, 256)
        dev, stream = rng.getrandbits(16), rng.getrandbits(8)
        mt = rng.choice([1, 1, 1, 3, 3, 2, 0xFF, 0x7B, 0])
        nm = rng.randrange(0, 9)
        msgs = []
        tags = set()
        for _ in range(nm):
            kind = rng.choice(proto.KINDS)
            if kind != "gen" and rng.random() < 0.35:
                ty, body = inconsistent_payload(rng, kind)
                tags.add("inconsistent")
            else:
                ty, body = proto.valid_payload(rng, kind)
            # the payload type byte is what travels; the message type comes from the frame header
            pt = ty & 0xFF
            flags = rng.getrandbits(8) & 0xB3
            msgs.append(message(rng.choice([0, (1 << 64) - 1, rng.getrandbits(64)]), rng.getrandbits(32), flags, pt, body))
        fr = frame_header(ver, dev, mt, stream, rng.getrandbits(16), reserved=rng.choice([0, 0, 0xAA])) + b"".join(msgs)
        ops = []
        # any prior history
        if rng.random() < 0.3:
            ops.append(feed(frame_header(ver, dev, mt, stream, 5) + message(1, 2, 0x04, 0x05, b"\x01\x02\x03")))
        mode = ci % 4
        if mode == 0:
            ops.append(feed(fr)); tags.add("whole")
        elif mode == 1:
            ops.append(feed(fr + b"\0" * rng.choice([1, 2, 15, 16, 17, 40]))); tags.add("zero-padded")
        elif mode == 2:
            for cut in sorted({rng.randrange(0, len(fr) + 1) for _ in range(6)} | {len(fr) - 1}):
                ops.append(feed(fr[:max(0, cut)]))
            tags.add("truncated")
        else:
            # every truncation of a small frame
            small = fr[:120]
            for cut in range(0, len(small) + 1, 1 if len(small) < 60 else 3):
                ops.append(feed(small[:cut]))
            tags.add("every-truncation")
        ops.append("dec d pending")
        cases.append(Case("c04", ops, nontrivial=nm > 0, tags=tuple(sorted(tags))))
    # every SUBSET of the bus-error flags (not left to sampling): all 32 subsets of the five Ethernet error bits, every single CAN / CAN-FD
    # error bit and a few combinations, each flag value as the only message, as a middle message and with a non-error flag bit next to it
    ops = []
    eth_bits = [0x01, 0x02, 0x08, 0x10, 0x20]
    for sub in range(32):
        fl = sum(b for i, b in enumerate(eth_bits) if sub >> i & 1)
        for extra in (0, 0x04, 0xFFC4):
            m = message(rng.getrandbits(64), rng.getrandbits(32), 0, 0x08, proto.eth_payload(proto.rand_bytes(rng, 20), flags=fl | extra))
            pre = message(1, 2, 0, 0x05, b"\x01\x02\x03")
            ops.append(feed(frame_header(1, 7, 1, 9, sub) + m))
            ops.append(feed(frame_header(1, 7, 1, 9, sub) + pre + m + pre))
    cases.append(Case("c04", ops + ["dec d pending"], nontrivial=True, tags=("eth-error-flag-subsets",)))
    ops = []
    for fd in (False, True):
        for fl in [1 << i for i in range(16)] + [0x0003, 0x0300, 0x03FF, 0xFC00, 0x8001]:
            for errpos in (0, 1, 0x0401):
                body = proto.can_payload(proto.rand_bytes(rng, 8), ident=rng.getrandbits(29), flags=fl, err_pos=errpos, fd=fd)
                m = message(rng.getrandbits(64), rng.getrandbits(32), 0, 0x02 if fd else 0x01, body)
                ops.append(feed(frame_header(1, 7, 1, 9, fl & 0xFFFF) + m + message(1, 2, 0, 0x05, b"\x01\x02\x03")))
    cases.append(Case("c04", ops + ["dec d pending"], nontrivial=True, tags=("can-error-flag-bits",)))
    # structured payloads whose inner blocks end exactly at / one byte before / past the payload end (all prefixes, consistent length)
    cases += prefix_closure_cases(tier, rng, "c04p")
    # every inner 16-bit length field of the status payloads at its extreme values (a count of 0xFFFF padded to even wraps in 16 bits)
    ops = []
    for kind, ty, body in structured_payloads(rng):
        if kind not in ("if", "cm"):
            continue
        offs = [36, len(body) - 2] if kind == "if" else [26]
        if kind == "cm":
            pos = 26
            offs = []
            for _k in range(5):
                offs.append(pos)
                pos += 2 + int.from_bytes(body[pos:pos + 2], "big")
        for off in offs:
            for v in (0xFFFF, 0xFFFE, 0xFFFD, 0x8000, 0x7FFF, 0x0100, 0x00FF):
                g = bytearray(body)
                if off + 2 <= len(g):
                    g[off:off + 2] = be(v, 2)
                    for tail in (b"", b"\0\0", b"\0" * 40):
                        ops.append(feed(frame_header(1, 2, ty >> 8, 3, 4) + message(5, 6, 0, ty & 0xFF, bytes(g) + tail)))
    cases.append(Case("c04x", ops, nontrivial=True, tags=("inner-length-extremes",)))
    # a message whose 16-bit length field is near its maximum, in frames cut short inside that message (a 16-bit `16 + length`
    # wraps): exactly the completely contained messages may come out
    ops = []
    first = message(1, 2, 0, 0x01, proto.can_payload(b"\x11" * 8))
    for ln in (65535, 65534, 65528, 65521, 65520, 65519, 40000):
        big = message(3, 4, 0, 0x08, proto.eth_payload(b"", data_len=0) + bytes(ln - 6), length=ln)
        fr = frame_header(1, 2, 1, 3, 9) + first + big
        for keep in (0, 1, 15, 16, 17, 22, 100, 1500, ln + 15, ln + 16):
            ops.append(feed(fr[:8 + len(first) + keep]))
    cases.append(Case("c04big", ops, nontrivial=True, tags=("length-field-near-max", "truncated"), meta={"noshrink": True}))
    return cases


# ---- C15 / TECMP ------------------------------------------------------------------------

def tecmp_header(dev=0x12, counter=1, version=3, mt=3, dt=2, reserved=0, devflags=0, ifid=7, ts=5, plen=None, dataflags=0, payload=b""):
    if plen is None:
        plen = len(payload)
    return (b"\0" + be(dev, 1) + be(counter, 2) + be(version, 1) + be(mt, 1) + be(dt, 2) + be(reserved, 2) + be(devflags, 2) + be(ifid, 4) +
            be(ts, 8) + be(plen, 2) + be(dataflags, 2))


def tecmp_frame(rng, mt, dt, payload, **kw):
    h = tecmp_header(dev=rng.getrandbits(8), counter=rng.getrandbits(16), version=rng.getrandbits(8), mt=mt, dt=dt, reserved=rng.choice([0, rng.getrandbits(16)]),
                     devflags=rng.getrandbits(16), ifid=rng.getrandbits(32), ts=rng.getrandbits(64), payload=payload, dataflags=rng.getrandbits(16), **kw)
    return h + payload


def tecmp_can_payload(rng, n, declared=None, crc_bytes=3):
    return be(rng.getrandbits(32), 4) + be(n if declared is None else declared, 1) + proto.rand_bytes(rng, n) + proto.rand_bytes(rng, crc_bytes)


def tecmp_lin_payload(rng, n, declared=None, cks=1):
    return be(rng.getrandbits(8), 1) + be(n if declared is None else declared, 1) + proto.rand_bytes(rng, n) + proto.rand_bytes(rng, cks)


def tecmp_cm_payload(rng, length=36, vendor=None):
    """capture-module status payload: 12 generic bytes (vendor id, device version, device type, reserved, vendor data length u16 @4,
    device id u16 @6, serial number u32 @8) followed by the vendor data (reserved byte, software version @13..15, hardware version
    @16..17, buffer / lifecycle / voltage / temperature fields).  `vendor`: the DECLARED vendor data length; default: consistent,
    i.e. what really follows the generic part (`length - 12`)."""
    if vendor is None:
        vendor = max(0, length - 12)
    b = be(rng.getrandbits(8), 1) * 3 + b"\0" + be(vendor, 2) + be(rng.getrandbits(16), 2) + be(rng.choice([0, 1, 4294967295, rng.getrandbits(32)]), 4) + b"\0"
    b += bytes([rng.choice([0, 9, 10, 99, 100, 255]) for _ in range(5)])
    b += proto.rand_bytes(rng, 18)
    return b[:length] if length <= len(b) else b + proto.rand_bytes(rng, length - len(b))


def tecmp_bus_payload(rng, entries, extra=0, v=0, declared=None):
    """bus status payload: 12 generic bytes (vendor id, cm version, cm type, reserved, vendor data length u16 @4, device id u16 @6,
    serial number u32 @8), then `entries` entries of 12 + v bytes (interface id u32, messages total u32, errors total u32, v bytes of
    vendor data), then `extra` stray bytes.  `declared`: the vendor data length written into the generic part (default: v, consistent)."""
    b = proto.rand_bytes(rng, 4) + be(v if declared is None else declared, 2) + proto.rand_bytes(rng, 6)
    for _ in range(entries):
        b += be(rng.getrandbits(32), 4) + be(rng.getrandbits(32), 4) + be(rng.getrandbits(32), 4) + proto.rand_bytes(rng, v)
    return b + proto.rand_bytes(rng, extra)


def tecmp_expected(b):
    """What the TECMP wire format says about a bus-status or capture-module status message, computed from the bytes alone
    (independent of the Lean model): ("bus", [(interface id, messages total, errors total), ...]) - one triple per COMPLETE entry of
    12 + declared vendor data length bytes behind the 12 generic bytes; ("cm", 0 or 1) - a packet iff the fields read (18 bytes) and
    the declared vendor data (behind the 12 generic bytes) are inside the payload; None for every other buffer."""
    if len(b) < 28 or b[0] != 0:
        return None
    plen = int.from_bytes(b[24:26], "big")
    accepted = plen != 0 and len(b) >= 28 + plen and b[5] != 0xFF and not (b[6] == 0xFF and b[7] == 0)
    p = b[28:]
    if b[5] == 2:
        out = []
        if accepted and len(p) >= 12:
            v = int.from_bytes(p[4:6], "big")
            off = 12
            while off + 12 + v <= len(p):
                out.append(tuple(int.from_bytes(p[off + k:off + k + 4], "big") for k in (0, 4, 8)))
                off += 12 + v
        return ("bus", out)
    if b[5] == 1:
        return ("cm", 1 if accepted and len(p) >= 18 and int.from_bytes(p[4:6], "big") <= len(p) - 12 else 0)
    return None


def gen_tecmp_frames(tier, rng):
    """list of (frame bytes, tag)"""
    out = []
    # CAN / CAN-FD: every data length 0..64, then 65..255, consistent
    for dt in (2, 3):
        for n in list(range(0, 65)) + ([100, 200, 255] if tier == "quick" else list(range(65, 256, 5))):
            for crc in (0, 1, 2, 3, 4):
                if tier == "quick" and crc in (1, 4) and n % 4:
                    continue
                out.append((tecmp_frame(rng, 3, dt, tecmp_can_payload(rng, n, crc_bytes=crc)), "can"))
            # inconsistent: declared length larger than what is there
            for d in (1, 2, 12):
                if n + d <= 255:
                    out.append((tecmp_frame(rng, 3, dt, tecmp_can_payload(rng, n, declared=n + d, crc_bytes=0)), "can-misfit"))
    for n in range(0, 65):
        for cks in (0, 1, 2):
            out.append((tecmp_frame(rng, 3, 4, tecmp_lin_payload(rng, n, cks=cks)), "lin"))
        out.append((tecmp_frame(rng, 3, 4, tecmp_lin_payload(rng, n, declared=n + 1, cks=0)), "lin-misfit"))
    # short payloads of every kind
    for mt, dt in ((3, 2), (3, 3), (3, 4), (1, 0), (2, 0)):
        for n in range(1, 40):
            out.append((tecmp_frame(rng, mt, dt, proto.rand_bytes(rng, n)), "short"))
    for n in (17, 18, 19, 35, 36, 37, 50):
        for _ in range(4):
            out.append((tecmp_frame(rng, 1, rng.choice([0, 2]), tecmp_cm_payload(rng, n)), "cm"))
        # declared vendor data length: none, less than / exactly / more than what follows the 12 generic bytes, the payload size itself
        # (a length counted from the start of the payload), 16-bit extremes
        for vd in (0, 1, 5, 6, 7, n - 13, n - 12, n - 11, n, n + 1, 255, 256, 0x7FFF, 0x8000, 0xFFFF):
            if vd >= 0:
                out.append((tecmp_frame(rng, 1, 0, tecmp_cm_payload(rng, n, vendor=vd)), "cm-vendor-fit" if n >= 18 and vd <= n - 12 else "cm-vendor-misfit"))
    # version bytes at the digit-count boundaries (longest strings: v255.255.255 / v255.255), serial at its extremes
    for vals in ([255] * 5, [100] * 5, [99] * 5, [9, 10, 100, 9, 10], [0] * 5, [199, 200, 255, 100, 99]):
        b = bytearray(tecmp_cm_payload(rng, 36))
        b[13:18] = bytes(vals)
        b[8:12] = be(rng.choice([0, 9, 10, 4294967295, 1000000000, 999999999]), 4)
        out.append((tecmp_frame(rng, 1, 0, bytes(b)), "cm-digits"))
    # bus status: entries of 12 + v bytes, v = the vendor data length the generic part declares; every entry count 0..40
    for v in (0, 1, 4, 7, 12, 24):
        for e in range(0, 41):
            extras = (0, 1, 11) if v == 0 else (0, 11, 12, 12 + v - 1)          # nothing / a truncated last entry (also: its 12 counter bytes without the vendor data)
            if tier == "quick" and e > 12:
                extras = (0, extras[-1]) if e % 2 else (extras[1],)
            for extra in extras:
                out.append((tecmp_frame(rng, 2, 0, tecmp_bus_payload(rng, e, extra, v=v)), "bus" if v == 0 else "bus-vendor"))
        # declared vendor data length larger / smaller than what the entries really carry (the parse runs out of step or out of bytes)
        for e in (0, 1, 2, 3, 7, 40):
            for d in (v + 1, v + 12, 12 * e + v * e, 12 * e + v * e + 1, 0xFF, 0x100, 0x8000, 0xFFFF, max(0, v - 1), 0):
                if d != v:
                    out.append((tecmp_frame(rng, 2, 0, tecmp_bus_payload(rng, e, rng.choice([0, 0, 5]), v=v, declared=d)), "bus-vendor-misdeclared"))
    # entry counts at which the running byte offset 12 + (12 + v) e crosses 8 and 16 bit (v = 0: 21 / 22 entries: 264 / 276; 5460: the
    # most a 16-bit payload length admits; v = 4: 15 / 16 and 4095; v = 24: 6 / 7; v = 243 / 244: the first entry ends at 267 / 268)
    for e in (20, 21, 22, 23, 42, 43, 100, 5460):
        out.append((tecmp_frame(rng, 2, 0, tecmp_bus_payload(rng, e, 0)), "bus"))
    for v, e in ((4, 15), (4, 16), (4, 4095), (24, 6), (24, 7), (243, 1), (244, 1), (244, 2)):
        out.append((tecmp_frame(rng, 2, 0, tecmp_bus_payload(rng, e, 0, v=v)), "bus-vendor"))
    # the largest declarable vendor data length: one entry of 12 + 65535 bytes, complete and one byte short (the payload is longer
    # than a 16-bit payload length can say; the declared payload length only gates)
    for short in (0, 1):
        pl = tecmp_bus_payload(rng, 1, 0, v=0xFFFF)
        out.append((tecmp_frame(rng, 2, 0, pl[:len(pl) - short], plen=0xFFFF), "bus-vendor"))
    # all 256 message types, many data types
    for mt in range(256):
        for dt in [2, 4, rng.randrange(0, 0x101), 0x8000, 0xFFFF, 0xFF00, 0x00FF, rng.getrandbits(16)]:
            pl = rng.choice([tecmp_can_payload(rng, 8), tecmp_lin_payload(rng, 4), tecmp_cm_payload(rng), tecmp_bus_payload(rng, 2, v=rng.choice([0, 4]))])
            out.append((tecmp_frame(rng, mt, dt, pl), "all-types"))
    # data messages whose 16-bit data type only ALIASES a supported kind in one of its bytes (0xNN02 / 0xNN03 / 0xNN04, 0x0200 ...): the
    # payload is well-formed for the aliased kind, so a dispatch on a narrowed or byte-swapped data type converts it
    for lo, mk in ((2, lambda: tecmp_can_payload(rng, 8)), (3, lambda: tecmp_can_payload(rng, 12)), (4, lambda: tecmp_lin_payload(rng, 4, cks=1))):
        for hi in (1, 2, 0x80, 0xFF, rng.randrange(1, 256)):
            out.append((tecmp_frame(rng, 3, (hi << 8) | lo, mk()), "aliased-data-type"))
        out.append((tecmp_frame(rng, 3, lo << 8, mk()), "aliased-data-type"))
    if tier != "quick":
        for dt in range(0, 0x101):
            out.append((tecmp_frame(rng, 3, dt, tecmp_can_payload(rng, 8)), "all-types"))
    # header-level inconsistencies
    for _ in range(200 if tier == "quick" else 2000):
        pl = rng.choice([tecmp_can_payload(rng, rng.randrange(0, 20)), tecmp_lin_payload(rng, rng.randrange(0, 9)), tecmp_bus_payload(rng, rng.randrange(0, 3)),
                         tecmp_bus_payload(rng, rng.randrange(0, 4), v=rng.choice([1, 4, 7])), tecmp_cm_payload(rng, rng.choice([18, 24, 36]))])
        mt = rng.choice([1, 2, 3])
        dt = rng.choice([2, 3, 4])
        fr = tecmp_frame(rng, mt, dt, pl, plen=rng.choice([0, 1, len(pl), len(pl) + 1, len(pl) - 1 if pl else 0, 0xFFFF, 0xFFFF - rng.randrange(0, 40),
                                                               65507, 65508, 0x8000]))
        fr += rng.choice([b"", b"", proto.rand_bytes(rng, 3)])
        cut = rng.choice([len(fr), len(fr), rng.randrange(0, len(fr) + 1)])
        out.append((fr[:cut], "hdr-misfit"))
    return out


def gen_c15(tier, rng):
    cases = []
    frames = gen_tecmp_frames(tier, rng)
    for i in range(0, len(frames), 20):
        chunk = frames[i:i + 20]
        ops = []
        for j, (fr, tag) in enumerate(chunk):
            ops.append(("tecmp " if j % 2 else "dec d feed ") + proto.hexs(fr))
        cases.append(Case("c15", ops, nontrivial=True, tags=tuple(sorted({t for _, t in chunk}))))
    # ONE Decoder object, TECMP frames that repeat device id and message counter (a module counts status and data messages separately,
    # counters wrap and restart, a replay harness keeps them constant): conversion is stateless, every frame yields its packets again
    for dev, ctr in ((0x12, 1), (0, 0), (0xFF, 0xFFFF)):
        pc = tecmp_can_payload(rng, 8)
        pl = tecmp_lin_payload(rng, 4)
        pm = tecmp_cm_payload(rng, 36)
        frs = [tecmp_header(dev=dev, counter=ctr, mt=3, dt=2, payload=pc) + pc, tecmp_header(dev=dev, counter=ctr, mt=3, dt=2, payload=pc) + pc,
               tecmp_header(dev=dev, counter=ctr, mt=1, dt=0, payload=pm) + pm, tecmp_header(dev=dev, counter=ctr, mt=3, dt=4, payload=pl) + pl,
               tecmp_header(dev=dev, counter=ctr, mt=1, dt=0, payload=pm) + pm, tecmp_header(dev=dev, counter=ctr, mt=3, dt=2, payload=pc) + pc]
        cases.append(Case("c15rep", [feed(f) for f in frs], nontrivial=True, tags=("same-decoder-repeated-counter",), meta={"noshrink": True}))
    return cases


# ---- C02 ------------------------------------------------------------------------------

def structure_view(case, lines):
    """number of packets, each packet's payload length and validity bit; sanitizer verdicts"""
    out = []
    for l in lines:
        if l.startswith("pk "):
            ps = l.split(" ")[2:]
            out.append("pk %d " % len(ps) + " ".join(":".join(p.split(":")[10:12]) if not p.startswith("nopayload") else "NOPAYLOAD" for p in ps))
        elif l.startswith("sel "):
            out.append(l[:3])
        else:
            out.append(l)
    return out


def structured_payloads(rng):
    """well-formed typed payloads whose inner length fields sit at their interesting values: odd / even id counts, empty and
    odd-length strings, empty and non-empty vendor data, data length 0 / 1 / typical"""
    out = []
    for ids in (0, 1, 2, 3, 7):
        for vend in (0, 1, 3):
            out.append(("if", proto.TY["if"], proto.if_payload(bytes(range(1, ids + 1)), proto.rand_bytes(rng, vend), if_id=rng.getrandbits(32), status=rng.randrange(3))))
    for strs in ((b"", b"", b"", b""), (b"a", b"bc", b"def", b"g"), (b"dev", b"", b"hw1", b"sw22"), (b"abcd", b"12345", b"", b"x")):
        for vend in (0, 1, 4):
            out.append(("cm", proto.TY["cm"], proto.cm_payload(*strs, vendor=proto.rand_bytes(rng, vend))))
    for n in (0, 1, 8):
        out.append(("can", proto.TY["can"], proto.can_payload(proto.rand_bytes(rng, n))))
        out.append(("canfd", proto.TY["canfd"], proto.can_payload(proto.rand_bytes(rng, n), fd=True)))
        out.append(("lin", proto.TY["lin"], proto.lin_payload(proto.rand_bytes(rng, n))))
        out.append(("eth", proto.TY["eth"], proto.eth_payload(proto.rand_bytes(rng, n * 8))))
        out.append(("analog", proto.TY["analog"], proto.analog_payload(proto.rand_bytes(rng, 2 * n))))
    return out


def prefix_closure_cases(tier, rng, name):
    """every PREFIX of structured payloads, re-declared with the cut length (so the message itself is consistent and only the
    payload's inner structure runs past its end), as the last message of an exactly sized buffer and in front of another message"""
    cases = []
    tail = message(9, 9, 0, 0x05, b"\xEE" * 5)
    for kind, ty, body in structured_payloads(rng):
        ops = []
        for cut in range(0, len(body) + 1):
            for post in ((b"",) if tier == "quick" and cut % 2 else (b"", tail)):
                ops.append(feed(frame_header(1, 2, ty >> 8, 3, 4) + message(5, 6, 0, ty & 0xFF, body[:cut]) + post))
        ops.append("dec d reprint")
        cases.append(Case(name, ops, nontrivial=True, tags=("prefix-closure", kind)))
    return cases


def gen_length_extremes(rng):
    """Unsegmented messages whose 16-bit payload-length field is at its extremes (a 16-bit sum of header size + length wraps for
    0xFFF0..0xFFFF) in buffers far shorter than declared, for generic and typed payload types, as the only and as the second message of a
    frame — always part of the C02 / C19 / C20 workloads (not left to sampling)."""
    cases = []
    for ptype in (0xFE, 0x01, 0x08, 0x03):
        ops = []
        for ln in list(range(0xFFEE, 0x10000)) + [0x8000, 0x7FFF, 0xFF00, 0x00FF]:
            for have in (0, 1, 24):
                m = proto.message(rng.getrandbits(64), rng.getrandbits(32), 0, ptype, proto.rand_bytes(rng, have), length=ln)
                pre = rng.choice([b"", proto.message(1, 2, 0, 0x05, b"\x01\x02\x03")])
                ops.append(feed(proto.frame_header(1, 7, 1, 9, rng.getrandbits(16)) + pre + m))
        ops.append("dec d pending")
        cases.append(Case("c02len", ops, nontrivial=True, tags=("length-field-extremes",)))
    return cases


def gen_overdeclared_segments(tier, rng, n=None):
    """A valid first segment, then a continuation segment (matching version, message type and counter + 1) whose declared payload
    length EXCEEDS the bytes its frame carries (exactly sized buffers: a decoder that trusts the declared length copies what lies
    behind the frame into the reassembled message), also after an intermediary segment, and with the excess ranging from 1 byte to
    the 16-bit maximum.  Expected: the continuation is rejected and the reassembly released; nothing is delivered."""
    cases = []
    for _ in range(n if n is not None else (40 if tier == "quick" else 400)):
        ver, dev, stream, mt = rng.randrange(1, 256), rng.getrandbits(16), rng.getrandbits(8), rng.choice([1, 1, 3, 2])
        seq = rng.choice([rng.getrandbits(16), 65534, 65535])
        ptype = rng.choice([0x08, 0x01, 0x0A, 0xFE])
        ts, idw = rng.getrandbits(64), rng.getrandbits(32)
        first = proto.frame_header(ver, dev, mt, stream, seq) + proto.message(ts, idw, 0x04, ptype, proto.rand_bytes(rng, rng.choice([8, 32, 100])))
        ops = [feed(first)]
        k = 1
        if rng.random() < 0.4:
            ops.append(feed(proto.frame_header(ver, dev, mt, stream, (seq + k) & 0xFFFF) + proto.message(ts, idw, 0x08, ptype, proto.rand_bytes(rng, 16))))
            k += 1
        have = rng.choice([0, 1, 8, 40])
        declared = have + rng.choice([1, 2, 16, 192, 1000, 0xFFFF - have])
        flag = rng.choice([0x0C, 0x0C, 0x08])
        ops.append(feed(proto.frame_header(ver, dev, mt, stream, (seq + k) & 0xFFFF) + proto.message(ts, idw, flag, ptype, proto.rand_bytes(rng, have), length=declared)))
        ops += ["dec d pending", feed(proto.frame_header(ver, dev, mt, stream, (seq + k + 1) & 0xFFFF) + proto.message(ts, idw, 0x0C, ptype, b"\x01\x02")), "dec d pending"]
        cases.append(Case("c02seg", ops, nontrivial=True, tags=("over-declared-continuation",)))
    return cases


def gen_c02(tier, rng):
    cases = []
    # well-formed frames of every kind truncated at every offset, fields corrupted
    n = 300 if tier == "quick" else 3000
    for ci in range(n):
        ver = rng.randrange(1, 256)
        mt = rng.choice([1, 3, 2, 0xFF])
        msgs = []
        for _ in range(rng.randrange(1, 4)):
            kind = rng.choice(proto.KINDS)
            seg = rng.choice([0, 0, 0, 0x04, 0x08, 0x0C])
            m, _d = rand_msg(rng, kind=kind, seg=seg)
            msgs.append(m)
        fr = frame_of(rng, ver, rng.getrandbits(16), rng.getrandbits(8), rng.getrandbits(16), mt, msgs)
        ops = []
        if ci % 3 == 0:
            for cut in range(0, len(fr) + 1, 1 if len(fr) < 80 else max(1, len(fr) // 60)):
                ops.append(feed(fr[:cut]))
            tag = "truncate-every-offset"
        elif ci % 3 == 1:
            # corrupt each length / type / flag field of the first message and of the typed payload header
            for off in [0, 4, 8 + 12, 8 + 13, 8 + 14, 8 + 15] + list(range(24, min(len(fr), 24 + 40))):
                for v in (0, 1, 0xFF, (fr[off] + 1) & 0xFF if off < len(fr) else 0, (fr[off] - 1) & 0xFF if off < len(fr) else 0):
                    if off < len(fr):
                        g = bytearray(fr)
                        g[off] = v
                        ops.append(feed(bytes(g)))
            # 16-bit length fields at their extreme values (a 16-bit sum of header size + length wraps for 0xFFF0..0xFFFF)
            for off in (8 + 14, 24 + 4, 24 + 14, 24 + 26, 24 + 36):
                if off + 2 <= len(fr):
                    for v in list(range(0xFFEE, 0x10000)) + [0x8000, 0x7FFF, 0xFF00, 0x00FF]:
                        g = bytearray(fr)
                        g[off:off + 2] = be(v, 2)
                        ops.append(feed(bytes(g)))
            tag = "corrupt-fields"
        else:
            for _ in range(20):
                g = bytearray(fr)
                for _k in range(rng.randrange(1, 4)):
                    g[rng.randrange(len(g))] = rng.getrandbits(8)
                ops.append(feed(bytes(g)))
            tag = "random-corruption"
        ops.append("dec d reprint")
        ops.append("dec d pending")
        cases.append(Case("c02", ops, nontrivial=True, tags=(tag,)))
    cases += gen_overdeclared_segments(tier, rng)
    cases += gen_length_extremes(rng)
    # every typed payload kind with a payload shorter than its header as the LAST message of an exactly sized buffer
    # (a validator that touches a header field before its size check reads past the buffer here)
    for ty in sorted(set(proto.TY.values())):
        ops = []
        for n in range(0, 42):
            for pre in (b"", message(1, 2, 0, 0x05, b"\x01\x02\x03")):
                fr = frame_header(1, 3, ty >> 8, 4, 5) + pre + message(6, 7, 0, ty & 0xFF, proto.rand_bytes(rng, n))
                ops.append(feed(fr))
        ops.append("dec d reprint")
        cases.append(Case("c02s", ops, nontrivial=True, tags=("short-last-message",)))
    cases += prefix_closure_cases(tier, rng, "c02p")
    # a reassembly that grows beyond 65551 bytes (vector reallocation while the header of the first segment is referenced)
    ops = []
    for k in range(47):
        seg = 0x04 if k == 0 else (0x0C if k == 46 else 0x08)
        ops.append(feed(frame_header(1, 1, 1, 1, 100 + k) + message(5, 6, seg, 0x05, bytes([(k + i) % 256 for i in range(1400)]))))
    ops += ["dec d reprint", "dec d pending"]
    cases.append(Case("c02big", ops, nontrivial=True, tags=("reassembly-over-64KiB",), meta={"noshrink": True}))
    # TECMP
    frames = gen_tecmp_frames(tier, rng)
    for i in range(0, len(frames), 25):
        chunk = frames[i:i + 25]
        ops = [feed(fr) for fr, _ in chunk]
        for fr, _t in chunk[:5]:
            # every third truncation; of a frame of several KiB only those around the header, the generic part and the end
            cuts = range(0, len(fr), 3) if len(fr) <= 4096 else list(range(0, 96, 3)) + list(range(len(fr) - 48, len(fr), 3))
            for cut in cuts:
                ops.append(feed(fr[:cut]))
        ops.append("dec d reprint")
        cases.append(Case("c02t", ops, nontrivial=True, tags=("tecmp",)))
    # random byte strings and histories
    for _ in range(200 if tier == "quick" else 3000):
        ops = []
        for _j in range(rng.randrange(1, 50)):
            ln = rng.choice([0, 1, 7, 8, 9, 23, 24, 25, 28, 29, 40, rng.randrange(0, 200)])
            b = bytearray(proto.rand_bytes(rng, ln))
            if ln and rng.random() < 0.3:
                b[0] = 0
            if ln > 16 and rng.random() < 0.5:
                b[8 + 14 - 8:8 + 16 - 8] = b"\0\0"
            ops.append(feed(bytes(b)))
        ops.append("dec d null")
        ops.append("dec d reprint")
        ops.append("dec d destroy")
        ops.append("dec d reprint")
        cases.append(Case("c02r", ops, nontrivial=True, tags=("random",)))
    # mixed histories with well-formed traffic
    cases += [Case(c.name, c.ops + ["dec d reprint", "dec d destroy", "dec d reprint"], True, ("history",)) for c in
              random_histories(tier, rng, 150 if tier == "quick" else 2000)]
    if tier != "quick":
        for _ in range(20):
            b = bytearray(proto.rand_bytes(rng, 65536))
            b[0] = rng.choice([0, 1])
            cases.append(Case("c02big", [feed(bytes(b)), "dec d reprint"], True, ("64KiB",)))
        # 64 KiB of well-formed minimal messages: the packet-count bound
        m = message(1, 2, 0, 5, b"")
        m1 = message(1, 2, 0, 5, b"\x01")
        cases.append(Case("c02many", [feed(frame_header(1, 1, 1, 1, 1) + m1 * 3855)], True, ("many-messages",)))
    m1 = message(1, 2, 0, 5, b"\x01")
    cases.append(Case("c02many", [feed(frame_header(1, 1, 1, 1, 1) + m1 * 200), feed(frame_header(1, 1, 1, 1, 1) + message(1, 2, 0, 5, b"") * 100)], True,
                      ("many-messages",)))
    return cases


def pred_c02(case, impl, model, ctx):
    """implementation only: no crash; at most one packet per 12 input bytes; every packet has a payload"""
    for o, l in zip(case.ops, impl):
        if l.startswith("CRASH"):
            return False
        if o.startswith("dec d feed") and l.startswith("pk "):
            hx = o.split(" ")[3]
            n = 0 if hx == "-" else len(hx) // 2
            ps = l.split(" ")[2:]
            if 12 * len(ps) > n:
                return False
            if any(p.startswith("nopayload") or p == "NULLPACKET" for p in ps):
                return False
    if len(impl) > len(case.ops):
        return False
    return True


# ---- predicates that follow from theorems characterising the output completely ---------------------

def pred_c04(case, impl, model, ctx):
    """C04_wire / C04_pad / C04_truncate equate the model's output on these table-built frames with the specification packets
    (specPacket), so on this domain the predicate IS equality with the model's line"""
    for o, l, m in zip(case.ops, impl, model):
        if l.startswith("CRASH"):
            return False
        if o.startswith("dec d feed") and l != m:
            return False
    return len(impl) <= len(case.ops)


def pred_c15(case, impl, model, ctx):
    """the C15 theorems characterise tecmpDecode on every input class (supported kinds: the wire fields; everything else: no packet):
    the implementation's line must be the model's; in addition, for bus-status and capture-module status messages, what the TECMP
    wire format says (tecmp_expected, computed from the bytes alone, not from the Lean model) is checked on the implementation's
    output: one interface-status packet per complete entry of 12 + declared vendor data length bytes, with that entry's interface id
    and counters; a capture-module packet iff the declared vendor data fits"""
    for o, l, m in zip(case.ops, impl, model):
        if l.startswith("CRASH"):
            return False
        if not (o.startswith("dec d feed") or o.startswith("tecmp ")):
            continue
        if l != m:
            return False
        hx = o.split(" ")[-1]
        exp = tecmp_expected(b"" if hx == "-" else bytes.fromhex(hx))
        if exp is None:
            continue
        w = l.split(" ")
        if w[0] != "pk" or not w[1].isdigit() or int(w[1]) != len(w) - 2:
            return False
        pks = [x.split(":") for x in w[2:]]
        if exp[0] == "cm":
            if len(pks) != exp[1] or any(int(x[0], 16) != 0x0301 for x in pks):
                return False
        else:
            if len(pks) != len(exp[1]):
                return False
            for x, (ifid, msgs, errs) in zip(pks, exp[1]):
                if len(x) < 13 or int(x[0], 16) != 0x0302 or int(x[6]) != ifid or len(x[12]) != 80:
                    return False
                d = bytes.fromhex(x[12])
                if (int.from_bytes(d[0:4], "big"), int.from_bytes(d[4:8], "big"), int.from_bytes(d[20:24], "big")) != (ifid, msgs, errs):
                    return False
    return len(impl) <= len(case.ops)


def _parse_frame_for_spec(b):
    """what the specification automaton of C17 needs from a buffer: endpoint, version, type, counter, whether unsegmented messages
    precede, and the terminator (None / ("seg", type, declared bytes))"""
    if len(b) < 8 or b[0] == 0:
        return None
    ep = (int.from_bytes(b[2:4], "big"), b[5])
    ver, mt, seq = b[0], b[4], int.from_bytes(b[6:8], "big")
    r = b[8:]
    unseg = 0
    while True:
        if len(r) == 0:
            return ep, ver, mt, seq, unseg, None
        if len(r) < 16:
            return ep, ver, mt, seq, unseg, None
        ln = int.from_bytes(r[14:16], "big")
        if ln > len(r) - 16 or (r[12] & 0x40) or r[13] == 0:
            return ep, ver, mt, seq, unseg, None
        st = r[12] & 0x0C
        if st:
            return ep, ver, mt, seq, unseg, ("seg", st, ln)
        unseg += 1
        r = r[16 + ln:]


def pred_c17(case, impl, model, ctx):
    """implementation only, against the buffer-free specification automaton (openSpec / openBytes of Props/C17.lean replayed in
    Python): after every frame the pending table holds exactly the endpoints with a message in progress, each with at most
    16 + the segment bytes received for it"""
    specs = {}     # decoder name -> {ep -> (ver, mt, seq, bytes)}
    for o, l in zip(case.ops, impl):
        if l.startswith("CRASH"):
            return False
        w = o.split(" ")
        spec = specs.setdefault(w[1], {}) if w[0] == "dec" and len(w) > 2 else {}
        if w[0] == "dec" and w[2] in ("feed", "feedll", "feedhuge"):
            if w[2] == "feedhuge":
                b = bytes.fromhex(w[4]) + bytes(min(int(w[3]) - len(w[4]) // 2, 64))      # the prefix ends in a segment: what follows it does not matter
            else:
                b = b"" if w[3] == "-" else bytes.fromhex(w[3])
            f = _parse_frame_for_spec(b)
            if f is None:
                continue
            ep, ver, mt, seq, unseg, term = f
            if term is None:
                spec.pop(ep, None)
            else:
                _, st, ln = term
                if st == 4:
                    spec[ep] = (ver, mt, seq, ln)
                elif st == 8 and unseg == 0 and ep in spec and spec[ep][0] == ver and spec[ep][1] == mt and seq == (spec[ep][2] + 1) % 65536:
                    spec[ep] = (ver, mt, seq, spec[ep][3] + ln)
                else:
                    spec.pop(ep, None)
        elif w[0] == "dec" and w[2] == "destroy":
            specs[w[1]] = {}
        elif w[0] == "dec" and w[2] == "copyfrom":
            specs[w[1]] = dict(specs.get(w[3], {}))       # the copy has the original's open reassemblies, and its own from here on
        elif w[0] == "dec" and w[2] in ("pending", "pendingll"):
            if not l.startswith("pending "):
                return False
            got = {}
            for t in l.split(" ")[2:]:
                d, s_, n = t.split(":")
                got[(int(d), int(s_))] = int(n)
            if set(got) != set(spec):
                return False
            for ep, n in got.items():
                if n > 16 + spec[ep][3]:
                    return False
    return True
