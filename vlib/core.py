"""Shared machinery of the checks: rebuilding harness and Lean from the current trees, running
operation scripts on both sides, comparing, replay / evidence / known-findings plumbing.

Everything is derived from this file's location; nothing lives under /tmp.
"""
import fcntl
import hashlib
import json
import os
import re
import shutil
import subprocess
import sys
import time

ROOT = os.path.dirname(os.path.dirname(os.path.abspath(__file__)))
REPO = os.environ.get("VERIF_REPO", "/repo")
CACHE = os.path.join(ROOT, ".cache")
LEAN = os.path.join(ROOT, "lean")
HARNESS_SRC = os.path.join(ROOT, "harness")
REPLAYS = os.path.join(ROOT, "replays")
# evidence/ holds what was observed on /repo itself; a run against another tree (VERIF_REPO, used for the seeded changes) writes elsewhere
EVIDENCE = os.path.join(ROOT, "evidence") if "VERIF_REPO" not in os.environ else os.path.join(CACHE, "evidence-other-tree")

ALLOWED_AXIOMS = {"propext", "Classical.choice", "Quot.sound"}

TSAN_ENV = {"TSAN_OPTIONS": "exitcode=66:halt_on_error=0:report_signal_unsafe=0"}

SAN_ENV = {
    "ASAN_OPTIONS": "exitcode=99:detect_leaks=0:allocator_may_return_null=0:hard_rss_limit_mb=6000:abort_on_error=0",
    "UBSAN_OPTIONS": "exitcode=98:halt_on_error=1:print_stacktrace=0",
}


def log(*a):
    print(*a, file=sys.stderr, flush=True)


class Lock:
    def __init__(self, name):
        os.makedirs(CACHE, exist_ok=True)
        self.path = os.path.join(CACHE, name + ".lock")

    def __enter__(self):
        self.f = open(self.path, "w")
        fcntl.flock(self.f, fcntl.LOCK_EX)
        return self

    def __exit__(self, *a):
        fcntl.flock(self.f, fcntl.LOCK_UN)
        self.f.close()


def _hash_tree(paths):
    h = hashlib.sha256()
    for p in paths:
        if os.path.isdir(p):
            for dp, dn, fn in sorted(os.walk(p)):
                dn.sort()
                for f in sorted(fn):
                    fp = os.path.join(dp, f)
                    h.update(fp.encode())
                    with open(fp, "rb") as fh:
                        h.update(fh.read())
        elif os.path.exists(p):
            h.update(p.encode())
            with open(p, "rb") as fh:
                h.update(fh.read())
    return h.hexdigest()[:16]


class BuildError(Exception):
    def __init__(self, what, output):
        super().__init__(what)
        self.what = what
        self.output = output


def build_harness(variant="asan"):
    """Compile /repo's sources and link the harness; cached by the hash of the sources.
    variant: asan (ASan+UBSan), tsan, plain (for valgrind / nm)."""
    import hashlib
    from . import buildcfg
    try:
        cfg = buildcfg.project_config(REPO)       # sources, definitions, include directories, code-generation options: asked from the library's own build system
    except buildcfg.ConfigError as e:
        raise BuildError(e.what, e.output)
    key = _hash_tree([os.path.join(REPO, "include"), os.path.join(REPO, "src"), HARNESS_SRC] + [s for s in cfg["sources"] if not s.startswith(os.path.join(REPO, "src") + os.sep)])
    key = hashlib.sha256((key + cfg["key"] + cfg["text"] + open(os.path.abspath(__file__)).read() + open(buildcfg.__file__).read()).encode()).hexdigest()[:16] + "-" + variant   # build recipe is part of the key
    out = os.path.join(CACHE, "h-" + key)
    exe = os.path.join(out, "harness")
    with Lock("harness-" + variant):
        if os.path.exists(exe):
            return out
        tmp = out + ".tmp%d" % os.getpid()
        shutil.rmtree(tmp, ignore_errors=True)
        os.makedirs(os.path.join(tmp, "obj"))
        std = cfg["std"]
        if variant == "asan":
            flags = std + " -O0 -g -fsanitize=address,undefined -fno-sanitize=vptr,alignment,nonnull-attribute -fno-sanitize-recover=all"
        elif variant == "tsan":
            flags = std + " -O0 -g -fsanitize=thread -fno-builtin"   # gcc does not instrument inlined builtin memcpy: a race through memcpy would go unseen
        else:
            flags = std + " -O0 -g"
        flags += " " + buildcfg.gcc_flags(cfg)
        srcs = cfg["sources"]
        procs = []
        for f in srcs:
            cmd = "g++ %s -c %s -o %s/obj/%s.o" % (flags, f, tmp, os.path.relpath(f, REPO).replace(os.sep, "_")[:-4])
            procs.append((f, subprocess.Popen(cmd, shell=True, stdout=subprocess.PIPE, stderr=subprocess.STDOUT)))
        errs = []
        for f, p in procs:
            o, _ = p.communicate()
            if p.returncode != 0:
                errs.append(o.decode(errors="replace"))
        if errs:
            shutil.rmtree(tmp, ignore_errors=True)
            raise BuildError("library sources do not compile", "\n".join(errs)[:4000])
        extra = " -pthread" if variant == "tsan" else ""
        cmd = "g++ %s -fno-access-control -Wno-invalid-offsetof%s %s/harness.cpp %s/obj/*.o -o %s/harness" % (
            flags, extra, HARNESS_SRC, tmp, tmp)
        r = subprocess.run(cmd, shell=True, stdout=subprocess.PIPE, stderr=subprocess.STDOUT)
        if r.returncode != 0:
            shutil.rmtree(tmp, ignore_errors=True)
            raise BuildError("harness does not compile against the current headers", r.stdout.decode(errors="replace")[:4000])
        # dumper (constants reflected from the headers), optional
        dsrc = os.path.join(HARNESS_SRC, "dumper.cpp")
        if os.path.exists(dsrc):
            cmd = "g++ %s -O0 %s -fno-access-control -Wno-invalid-offsetof %s %s/obj/*.o %s -o %s/dumper" % (
                std, buildcfg.gcc_flags(cfg), dsrc, tmp, "-fsanitize=address,undefined" if variant == "asan" else ("-fsanitize=thread" if variant == "tsan" else ""), tmp)
            r = subprocess.run(cmd, shell=True, stdout=subprocess.PIPE, stderr=subprocess.STDOUT)
            if r.returncode != 0:
                # the constants program names private members (masks, offsets); when one of them is renamed or removed only the
                # regeneration of Generated.lean fails (=> a stub => broken obligations of GenChecks).  The harness itself is still
                # built and the correspondence still runs: a failing input may well exist and must be looked for.
                with open(os.path.join(tmp, "dumper.err"), "w") as f:
                    f.write(r.stdout.decode(errors="replace")[:4000])
        shutil.rmtree(out, ignore_errors=True)
        os.rename(tmp, out)
        # keep the cache small: drop other entries of this variant
        for d in os.listdir(CACHE):
            if d.startswith("h-") and d.endswith("-" + variant) and os.path.join(CACHE, d) != out and ".tmp" not in d:
                shutil.rmtree(os.path.join(CACHE, d), ignore_errors=True)
    return out


def lake_build(targets):
    """lake build of the given targets; returns (ok, output)."""
    with Lock("lake"):
        r = subprocess.run(["lake", "build"] + list(targets), cwd=LEAN, stdout=subprocess.PIPE, stderr=subprocess.STDOUT)
    out = r.stdout.decode(errors="replace")
    return r.returncode == 0, out


def driver_path():
    return os.path.join(LEAN, ".lake", "build", "bin", "driver")


def lean_run(source_text, name):
    """Run a Lean file inside the project (`lake env lean`); returns (rc, output)."""
    os.makedirs(os.path.join(CACHE, "lean-tmp"), exist_ok=True)
    p = os.path.join(CACHE, "lean-tmp", name + ".lean")
    with open(p, "w") as f:
        f.write(source_text)
    r = subprocess.run(["lake", "env", "lean", p], cwd=LEAN, stdout=subprocess.PIPE, stderr=subprocess.STDOUT)
    return r.returncode, r.stdout.decode(errors="replace")


def audit_axioms(theorems, imports):
    """#print axioms for every theorem; returns dict name -> (ok, detail)."""
    src = "".join("import %s\n" % i for i in imports)
    for t in theorems:
        src += "#print axioms %s\n" % t
    rc, out = lean_run(src, "audit_" + hashlib.md5(src.encode()).hexdigest()[:8])
    res = {}
    # split the output per theorem
    blocks = re.split(r"(?m)^(?=')", out)
    text = out
    for t in theorems:
        m = re.search(r"'%s' (does not depend on any axioms|depends on axioms: \[([^\]]*)\])" % re.escape(t), text, re.S)
        if not m:
            res[t] = (False, "missing: " + (out.strip()[:300]))
            continue
        if m.group(2) is None:
            res[t] = (True, "no axioms")
        else:
            ax = [a.strip() for a in m.group(2).replace("\n", " ").split(",") if a.strip()]
            bad = [a for a in ax if a not in ALLOWED_AXIOMS]
            res[t] = (not bad, "axioms: " + ", ".join(ax))
    return res


FORBIDDEN = re.compile(r"\b(sorry|admit|native_decide|bv_decide|implemented_by)\b|^\s*axiom\s|\bunsafe\s|maxHeartbeats\s+0\b")


def grep_forbidden():
    """Forbidden constructs outside comments in the Lean sources; returns list of hits."""
    hits = []
    for dp, dn, fn in os.walk(LEAN):
        if ".lake" in dp:
            continue
        for f in fn:
            if not f.endswith(".lean"):
                continue
            p = os.path.join(dp, f)
            txt = open(p).read()
            # strip block comments and line comments
            txt2 = re.sub(r"/-.*?-/", lambda m: "\n" * m.group(0).count("\n"), txt, flags=re.S)
            for i, line in enumerate(txt2.split("\n"), 1):
                line = line.split("--")[0]
                if FORBIDDEN.search(line):
                    hits.append("%s:%d: %s" % (os.path.relpath(p, ROOT), i, line.strip()[:120]))
    return hits


# ---------------------------------------------------------------------------------------
# running scripts


def _script(cases):
    lines = []
    for name, ops in cases:
        lines.append("case " + name)
        lines.extend(ops)
    return "\n".join(lines) + "\n"


def run_driver(cases, timeout=600):
    """Run the model driver; returns list of output-line lists per case (without the `case` echo)."""
    if not cases:
        return []
    r = subprocess.run([driver_path()], input=_script(cases).encode(), stdout=subprocess.PIPE, stderr=subprocess.PIPE, timeout=timeout)
    if r.returncode != 0:
        raise RuntimeError("driver failed: " + r.stderr.decode(errors="replace")[:500])
    out = r.stdout.decode().split("\n")
    if out and out[-1] == "":
        out.pop()
    res = []
    i = 0
    for name, ops in cases:
        n = 1 + len(ops)
        res.append(out[i + 1:i + n])
        i += n
    if i != len(out):
        raise RuntimeError("driver output has %d lines, expected %d" % (len(out), i))
    return res


def _crash_kind(rc, err):
    m = re.search(r"ERROR: AddressSanitizer: ([\w-]+)", err)
    if m:
        return "SAN:" + m.group(1)
    if "runtime error:" in err:
        m = re.search(r"runtime error: ([^\n]{0,60})", err)
        return "UBSAN:" + (m.group(1).strip().replace(" ", "_") if m else "")
    if "ThreadSanitizer" in err:
        return "TSAN"
    if rc == 99:
        return "SAN"
    if rc == 98:
        return "UBSAN"
    if rc < 0:
        return "SIG%d" % (-rc)
    return "EXIT%d" % rc


def run_harness(hdir, cases, timeout=300, exe="harness", wrapper=None, env_extra=None, args=None):
    """Run the implementation harness; a crash or timeout is attributed to its case and the run
    continues with the next case.  Returns (outputs per case, crash count)."""
    res = [None] * len(cases)
    start = 0
    crashes = 0
    timeouts = 0
    env = dict(os.environ)
    env.update(SAN_ENV)
    if env_extra:
        env.update(env_extra)
    while start < len(cases):
        sub = cases[start:]
        cmd = [os.path.join(hdir, exe)] + list(args or [])
        if wrapper:
            cmd = wrapper + cmd
        try:
            r = subprocess.run(cmd, input=_script(sub).encode(), stdout=subprocess.PIPE, stderr=subprocess.PIPE, timeout=timeout, env=env)
            rc, so, se = r.returncode, r.stdout, r.stderr
            timed_out = False
        except subprocess.TimeoutExpired as e:
            rc, so, se = -9, e.stdout or b"", e.stderr or b""
            timed_out = True
            timeouts += 1
        out = so.decode(errors="replace").split("\n")
        if out and out[-1] == "":
            out.pop()
        i = 0
        k = 0
        done_all = True
        for k, (name, ops) in enumerate(sub):
            n = 1 + len(ops)
            if i + n <= len(out):
                res[start + k] = out[i + 1:i + n]
                i += n
            else:
                # this case did not finish
                got = out[i + 1:] if i < len(out) else []
                kind = "TIMEOUT" if timed_out else _crash_kind(rc, se.decode(errors="replace"))
                res[start + k] = got + ["CRASH:" + kind]
                crashes += 1
                start = start + k + 1
                done_all = False
                if timeouts >= 3:
                    # a non-terminating implementation: do not spend a timeout on every remaining case
                    for j in range(start, len(cases)):
                        res[j] = ["CRASH:SKIPPED-AFTER-3-TIMEOUTS"]
                    start = len(cases)
                break
        if done_all:
            if rc != 0 and not timed_out:
                # finished all output but failed at exit (e.g. TSan report): attach to last case
                kind = _crash_kind(rc, se.decode(errors="replace"))
                res[start + len(sub) - 1] = (res[start + len(sub) - 1] or []) + ["CRASH:" + kind]
                crashes += 1
            break
    return res, crashes


# ---------------------------------------------------------------------------------------
# known findings


def load_known():
    p = os.path.join(ROOT, "known-findings.txt")
    known = []
    if os.path.exists(p):
        for line in open(p):
            line = line.strip()
            m = re.match(r"open:\s+property=(\S+)\s+key=(\S+)\s+(.*)", line)
            if m:
                known.append((m.group(1), m.group(2), m.group(3)))
    return known


def signature(ops):
    return hashlib.sha256("\n".join(ops).encode()).hexdigest()[:12]


# ---------------------------------------------------------------------------------------
# evidence


def write_evidence(prop, tier, seed, coverage, assumptions, wall, violations):
    os.makedirs(EVIDENCE, exist_ok=True)
    ev = {
        "property_id": prop,
        "tier": tier,
        "seed": seed,
        "level": "proof",
        "coverage": coverage,
        "assumptions": assumptions,
        "wall_s": round(wall, 2),
        "violations": violations,
    }
    p = os.path.join(EVIDENCE, prop + ".json")
    tmp = p + ".tmp%d" % os.getpid()
    with open(tmp, "w") as f:
        json.dump(ev, f, indent=1)
    os.replace(tmp, p)
    return p
