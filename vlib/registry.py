"""Property registry: Lean obligations and correspondence streams per property."""
import os

from . import core, gen_enc, gen_dec, gen_fld, gen_val, gen_bld, gen_misc, gen_rt
from .runner import Spec

SPECS = {}
NOT_CLAIMED = {}
DEFAULT_NOTE = ("Trusted: Lean 4.33 kernel; axioms propext, Classical.choice, Quot.sound; the compiled driver computes what the definitions denote; "
                "the correspondence check (C++ harness over the real library built from /repo with ASan+UBSan, Python generators/differ) is what ties the "
                "hand-written model to the code - it samples, so a divergence outside the generated inputs is not seen; protocol tables written from the "
                "standard, not present in the sandbox; C++ object lifetime and aliasing are modelled by immutable values.")
LEVEL_NOTE = {}
LEVEL_TEXT = {
    "C15": "Theorems C15_can / C15_lin / C15_cm / C15_bus: for a TECMP message laid out from the protocol table (28-byte header THdr, CAN/CAN-FD: arbitration id, length, data, crc; LIN: pid, length, data, checksum; capture-module status; bus status: 12 generic bytes + 12-byte entries) with arbitrary in-range header fields, decoding yields exactly the packets whose device id, timestamp, interface id (entry's id for bus status), arbitration id mod 2^29 / LIN id mod 64, data bytes and length, DLC code, checksum, decimal serial and version strings and counters equal the wire fields, one packet per complete bus-status entry; C15_unsupported (all 256 message types x all 65536 data types outside the supported set), C15_misfit_* (inner lengths or header length not fitting the buffer) yield no packet; C15_valid_payloads: every converted payload passes its class validator (so C03 applies). Tied to the code by table-built TECMP frames of every data length, all message types, consistent and inconsistent lengths.",
    "C02": "Theorem decode_inbounds: a checked-read twin of the whole decoder (CMP walk, reassembly, every TECMP path; reads in the order and under exactly the guards of the C++) NEVER performs an out-of-bounds read and equals the plain model, for every decoder state and every buffer; validators_inbounds does the same for the six payload validators Packet::create runs on that path; termination is Lean's termination checker on the message walk (>= 16 bytes per step) and structural recursion of the TECMP entry loop; decode_count (12 * packets <= length), decode_payload_present, reassembled_length_inbounds (16-bit length wrap of > 65535 accumulated bytes stays inside), decode_state_ok (invariant over any history), decode_null / decode_short. PARTIAL clause: 'returned packets own their data after the buffer / decoder is released' is about object lifetime, which immutable model values cannot express; the harness observes it (input in an exact-size heap block freed - ASan-poisoned - before packets are read back; decoder destroyed before the last read). Tied to the code by every truncation / field corruption of well-formed frames, TECMP frames of all 256 message types, random strings and histories under ASan+UBSan.",
    "C04": "Theorems C04_wire / C04_pad / C04_truncate: for a frame laid out from the protocol table (WFrame/WMsg: independent of the encoder model) with any number of unsegmented messages, any in-range field values, ANY decoder state, decoding returns exactly one packet per message in wire order with device/stream id, version, message type, timestamp, interface or vendor id by message type, flags, payload type and bytes equal to the big-endian wire fields; zero padding changes nothing; a frame cut at ANY offset yields exactly the packets of the messages still completely contained (fitCount); C04_invalid_marked: a typed payload rejected by its validator (inner length misfit, CAN/CAN-FD/Ethernet bus-error flags) is returned type 0 / same length / no wire bytes. Tied to the code by table-built frames with consistent and inconsistent payloads, every truncation, padding, prior history.",
    "C16": "Refinement: theorem abs_step (one concrete step of the vector-based tracker = one step of the specification map device id -> (latest capture-module packet, interface id -> latest packet)) under the invariant Inv (unique ids), inv_step, and status_refines for EVERY operation sequence from the empty tracker; entries_are_keys (exactly one entry per key), index_spec / if_index_spec (lookups return the position of the matching entry or the count), update_other_kind / update_unknown_device (identities), if_key_is_payload_id. Swap-with-last removal is modelled literally. Tied to the code by exhaustive and random operation histories with a dump and index probes after every operation; the compared view is the sorted map, vector order is checked against the implementation's own dump.",
    "C19": "PARTIAL by nature. Proved: Conc.interleave_independent / C19_interleaving - for instances whose step functions read and write their own state only (Encoder, Decoder, Status models; the TECMP path is a pure function), EVERY interleaving of the calls yields for each instance exactly the outputs and final state of its solo run; the premise 'no shared mutable state' is the regenerated obligation no_shared_state: `nm` on the objects built from /repo on this run finds no symbol in a writable section beyond the allow-list, checked by `decide`. Not provable in any model: real schedules, the C++ memory model, races inside libstdc++/malloc - observed with a ThreadSanitizer build running the mixed workload on 4/16 threads with per-case output comparison.",
    "C20": "PARTIAL by nature. Proved: byte-determinacy theorems - frame_bytes_determined (every byte of a frame is header, message header, payload or explicit zero pad), frame_reserved_zero, unused_ids_zero (id bytes a control message leaves unused and the reserved half of the vendor word are zero), builder canonicity (C13), reassembly_bytes_declared (C05), plus the model being a function of inputs and logical state. Not provable in any model: definedness of real memory - observed by re-running the correspondence with fresh heap blocks filled with 0x00/0xFF(/0xA5) and the stack painted before every call (a byte from uninitialised memory cannot equal the model's byte under all patterns) and by valgrind memcheck ('no decision depends on an uninitialised value').",
    "C03": "Theorem accessors_inbounds: for each of the seven typed payload classes, if the (repaired) validator accepts a buffer then the checked-read model of every accessor never reads outside it and every reported view (data pointer+length, strings, stream ids, vendor data, sample block) lies inside it - all buffers, all lengths, incl. the 16-bit wrap of the padded stream-id count; decoded_accessors_inbounds lifts it to every packet the decoder returns as valid (any state, any buffer), msgValid_inbounds to the packet constructor. Tied to the code by `val`/`mkpkt`/`dec access`: validator verdict and (offset,len) of every view computed from real pointers, each view touched byte by byte under ASan.",
    "C13": "Per builder (CAN, CAN-FD, LIN, Ethernet, analog, capture-module, interface) theorems *_setData: lengths, data at the table's offset, header fields preserved, DLC = ISO 11898 code, NUL termination and even zero padding of strings, zero pad byte of odd id lists, validator accepts and Packet::create keeps the type (hypothesis for CAN/Ethernet/analog/interface: no error flag / in-range enum set earlier - the excluded case is exercised on the real code), accessors return exactly the data; *_canonical: the bytes depend only on the preserved header fields and the last call's data. dlc_ok ties the real encodeDlc (all 256 inputs, regenerated every run) to the model's table. Tied to the code by the `bld` correspondence and a protocol-table predicate on the implementation's raw bytes.",
    "C14": "Model: copy/move/assignment as functions on values, both operator== as Bool functions. Theorems: copy_obs/assign_obs/self_assign/move_obs/move_assign_obs (target = source's former value whatever it held), packetEq_refl, packetEq_symm, packetNe_not, packetEq_fieldwise (equality = equality of all fields for payloads of 1..65535 bytes), payloadEq_iff. PARTIAL: 'a copy shares no state with its original' is about aliasing, which immutable model values cannot exhibit; the harness observes it (mutate and destroy the copy, re-read the original) on every generated script.",
    "C01": "Theorem C01_roundtrip: for EVERY encoder state (any history), every decoder state (any history, even a stale reassembly on the same endpoint), every non-empty batch of well-formed packets (payload 1..65535 bytes that passes its type's validator, message type and payload type byte non-zero, one version >= 1, flags without error-in-payload) and every configuration with 25 <= max, min <= max, decoding the serialised frames in order returns exactly the sent packets (type, bytes, message type, timestamp, interface/vendor id by message type, version, non-segmentation flags, tagged with the encoder's ids) and leaves nothing pending. Proof: parse-after-serialise lemmas for frames, the encoder's fold invariant (pieces), the reassembly theorems of C05, counters from C09/C10; unbounded. Tied to the code by round trips through the real encoder and decoder; the predicate P_C01 of the theorem is evaluated by the Lean driver on the packets the real decoder returned.",
    "C11": "Generic theorems get_set_same / get_set_other / set_frame / set_set_comm / set_set_same / set_get_id over `setField`/`getField` (a field = bit range in a big-endian word), for every buffer, every in-range value and ANY disjoint bit range (table field, flag or reserved bits), instantiated for all 16 class tables by kernel-checked table facts (tables_wf, tables_words_ok, tables_alias_overlap) into C11_all_classes; masks_ok ties the library's private mask constants (regenerated from /repo's headers on every run) to the table's bit ranges. Tied to the setters/getters by the `fld` correspondence (every class, every field, all in-range values up to 8/16 bits, zero/ones/random backgrounds, chains) and the table predicate evaluated on the implementation's raw bytes and getters.",
    "C12": "The model's tables ARE the protocol layout (written from the standard, vlib/layout.py -> Layout.lean); theorems get_is_be / set_is_be say reads and writes are the big-endian value at the table's offset/width/bit position; defaults_ok: default objects are zero apart from the protocol defaults (so reserved bits are zero) and C11_all_classes keeps reserved bits untouched; GenChecks sizes_ok / offsets_ok / masks_ok / enums_ok are `decide` obligations over constants regenerated from /repo's headers on every run (sizeof, offsetof of every member, masks, enum values): a moved member, changed width or mask breaks the build. Behavioural tie: `fld` correspondence in both directions (API write -> raw bytes; hand-laid-out bytes -> getters).",
    "C07": "Theorems C07_frames_wf / C07_C08_bytes / tile_bytes / frame_length / C07_empty: for every encoder state, every batch (payloads 0..65535 bytes) and every configuration with 25 <= max, min <= max, an independent byte-level tiler succeeds on every serialised frame and the decidable predicate P_C07 holds (min <= len <= max, >= 1 message, declared lengths tile the frame, zero padding only up to min, every payload byte exactly once and in order, no frames for an empty batch). Fold invariant over the batch, no bound on sizes. REFINEMENT (C07b.encodeLL_refines): a second, low-level model that transcribes src/encoder.cpp line by line (byte vectors allocated at max from the template, bytesLeft, header and payload copies at offset size - bytesLeft, resize on close, the while loop) is proved to return exactly the serialisation of the structured model, for every encoder state, batch and valid configuration - so all encoder theorems (C01, C06b, C07-C10) hold of the low-level model, offsets and copy positions included; a third of the generated encode calls are answered by the low-level model on the driver side. The same P_C07 is evaluated by the Lean driver on the frames the real encoder produced for every generated case.",
    "C08": "Theorem C08_seg_rules (+ C07_C08_bytes on bytes): P_C08 holds for every batch of payloads of 1..65535 bytes and every valid configuration: split iff 16+len exceeds an empty frame, flags first/intermediary*/last, every non-last segment full, a segment alone in its frame, message type of every message = frame header's, batch order, and greedy fill (an unsegmented message starts a new frame of the same type only if it did not fit). P_C08 is also evaluated on the real encoder's frames.",
    "C05": "Theorems reassemble_single / reassemble_many / C05_interleaved on the decoder's reassembly automaton: for any prior state, any number of segments of any sizes (0 allowed), counters mod 65536 incl. the wrap, the message is delivered exactly once at its last frame with the first segment's header, version and type and the concatenated declared bytes (total <= 65535); lifted to any interleaving with arbitrary traffic of other endpoints by the non-interference theorem run_filter. On bytes: segFrame_parse (a segment frame laid out from the protocol table with ANY trailing bytes parses to exactly header + declared bytes) and C05_bytes_single (frames on the wire, consecutive counters from any start incl. the wrap, any trailing bytes, any decoder state: nothing before the last frame, then exactly one packet with create(type, concatenated declared bytes) and the first segment's fields). Tied to the code by feeding table-built interleavings to the real decoder and comparing every call's output; the predicate (expected packet per last segment, nothing before) is evaluated on the implementation's output.",
    "C06": "Theorems fault_safe / C06_no_corruption(_interleaved): whatever sub-multiset and order of the sent frames arrives (drop, duplicate, reorder are one quantifier) and whichever segment copies carry a wrong version/type (side condition: different segments of one message are not corrupted to the same wrong pair - without it the statement is false of any decoder), every delivered packet is one that was sent; fault_recovery / fault_recovery_unseg: from ANY state, a message arriving complete, in order, uninterrupted is delivered. Invariant proof over the arrived list, stream length < 65536. END TO END on bytes (C06b.C06_bytes): for EVERY encoder state, batch of well-formed packets and configuration, ANY list of copies of the encoder model's serialised frames (any subset, order, multiplicity; copies of segment frames with any version byte 1..255 and any type byte), decoded from the empty decoder model, yields only packets of the batch - the abstract sent stream is constructed from the encoder's real output. Tied to the code by fault scripts over real encoder output fed to the real decoder.",
    "C17": "Theorems localStep_refines / C17_pending_iff_open / C17_pending_bytes / C17_idle_empty / C17_support / C17_release / C17_last_releases: the pending table refines a buffer-free specification automaton (a message is in progress after a first segment and while matching intermediary segments arrive alone in their frame); pending bytes <= 16 + segment bytes of the open message; no open message => empty table; TECMP/short/null buffers leave it untouched. All histories, by induction; C17_bytes restates it for histories of raw buffers (decodeAll). Tied to the code by reading the real decoder's private table (-fno-access-control, no source hook) after every frame of exhaustive and random histories.",
    "C18": "Theorems run_filter / C18_isolation / decode_foreign_state / decode_other_endpoint / delivered_tagged: for every history of arbitrary buffers the packets and the state of endpoint e equal those of the history projected to e; TECMP, short and null buffers change no state. Induction over the history, arbitrary parsed frames. Tied to the code by running histories and their per-endpoint projections on separate real decoders.",
    "C09": "Theorems C09_encode / C09_config / C09_headers: for every history of setDevice/setStream/restart/encode calls on the encoder model every frame carries the configured ids, the message type of its messages, the batch version, and counters consecutive mod 65536 restarting at 1 after a reset; the reported counter is the last frame's. Proved by induction over the history with a fold invariant, no bound on history or batch; C09_bytes restates it for the serialised bytes (device id at bytes 2..3, stream id at byte 5, reserved byte 0, counter at bytes 6..7, version at byte 0). The model is tied to the code by the correspondence stream (exhaustive short histories, random long ones, a >65536-frame history).",
    "C10": "Theorem C10_encode_any_state: encode reads only (device id, stream id, counter) of the encoder object, so the frames after any history equal a fresh encoder's frames shifted by the counter (simulation proof, all states, all batches); C10_bytes: on the returned byte vectors the only difference is bytes 6..7. Tied to the code by encoding the same batch on a used and a fresh real encoder.",
}


def reg(spec):
    SPECS[spec.prop] = spec


def last_lines(n):
    return lambda case, lines: lines[-n:]


reg(Spec("C01", "Encode then decode returns the original packets", ["AsamCmp.Props.C01", "AsamCmp.Props.C07b"], ["AsamCmp.C01.C01_roundtrip", "AsamCmp.C07b.encodeLL_refines"], ["AsamCmp.Props.C01", "AsamCmp.Props.C07b"], gen_enc.gen_c01, batch_predicate=gen_enc.make_batch_pred("C01"),
         view=lambda c, l: l[-3:-1],
         rule="one- and two-packet batches exhaustively over small frame sizes, random batches of 1..12 packets of all payload kinds with lengths at every fit/no-fit boundary; non-trivial = batch contains a segmented packet, a message-type change or a fill-caused frame boundary; distinct by script text"))
C07_THMS = ["AsamCmp.frame_length", "AsamCmp.C07_empty", "AsamCmp.C07_frames_wf", "AsamCmp.tile_bytes", "AsamCmp.C08_seg_rules", "AsamCmp.C07_C08_bytes",
            "AsamCmp.C07b.encodeLL_refines", "AsamCmp.C07b.C07_C08_lowlevel"]
reg(Spec("C07", "Every encoded frame is well-formed and within the size bounds", ["AsamCmp.Props.C07", "AsamCmp.Props.C07b"], C07_THMS, ["AsamCmp.Props.C07", "AsamCmp.Props.C07b"], gen_enc.gen_c07,
         batch_predicate=gen_enc.make_batch_pred("C07"),
         view=lambda c, l: [x for x in l if x.startswith("frames") or x.startswith("CRASH")],
         rule="as C01 plus mixed versions, empty batches and zero-length payloads; view = frame bytes"))
reg(Spec("C08", "Segmentation and aggregation follow the protocol rules", ["AsamCmp.Props.C07", "AsamCmp.Props.C07b", "AsamCmp.Props.SrcTieEnc"], C07_THMS + ["AsamCmp.SrcTie.segFlag_src"],
         ["AsamCmp.Props.C07", "AsamCmp.Props.C07b", "AsamCmp.Props.SrcTieEnc"], gen_enc.gen_c07,
         batch_predicate=gen_enc.make_batch_pred("C08"),
         view=lambda c, l: [x for x in l if x.startswith("frames") or x.startswith("CRASH")],
         rule="as C07"))


def hdr_view(case, lines):
    out = []
    for x in lines:
        if x.startswith("frames"):
            out.append(" ".join(f[:16] for f in x.split(" ")[2:]))
        elif x.startswith("seq") or x.startswith("CRASH"):
            out.append(x)
    return out


reg(Spec("C09", "Frame headers carry consecutive counters and the encoder's identity", ["AsamCmp.Props.C09", "AsamCmp.Props.C09b"],
         ["AsamCmp.C09_header_bytes", "AsamCmp.C09_encode", "AsamCmp.C09_config", "AsamCmp.C09_headers", "AsamCmp.C09b.header_fields", "AsamCmp.C09b.C09_bytes"],
         ["AsamCmp.Props.C09", "AsamCmp.Props.C09b"], gen_enc.gen_c09, view=hdr_view, batch_predicate=gen_enc.batch_pred_c09,
         rule="exhaustive op sequences over a 7-letter alphabet, random 30-op histories, one history of > 65536 frames; view = first 8 bytes of every frame + reported counter"))
reg(Spec("C10", "Encoder output does not depend on earlier encode calls", ["AsamCmp.Props.C10", "AsamCmp.Props.C09b"],
         ["AsamCmp.C10_encode_any_state", "AsamCmp.C10_history_independent", "AsamCmp.C10_same_shape", "AsamCmp.C09b.C10_bytes"], ["AsamCmp.Props.C10", "AsamCmp.Props.C09b"], gen_enc.gen_c10, view=last_lines(6), predicate=gen_enc.pred_c10,
         rule="history of 1..6 earlier encode calls, then the same batch on the used and on a fresh encoder"))


reg(Spec("C02", "Decoding arbitrary bytes is memory-safe and terminates", ["AsamCmp.Props.C02", "AsamCmp.Props.C02b", "AsamCmp.Props.SrcTie", "AsamCmp.Props.SrcTieDec"],
         ["AsamCmp.C02b.validators_inbounds", "AsamCmp.C02.decode_inbounds", "AsamCmp.C02.reassembled_length_inbounds", "AsamCmp.C02.walk_count", "AsamCmp.C02.decode_count", "AsamCmp.C02.decode_payload_present", "AsamCmp.C02.decode_state_ok", "AsamCmp.C02.decode_null", "AsamCmp.C02.decode_short",
          "AsamCmp.SrcTie.can_validator_src", "AsamCmp.SrcTie.lin_validator_src", "AsamCmp.SrcTie.eth_validator_src", "AsamCmp.SrcTie.analog_validator_src", "AsamCmp.SrcTie.cm_validator_src", "AsamCmp.SrcTie.if_validator_src", "AsamCmp.SrcTie.isValidPacket_src", "AsamCmp.SrcTie.payloadLength_src", "AsamCmp.SrcTie.frame_header_src", "AsamCmp.SrcTie.isSegmented_src", "AsamCmp.SrcTie.isFirstSegment_src"], ["AsamCmp.Props.C02", "AsamCmp.Props.C02b", "AsamCmp.Props.SrcTie", "AsamCmp.Props.SrcTieDec"], gen_dec.gen_c02, view=gen_dec.structure_view,
         predicate=gen_dec.pred_c02,
         partial="'returned packets own their data after the buffer / decoder is released' is about object lifetime; observed by the harness (exact-size heap input freed before packets are read back, decoder destroyed before the last read, all under ASan), not proved",
         rule="well-formed frames of every kind truncated at every offset and with every length/type/flag field corrupted, TECMP frames of all message types, random byte strings, histories; inputs live in exact-size heap blocks freed before the packets are read back, the decoder is destroyed before the last read; view = packet count, payload length and validity, sanitizer verdict"))
reg(Spec("C04", "Decoded packets report exactly what is on the wire", ["AsamCmp.Props.C04", "AsamCmp.Props.GenChecks", "AsamCmp.Props.SrcTieDec"],
         ["AsamCmp.C04.C04_wire", "AsamCmp.C04.C04_pad", "AsamCmp.C04.C04_truncate", "AsamCmp.C04.C04_invalid_marked", "AsamCmp.GenChecks.rules_ok", "AsamCmp.GenChecks.enums_ok", "AsamCmp.GenChecks.create_dispatch_ok",
          "AsamCmp.SrcTie.isValidPacket_src", "AsamCmp.SrcTie.payloadLength_src", "AsamCmp.SrcTie.frame_header_src", "AsamCmp.SrcTie.rd_swap16_src", "AsamCmp.SrcTie.rd_swap32_src", "AsamCmp.SrcTie.rd_swap64_src"],
         ["AsamCmp.Props.C04", "AsamCmp.Props.GenChecks", "AsamCmp.Props.SrcTieDec"], gen_dec.gen_c04, predicate=gen_dec.pred_c04,
         rule="frames built from the protocol table: 0..8 messages of all kinds, consistent and inconsistent inner lengths, error flags, every truncation, zero padding, prior history"))
reg(Spec("C05", "Segmented messages reassemble under any interleaving", ["AsamCmp.Props.C05", "AsamCmp.Props.C05b", "AsamCmp.Props.GenChecks", "AsamCmp.Props.SrcTieDec"],
         ["AsamCmp.expected_payload", "AsamCmp.reassemble_single", "AsamCmp.reassemble_many", "AsamCmp.C05_interleaved", "AsamCmp.run_filter",
          "AsamCmp.C05b.segFrame_parse", "AsamCmp.C05b.C05_bytes_single", "AsamCmp.C05b.decodeAll_state", "AsamCmp.C05b.reassembled_length_wraps",
          "AsamCmp.GenChecks.validNext_ok",
          "AsamCmp.SrcTie.segType_src", "AsamCmp.SrcTie.isSegmented_src", "AsamCmp.SrcTie.isFirstSegment_src", "AsamCmp.SrcTie.validNext_src"], ["AsamCmp.Props.C05", "AsamCmp.Props.C05b", "AsamCmp.Props.GenChecks", "AsamCmp.Props.SrcTieDec"], gen_dec.gen_c05, predicate=gen_dec.pred_c05,
         rule="1..4 endpoints sharing device or stream ids, 2..6 segments of sizes {0,1,odd,max}, start counters incl. 65534/65535, trailing bytes, seeded order-preserving shuffles; all interleavings of two 3-frame streams"))
reg(Spec("C06", "Loss, duplication or reordering never yields a corrupted packet", ["AsamCmp.Props.C06", "AsamCmp.Props.C06b", "AsamCmp.Props.GenChecks", "AsamCmp.Props.SrcTieDec"],
         ["AsamCmp.fault_safe", "AsamCmp.C06_no_corruption", "AsamCmp.fault_recovery", "AsamCmp.fault_recovery_unseg", "AsamCmp.C06_no_corruption_interleaved", "AsamCmp.C06Example.nonvacuous",
          "AsamCmp.C06b.C06_bytes", "AsamCmp.C06b.C06_recovery_bytes", "AsamCmp.GenChecks.validNext_ok",
          "AsamCmp.SrcTie.validNext_src", "AsamCmp.SrcTie.frame_header_src"], ["AsamCmp.Props.C06", "AsamCmp.Props.C06b", "AsamCmp.Props.GenChecks", "AsamCmp.Props.SrcTieDec"], gen_dec.gen_c06, predicate=gen_dec.pred_c06,
         view=lambda c, l: l[-3:],
         rule="encoder output under fault scripts: single faults (drop/dup/swap/corrupt version/corrupt type) and random fault sequences, clean tail for recovery"))
reg(Spec("C15", "TECMP messages convert to equivalent ASAM CMP packets", ["AsamCmp.Props.C15"],
         ["AsamCmp.C15.hdr_length", "AsamCmp.C15.C15_can", "AsamCmp.C15.C15_lin", "AsamCmp.C15.C15_cm", "AsamCmp.C15.C15_bus", "AsamCmp.C15.C15_unsupported", "AsamCmp.C15.C15_misfit_can", "AsamCmp.C15.C15_misfit_lin", "AsamCmp.C15.C15_misfit_cm", "AsamCmp.C15.C15_misfit_bus", "AsamCmp.C15.C15_misfit_header", "AsamCmp.C15.C15_valid_payloads"], ["AsamCmp.Props.C15"], gen_dec.gen_c15, predicate=gen_dec.pred_c15,
         rule="TECMP frames from the layout table: CAN/CAN-FD/LIN of every data length, capture-module and bus status, all 256 message types, inconsistent lengths"))
reg(Spec("C17", "Decoder keeps reassembly state only for messages in progress", ["AsamCmp.Props.C17", "AsamCmp.Props.C05b", "AsamCmp.Props.C17b", "AsamCmp.Props.SrcTieDec"],
         ["AsamCmp.parseFrame_WF", "AsamCmp.localStep_refines", "AsamCmp.C17_pending_iff_open", "AsamCmp.C17_pending_bytes", "AsamCmp.C17_idle_empty", "AsamCmp.C17_support", "AsamCmp.C17_release", "AsamCmp.C17_last_releases", "AsamCmp.decode_foreign_state", "AsamCmp.C05b.decodeAll_state", "AsamCmp.C05b.C17_bytes",
          "AsamCmp.C17b.tableOk_empty", "AsamCmp.C17b.decodeLL_refines", "AsamCmp.C17b.runLL_refines", "AsamCmp.C17b.table_entries",
          "AsamCmp.SrcTie.isSegmented_src", "AsamCmp.SrcTie.isFirstSegment_src", "AsamCmp.SrcTie.validNext_src"],
         ["AsamCmp.Props.C17", "AsamCmp.Props.C05b", "AsamCmp.Props.C17b", "AsamCmp.Props.SrcTieDec"], gen_dec.gen_c17, predicate=gen_dec.pred_c17,
         rule="exhaustive histories over {unseg, first, inter, last, invalid, header-only, unseg+inter, TECMP, short} x 2 endpoints x good/bad counter; random histories; pending table read after every frame"))
reg(Spec("C18", "Endpoints are isolated from each other", ["AsamCmp.Props.C18"],
         ["AsamCmp.runT_untag", "AsamCmp.delivered_tagged", "AsamCmp.run_filter", "AsamCmp.C18_isolation", "AsamCmp.decode_foreign_state", "AsamCmp.decode_other_endpoint"], ["AsamCmp.Props.C18"], gen_dec.gen_c18, predicate=gen_dec.pred_c18,
         rule="arbitrary frame histories over 1..4 endpoints sharing device/stream ids, TECMP and short buffers mixed in; the same history projected per endpoint on separate decoders"))


reg(Spec("C11", "Setting a field changes that field and nothing else", ["AsamCmp.Props.C11", "AsamCmp.Props.GenChecks", "AsamCmp.Props.SrcFieldsA", "AsamCmp.Props.SrcFieldsB", "AsamCmp.Props.SrcFieldsC", "AsamCmp.Props.SrcFieldsD"],
         ["AsamCmp.C11.setField_length", "AsamCmp.C11.get_set_same", "AsamCmp.C11.get_set_other", "AsamCmp.C11.set_frame", "AsamCmp.C11.set_set_comm", "AsamCmp.C11.set_set_same", "AsamCmp.C11.set_get_id", "AsamCmp.C11.tables_wf", "AsamCmp.C11.tables_words_ok", "AsamCmp.C11.tables_alias_overlap", "AsamCmp.C11.C11_all_classes", "AsamCmp.GenChecks.masks_ok",
          "AsamCmp.SrcFields.cmphdr_src", "AsamCmp.SrcFields.msghdr_src", "AsamCmp.SrcFields.can_src", "AsamCmp.SrcFields.canfd_src", "AsamCmp.SrcFields.lin_src", "AsamCmp.SrcFields.eth_src", "AsamCmp.SrcFields.analog_src", "AsamCmp.SrcFields.cm_src", "AsamCmp.SrcFields.if_src", "AsamCmp.SrcFields.tecmphdr_src", "AsamCmp.SrcFields.tecmpcan_src", "AsamCmp.SrcFields.tecmplin_src", "AsamCmp.SrcFields.tecmpif_src", "AsamCmp.SrcFields.tecmpcm_src"], ["AsamCmp.Props.C11", "AsamCmp.Props.GenChecks", "AsamCmp.Props.SrcFieldsA", "AsamCmp.Props.SrcFieldsB", "AsamCmp.Props.SrcFieldsC", "AsamCmp.Props.SrcFieldsD"], gen_fld.gen_c11, predicate=gen_fld.pred_c11, selfcheck=gen_fld.selfcheck_fld,
         rule="every class x every field x {all-zero, all-ones, 2 random} backgrounds x all in-range values (exhaustive for fields <= 8 bits quick / <= 16 bits thorough, boundary + random for wider), chains of 1..8 sets; non-trivial = non-zero background or chain; predicate: raw bytes = background with exactly the written bit ranges replaced, every getter = table read",
         assumptions=["float fields travel as 32-bit patterns; NaN patterns are excluded from generation"]))
reg(Spec("C12", "Headers and payload fields use the ASAM CMP / TECMP wire layout", ["AsamCmp.Props.C11", "AsamCmp.Props.GenChecks", "AsamCmp.Props.SrcFieldsA", "AsamCmp.Props.SrcFieldsB", "AsamCmp.Props.SrcFieldsC", "AsamCmp.Props.SrcFieldsD"],
         ["AsamCmp.C11.get_is_be", "AsamCmp.C11.set_is_be", "AsamCmp.C11.defaults_ok", "AsamCmp.C11.C11_all_classes", "AsamCmp.C11.tables_wf", "AsamCmp.GenChecks.sizes_ok", "AsamCmp.GenChecks.offsets_ok", "AsamCmp.GenChecks.masks_ok", "AsamCmp.GenChecks.enums_ok", "AsamCmp.GenChecks.rules_ok",
          "AsamCmp.SrcFields.cmphdr_src", "AsamCmp.SrcFields.msghdr_src", "AsamCmp.SrcFields.can_src", "AsamCmp.SrcFields.canfd_src", "AsamCmp.SrcFields.lin_src", "AsamCmp.SrcFields.eth_src", "AsamCmp.SrcFields.analog_src", "AsamCmp.SrcFields.cm_src", "AsamCmp.SrcFields.if_src", "AsamCmp.SrcFields.tecmphdr_src", "AsamCmp.SrcFields.tecmpcan_src", "AsamCmp.SrcFields.tecmplin_src", "AsamCmp.SrcFields.tecmpif_src", "AsamCmp.SrcFields.tecmpcm_src", "AsamCmp.SrcFields.cmphdr_coverage", "AsamCmp.SrcFields.msghdr_coverage", "AsamCmp.SrcFields.can_coverage", "AsamCmp.SrcFields.canfd_coverage", "AsamCmp.SrcFields.lin_coverage", "AsamCmp.SrcFields.eth_coverage", "AsamCmp.SrcFields.analog_coverage", "AsamCmp.SrcFields.cm_coverage", "AsamCmp.SrcFields.if_coverage", "AsamCmp.SrcFields.tecmphdr_coverage", "AsamCmp.SrcFields.tecmpcan_coverage", "AsamCmp.SrcFields.tecmplin_coverage", "AsamCmp.SrcFields.tecmpif_coverage", "AsamCmp.SrcFields.tecmpcm_coverage"], ["AsamCmp.Props.C11", "AsamCmp.Props.GenChecks", "AsamCmp.Props.SrcFieldsA", "AsamCmp.Props.SrcFieldsB", "AsamCmp.Props.SrcFieldsC", "AsamCmp.Props.SrcFieldsD"], gen_fld.gen_c12, predicate=gen_fld.pred_c12,
         rule="default-constructed objects; bytes laid out by hand from the protocol table read through every getter; every field written through the API on a default object, on all-ones and random objects, and twice in a row, compared with the table's big-endian position; variable-length parts laid out by the builders on fresh and on used objects",
         assumptions=["float fields travel as 32-bit patterns; NaN patterns are excluded from generation"]))


reg(Spec("C03", "Payloads accepted by validation expose only in-bounds data", ["AsamCmp.Props.C03", "AsamCmp.Props.GenChecks", "AsamCmp.Props.SrcTie"],
         ["AsamCmp.C03.accessors_inbounds", "AsamCmp.C03.kinds_total", "AsamCmp.C03.msgValid_inbounds", "AsamCmp.C03.create_valid", "AsamCmp.C03.validator_kind", "AsamCmp.C03.decoded_accessors_inbounds", "AsamCmp.GenChecks.create_dispatch_ok",
          "AsamCmp.SrcTie.can_validator_src", "AsamCmp.SrcTie.lin_validator_src", "AsamCmp.SrcTie.eth_validator_src", "AsamCmp.SrcTie.analog_validator_src", "AsamCmp.SrcTie.cm_validator_src", "AsamCmp.SrcTie.if_validator_src", "AsamCmp.SrcTie.isValidPacket_src"], ["AsamCmp.Props.C03", "AsamCmp.Props.GenChecks", "AsamCmp.Props.SrcTie"], gen_val.gen_c03, predicate=gen_val.pred_c03, selfcheck=gen_val.selfcheck_val,
         rule="per class: every buffer length 0..header+8 x {zeros, ones, random}; every inner length field x {0, fits-1, fits, fits+1, max}; every truncation of well-formed status payloads; random content; a 65.6 KiB interface payload with count 0xFFFF; message-level buffers; accessors of decoded and TECMP-converted packets; views are touched byte by byte under ASan"))


reg(Spec("C13", "Payload builders store data faithfully and produce self-valid payloads", ["AsamCmp.Props.C13", "AsamCmp.Props.GenChecks", "AsamCmp.Props.C02b"],
         ["AsamCmp.C13.can_setData", "AsamCmp.C13.can_setData_valid", "AsamCmp.C13.can_setData_canonical", "AsamCmp.C13.dlc_iso", "AsamCmp.C13.lin_setData", "AsamCmp.C13.lin_setData_canonical", "AsamCmp.C13.eth_setData", "AsamCmp.C13.eth_setData_canonical", "AsamCmp.C13.analog_setData", "AsamCmp.C13.analog_setData_canonical", "AsamCmp.C13.cmString_spec", "AsamCmp.C13.cm_setData", "AsamCmp.C13.cm_setData_canonical", "AsamCmp.C13.if_setData", "AsamCmp.C13.if_setData_canonical", "AsamCmp.C13.defaults_valid", "AsamCmp.GenChecks.dlc_ok", "AsamCmp.C02b.builders_preserve_fields", "AsamCmp.C02b.getField_congr"], ["AsamCmp.Props.C13", "AsamCmp.Props.GenChecks", "AsamCmp.Props.C02b"], gen_bld.gen_c13, predicate=gen_bld.pred_c13, selfcheck=gen_bld.selfcheck_bld,
         rule="every data length 0..255 (CAN/CAN-FD/LIN), {0,1,2,63,64,65,1499,65529}+random (Ethernet/analog), strings 0..40/255/256/1000, id lists of every parity, on default objects and on objects that held longer/shorter/different data (chains of 2..4 setData calls); predicate: raw bytes equal the protocol-table layout of the last call's data with the earlier header fields preserved, validator and decoder accept"))


C14_THMS = ["AsamCmp.C14.copy_obs", "AsamCmp.C14.assign_obs", "AsamCmp.C14.self_assign", "AsamCmp.C14.move_obs", "AsamCmp.C14.move_assign_obs",
            "AsamCmp.C14.payloadEq_refl", "AsamCmp.C14.payloadEq_symm", "AsamCmp.C14.payloadEq_iff", "AsamCmp.C14.packetEq_refl",
            "AsamCmp.C14.packetEq_symm", "AsamCmp.C14.packetNe_not", "AsamCmp.C14.packetEq_fieldwise", "AsamCmp.C14.copy_eq", "AsamCmp.C14.assign_eq"]
reg(Spec("C14", "Packets and payloads behave as values", ["AsamCmp.Props.C14"], C14_THMS, ["AsamCmp.Props.C14"], gen_misc.gen_c14, predicate=gen_misc.pred_c14,
         rule="store of 3 packets, exhaustive sequences of copy/move/assign/move-assign over sources {no payload, zero-length payload of two types, CAN, status, two 1-byte generic}; x==x and assignment onto equal-looking targets for every corner case; aliasing scripts (mutate every field of the copy, replace its payload, destroy it, re-read the original); payload objects; all getters and ==/!= on all pairs after every step",
         partial="'a copy shares no state with its original' is observed by the harness (mutation / destruction of the copy), not proved: model values cannot alias"))
reg(Spec("C16", "Status tracker equals a per-device, per-interface latest-message map", ["AsamCmp.Props.C16"],
         ["AsamCmp.C16.inv_init", "AsamCmp.C16.inv_step", "AsamCmp.C16.abs_step", "AsamCmp.C16.status_refines", "AsamCmp.C16.entries_are_keys",
          "AsamCmp.C16.index_spec", "AsamCmp.C16.if_index_spec", "AsamCmp.C16.update_other_kind", "AsamCmp.C16.update_unknown_device",
          "AsamCmp.C16.if_key_is_payload_id"], ["AsamCmp.Props.C16"], gen_misc.gen_c16, predicate=gen_misc.pred_c16,
         view=gen_misc.c16_view,
         rule="exhaustive operation sequences up to length 3 (quick) / 4 over 3 devices x 2 interfaces x {cm, if, data} updates + removals + clear, sampled length-4/5, random 200-op histories; dump and index lookups after every operation; compared view = sorted map, vector order / indices checked against the implementation's own dump"))
reg(Spec("C19", "Separate codec instances can be used concurrently", ["AsamCmp.Props.C19"],
         ["AsamCmp.Conc.interleave_independent", "AsamCmp.Conc.schedules_equivalent", "AsamCmp.C19.C19_interleaving", "AsamCmp.C19.tecmp_stateless",
          "AsamCmp.C19.no_shared_state"], ["AsamCmp.Props.C19"], gen_rt.gen_c19, extra=gen_rt.extra_c19,
         rule="mixed workload from the encoder, decoder, TECMP, status and builder generators; single-threaded ASan run compared with the model, then the same cases distributed over 4 (quick) / 4 and 16 (thorough) threads, each with its own objects, in a ThreadSanitizer build: per-case outputs must equal the model's and TSan must stay silent",
         partial="real thread schedules, the C++ memory model and races inside libstdc++/malloc are outside the model; observed with TSan on the schedules that happen to occur"))
reg(Spec("C20", "Outputs never contain or depend on uninitialised memory", ["AsamCmp.Props.C20"],
         ["AsamCmp.C20.frame_bytes_determined", "AsamCmp.C20.frame_reserved_zero", "AsamCmp.C20.unused_ids_zero", "AsamCmp.C20.builder_canonical",
          "AsamCmp.C20.reassembly_bytes_declared", "AsamCmp.frame_length", "AsamCmp.C13.if_setData_canonical", "AsamCmp.C13.cm_setData_canonical"],
         ["AsamCmp.Props.C20"], gen_rt.gen_c20, extra=gen_rt.extra_c20,
         rule="mixed workload (all payload kinds, padded and unpadded frames, control/status/vendor headers, reassembly, TECMP conversion, builders) compared with the model under ASan's default fill, then re-run with fresh heap blocks filled with 0x00 / 0xFF (/0xA5 thorough) and the stack below the caller painted before every operation; valgrind memcheck on a subset of the plain build",
         partial="definedness of real memory (no decision depends on an uninitialised value) cannot be exhibited by a model; observed with fill patterns and valgrind on the generated workloads"))
NOT_CLAIMED.update({})


def replay(path):
    ops = []
    prop = None
    for line in open(path):
        line = line.rstrip("\n")
        if line.startswith("# property:"):
            prop = line.split(":", 1)[1].strip()
        if not line or line.startswith("#") or line.startswith("case "):
            continue
        ops.append(line)
    if not ops:
        print("replay holds no script (obligation or build break); see the notes in the file")
        print(open(path).read()[:3000])
        return 1
    hdir = core.build_harness("asan")
    ok, out = core.lake_build(["driver"])
    m = core.run_driver([("replay", ops)])[0]
    im, _ = core.run_harness(hdir, [("replay", ops)])
    same = True
    for i, o in enumerate(ops):
        a = m[i] if i < len(m) else "<none>"
        b = im[0][i] if i < len(im[0]) else "<none>"
        flag = "  " if a == b else "!!"
        if a != b:
            same = False
        print("%s op: %s" % (flag, o[:200]))
        print("   model: %s" % a[:400])
        print("   impl : %s" % b[:400])
    if len(im[0]) > len(ops):
        print("   impl : " + im[0][-1])
        same = False
    print("replay: model and implementation %s" % ("agree" if same else "DIFFER"))
    return 0 if same else 1
