"""Property registry: Lean obligations and correspondence streams per property."""
import os

from . import core, gen_enc
from .runner import Spec

SPECS = {}


def reg(spec):
    SPECS[spec.prop] = spec


def last_lines(n):
    return lambda case, lines: lines[-n:]


reg(Spec("C01", "Encode then decode returns the original packets", [], [], [], gen_enc.gen_c01,
         view=lambda c, l: l[-3:-1],
         rule="one- and two-packet batches exhaustively over small frame sizes, random batches of 1..12 packets of all payload kinds with lengths at every fit/no-fit boundary; non-trivial = batch contains a segmented packet, a message-type change or a fill-caused frame boundary; distinct by script text"))
reg(Spec("C07", "Every encoded frame is well-formed and within the size bounds", [], [], [], gen_enc.gen_c07,
         view=lambda c, l: [x for x in l if x.startswith("frames") or x.startswith("CRASH")],
         rule="as C01 plus mixed versions, empty batches and zero-length payloads; view = frame bytes"))
reg(Spec("C08", "Segmentation and aggregation follow the protocol rules", [], [], [], gen_enc.gen_c07,
         view=lambda c, l: [x for x in l if x.startswith("frames") or x.startswith("CRASH")],
         rule="as C07"))


def hdr_view(case, lines):
    out = []
    for x in lines:
        if x.startswith("frames"):
            out.append(" ".join(f[:16] for f in x.split(" ")[2:]))
        elif x.startswith("seq") or x.startswith("CRASH"):
            out.append(x)
    return out


reg(Spec("C09", "Frame headers carry consecutive counters and the encoder's identity", [], [], [], gen_enc.gen_c09, view=hdr_view,
         rule="exhaustive op sequences over a 7-letter alphabet, random 30-op histories, one history of > 65536 frames; view = first 8 bytes of every frame + reported counter"))
reg(Spec("C10", "Encoder output does not depend on earlier encode calls", [], [], [], gen_enc.gen_c10, view=last_lines(6),
         rule="history of 1..6 earlier encode calls, then the same batch on the used and on a fresh encoder"))


def replay(path):
    ops = []
    prop = None
    for line in open(path):
        line = line.rstrip("\n")
        if line.startswith("# property:"):
            prop = line.split(":", 1)[1].strip()
        if not line or line.startswith("#") or line.startswith("case "):
            continue
        ops.append(line)
    if not ops:
        print("replay holds no script (obligation or build break); see the notes in the file")
        print(open(path).read()[:3000])
        return 1
    hdir = core.build_harness("asan")
    ok, out = core.lake_build(["driver"])
    m = core.run_driver([("replay", ops)])[0]
    im, _ = core.run_harness(hdir, [("replay", ops)])
    same = True
    for i, o in enumerate(ops):
        a = m[i] if i < len(m) else "<none>"
        b = im[0][i] if i < len(im[0]) else "<none>"
        flag = "  " if a == b else "!!"
        if a != b:
            same = False
        print("%s op: %s" % (flag, o[:200]))
        print("   model: %s" % a[:400])
        print("   impl : %s" % b[:400])
    if len(im[0]) > len(ops):
        print("   impl : " + im[0][-1])
        same = False
    print("replay: model and implementation %s" % ("agree" if same else "DIFFER"))
    return 0 if same else 1
