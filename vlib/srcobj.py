"""Third output format of the C++ -> Lean translator: the methods of a *stateful* class whose members are scalars, byte vectors
(`std::vector<uint8_t>`) and lists of byte vectors (`std::vector<std::vector<uint8_t>>`) — the Encoder.

The object's state is a Lean record (one field per data member, generated from the class declaration); a method becomes a
function `State -> arguments -> Option (State x result)` (`none` = undefined behaviour or exhausted loop fuel).  Pointers into
member vectors carry their provenance statically (the template vector / the last frame) and an offset; calls through such a pointer
to the already translated header functions run on that vector's bytes and are written back; `while` loops become recursion on a
fuel argument.  A `const Packet&` parameter is opaque: only what the class reads from it appears (record `PktIn`: message type,
payload length, payload bytes, and the bytes `getRawCmpHeader` / `getRawMessageHeader` produce).
"""
import re

from .srctrans import FnTr, TU, Untranslatable, strip_cv

BYTES = ("std::vector<unsigned char>", "std::vector<uint8_t>")
FRAMES = ("std::vector<std::vector<unsigned char>>", "std::vector<std::vector<uint8_t>>")


def field_kind(fd):
    t = fd.get("type", {})
    q = strip_cv(t.get("desugaredQualType") or t.get("qualType") or "")
    if q in BYTES:
        return "bytes"
    if q in FRAMES:
        return "frames"
    if q.startswith("std::unordered_map<") or q.endswith("SegmentedPackets"):
        return "map"
    return "scalar"


class ClassInfo:
    def __init__(self, T, rec):
        self.T = T
        self.rec = rec
        self.qual = T.tu.qualname(rec)
        self.lean = T.ident(self.qual)
        self.fields = []      # (name, kind, ctype)
        for c in rec.get("inner", []):
            if c.get("kind") == "FieldDecl" and c.get("name"):
                k = field_kind(c)
                ct = None
                if k == "scalar":
                    try:
                        ct = T.ctype(c.get("type"))
                    except Untranslatable:
                        ct = None
                    if ct is None or ct[0] not in ("i", "b"):
                        continue            # a member of another type (e.g. unique_ptr<Payload>): not part of the state; methods that
                                            # touch it are untranslatable and, if they are argument-less const getters, become opaque inputs
                self.fields.append((c["name"], k, ct))
        self.by_name = {f[0]: f for f in self.fields}

    def struct(self):
        out = ["/-- state of `%s`: one field per data member -/" % self.qual, "structure %s_St where" % self.lean]
        for nm, k, ct in self.fields:
            ty = {"bytes": "Bytes", "frames": "List Bytes", "map": "SMap %s_St" % (self.elem.lean if getattr(self, "elem", None) else "Unit")}.get(k) or ("Bool" if ct[0] == "b" else "Nat")
            out.append("  f_%s : %s" % (nm, ty))
        out.append("deriving Repr, Inhabited\n")
        return "\n".join(out)


class ObjFn(FnTr):
    def __init__(self, OT, node):
        FnTr.__init__(self, OT.T, node)
        self.OT = OT
        self.cls = OT.cls
        self.prov = {}          # decl id of a local pointer / reference -> (region, offset lean expr or None)
        self.pkt = {}           # decl id of an opaque packet parameter -> lean name
        self.structs = {}       # decl id of a struct-of-scalars parameter -> {field: lean name}
        self.local_ty = {}      # lean name -> lean type, in declaration order (for loop signatures)
        self.has_fuel = False
        self.aux = []
        self.nloops = 0
        self.pktvars = {}       # decl id of a local std::shared_ptr<Packet> -> lean name (PktOut)
        self.pktlists = {}      # decl id of a local std::vector<std::shared_ptr<Packet>> -> lean name (List PktOut)
        self.locobj = {}        # decl id of a local object of the map's element class -> lean name (element state)
        self.ext_fns = []       # untranslatable static functions returning a packet list: function parameters
        self.opaque = []        # names of argument-less const getters of the same object that are outside the subset: extra inputs
        self.locrec = {}        # decl id of a local wire-record object -> lean name (Bytes)
        self.outbuf = None      # decl id of a `void*` parameter that is only a memcpy destination: the function returns those bytes

    # ------------------------------------------------------------------ entry
    def run_obj(self):
        n = self.node
        f = self.fn
        f.qual = self.tu.qualname(n)
        f.node = n
        f.lean = self.T.lean_name(n)
        qt = n.get("type", {}).get("qualType", "")
        rts = qt.split("(")[0].strip()
        if n["kind"] == "CXXConstructorDecl":
            f.ret = ("v",)
        elif strip_cv(rts) in FRAMES or "vector<vector<unsigned char>>" in rts:
            f.ret = ("frames",)
        elif "vector<std::shared_ptr<Packet>>" in rts or "vector<std::shared_ptr<ASAM::CMP::Packet>>" in rts:
            f.ret = ("pktlist",)
        elif strip_cv(rts) in ("std::shared_ptr<Packet>", "std::shared_ptr<ASAM::CMP::Packet>"):
            f.ret = ("pktptr",)
        else:
            f.ret = self.T.ctype_s(rts)
        f.params = []
        for c in n.get("inner", []):
            if c.get("kind") == "ParmVarDecl":
                q = c.get("type", {}).get("qualType", "")
                if strip_cv(q.rstrip("&").strip()) in ("ASAM::CMP::Packet", "Packet") and q.strip().endswith("&"):
                    nm = self.vname(c.get("name"), "a_")
                    if hasattr(self, "opkts"):
                        f.params.append((nm, ("opkt",)))
                        self.local_ty[nm] = "OPkt"
                        continue
                    self.pkt[c["id"]] = nm
                    f.params.append((nm, ("pkt",)))
                    self.local_ty[nm] = "PktIn"
                    continue
                if strip_cv(q) in ("void *", "void*") and self.only_memcpy_dest(c["id"], TU.body_of(n)):
                    self.outbuf = c["id"]
                    continue
                if strip_cv(q) in ("void *", "void*"):
                    nm = self.vname(c.get("name"), "a_")
                    self.locals[c["id"]] = nm
                    self.local_ty[nm] = "Nat"
                    f.params.append((nm, ("p", "unsigned char")))
                    continue
                rq = strip_cv(q.rstrip("&").strip())
                rec = None
                if q.strip().endswith("&"):
                    for r in self.tu.records():
                        qn = self.tu.qualname(r)
                        if qn == rq or qn.endswith("::" + rq):
                            rec = r
                if rec is not None:
                    # a plain struct of scalars passed by const reference: one parameter per field
                    flds = [x for x in rec.get("inner", []) if x.get("kind") == "FieldDecl" and x.get("name")]
                    m = {}
                    for x in flds:
                        ft = self.T.ctype(x.get("type"))
                        if ft[0] not in ("i", "b"):
                            raise Untranslatable("struct parameter with a non-scalar field")
                        nm = self.vname("%s_%s" % (c.get("name"), x["name"]), "a_")
                        m[x["name"]] = nm
                        self.local_ty[nm] = "Bool" if ft[0] == "b" else "Nat"
                        f.params.append((nm, ft))
                    self.structs[c["id"]] = m
                    continue
                t = self.T.ctype(c.get("type"))
                if t[0] not in ("i", "b", "p"):
                    raise Untranslatable("parameter type %s" % (t,))
                nm = self.vname(c.get("name") or self.fresh("anon"), "a_")
                self.locals[c["id"]] = nm
                self.local_ty[nm] = "Bool" if t[0] == "b" else "Nat"      # a pointer parameter is an address in the memory `m`
                f.params.append((nm, t))
        body = TU.body_of(n)
        pre = []
        if n["kind"] == "CXXConstructorDecl":
            f.ret = ("v",)
            f.lean = f.lean + "_ctor"
            for c in n.get("inner", []):
                if c.get("kind") != "CXXCtorInitializer":
                    continue
                mname = (c.get("anyInit") or {}).get("name")
                fld = self.cls.by_name.get(mname)
                if fld is None:
                    raise Untranslatable("initialiser of a member outside the state")
                e = c["inner"][0]
                if fld[1] in ("bytes", "frames"):
                    if e.get("kind") == "CXXConstructExpr" and not e.get("inner"):
                        pre.append("let s := { s with f_%s := [] }" % mname)
                        continue
                    raise Untranslatable("vector member initialiser")
                if e.get("kind") == "CXXDefaultInitExpr":
                    fd = [x for x in self.cls.rec.get("inner", []) if x.get("kind") == "FieldDecl" and x.get("name") == mname][0]
                    init = [x for x in fd.get("inner", []) if x.get("kind") not in ("FullComment",)]
                    if not init:
                        raise Untranslatable("member without default initialiser")
                    e = init[0]
                    while e.get("kind") == "InitListExpr" and len(e.get("inner", [])) == 1:
                        e = e["inner"][0]
                B0 = []
                v = self.ex(e, B0)
                pre += B0
                pre.append("let s := { s with f_%s := %s }" % (mname, v))
        code = self.block(body.get("inner", []), self.fall_off, 1)
        code = "".join("  " + x + "\n" for x in pre) + code
        if self.outbuf is not None:
            code = "  let out_ := ([] : Bytes)\n" + code
        f.body = code
        f.has_fuel = self.has_fuel
        f.aux = self.aux
        f.opaque = list(self.opaque)
        f.ext_fns = list(self.ext_fns)
        f.outbuf = self.outbuf is not None
        return f

    def only_memcpy_dest(self, did, body):
        uses = []
        self.uses_of(body, did, [], uses)
        if not uses:
            return False
        for chain in uses:
            i = len(chain) - 1
            while i >= 0 and chain[i].get("kind") in ("ImplicitCastExpr", "ParenExpr", "CStyleCastExpr", "CXXStaticCastExpr", "CXXReinterpretCastExpr"):
                i -= 1
            if i < 0 or chain[i].get("kind") != "CallExpr":
                return False
            par = chain[i]
            if self.strip_casts(par["inner"][0]).get("referencedDecl", {}).get("name") != "memcpy" or par["inner"][1] is not chain[i + 1]:
                return False
        return True

    def void_result(self):
        return "out_" if self.outbuf is not None else "()"

    def fall_off(self, ind):
        if self.fn.ret[0] == "v":
            return "  " * ind + "pure (s, %s)" % self.void_result()
        return "  " * ind + "none"

    def ret_code(self, val, ind):
        return "  " * ind + "pure (s, %s)" % self.void_result()

    def ret_code_v(self, v, ind):
        return "  " * ind + "pure (s, %s)" % v

    # ------------------------------------------------------------------ members
    def this_field(self, n):
        """(name, kind, ctype) if n is `this->member` of the class"""
        while n.get("kind") in ("ParenExpr", "ImplicitCastExpr"):
            n = n["inner"][0]
        if n.get("kind") != "MemberExpr" or not n.get("isArrow"):
            return None
        b = n["inner"][0]
        while b.get("kind") in ("ParenExpr", "ImplicitCastExpr"):
            b = b["inner"][0]
        if b.get("kind") != "CXXThisExpr":
            return None
        return self.cls.by_name.get(n.get("name"))

    def lv(self, n, B):
        f = self.this_field(n)
        if f is not None:
            if f[1] != "scalar":
                raise Untranslatable("vector member used as a scalar lvalue")
            return ("field", f[0], f[2])
        return FnTr.lv(self, n, B)

    def load(self, l, B):
        if l[0] == "field":
            return "s.f_%s" % l[1]
        return FnTr.load(self, l, B)

    def store(self, l, v, B, vt):
        if l[0] == "field":
            B.append("let s := { s with f_%s := %s }" % (l[1], v))
            return
        if l[0] == "local":
            return FnTr.store(self, l, v, B, vt)
        raise Untranslatable("store through a plain pointer in an object method")

    # ------------------------------------------------------------------ regions (member vectors)
    def region_of(self, n):
        """static provenance of an expression denoting a byte vector: ('tmpl', field) | ('back', field) or None"""
        while n.get("kind") in ("ParenExpr", "ImplicitCastExpr", "MaterializeTemporaryExpr", "ExprWithCleanups"):
            n = n["inner"][0]
        f = self.this_field(n)
        if f is not None and f[1] == "bytes":
            return ("tmpl", f[0])
        if n.get("kind") == "CXXMemberCallExpr" and len(n["inner"]) == 1:
            me = n["inner"][0]
            if me.get("kind") == "MemberExpr" and me.get("name") == "back":
                g = self.this_field(me["inner"][0])
                if g is not None and g[1] == "frames":
                    return ("back", g[0])
        if n.get("kind") == "DeclRefExpr" and n["referencedDecl"]["id"] in self.prov:
            r, off = self.prov[n["referencedDecl"]["id"]]
            if off is None:
                return r
        return None

    def rbytes(self, r):
        return "s.f_%s" % r[1] if r[0] == "tmpl" else "(lastD s.f_%s)" % r[1]

    def rstore(self, r, v, B):
        if r[0] == "tmpl":
            B.append("let s := { s with f_%s := %s }" % (r[1], v))
        else:
            B.append("let s := { s with f_%s := setLast s.f_%s %s }" % (r[1], r[1], v))

    def rguard(self, r, B):
        if r[0] == "back":
            B.append("let _ ← nonEmpty s.f_%s" % r[1])     # back() of an empty vector is undefined

    def pptr(self, n, B):
        """pointer with provenance: (region, offset lean expr), or ('pkt', name, offset) for the packet's payload, or None"""
        while (n.get("kind") in ("ParenExpr", "ImplicitCastExpr", "CXXReinterpretCastExpr", "CStyleCastExpr", "CXXStaticCastExpr") and n.get("castKind") in (None, "BitCast", "NoOp", "LValueToRValue")) \
                or n.get("kind") in ("MaterializeTemporaryExpr", "ExprWithCleanups", "CXXBindTemporaryExpr"):
            n = n["inner"][0]
        k = n.get("kind")
        if k == "DeclRefExpr" and n["referencedDecl"]["id"] in self.prov:
            r, off = self.prov[n["referencedDecl"]["id"]]
            if off is not None:
                return (r, off)
            return None
        if k == "CXXMemberCallExpr" and len(n["inner"]) == 1:
            me = n["inner"][0]
            if me.get("kind") == "MemberExpr" and me.get("name") == "data":
                r = self.region_of(me["inner"][0])
                if r is not None:
                    self.rguard(r, B)
                    return (r, "0")
            if me.get("kind") == "MemberExpr" and me.get("name") == "getRawPayload":
                # packet.getPayload().getRawPayload()
                b = me["inner"][0]
                while b.get("kind") in ("ParenExpr", "ImplicitCastExpr"):
                    b = b["inner"][0]
                if b.get("kind") == "CXXMemberCallExpr" and b["inner"][0].get("name") == "getPayload":
                    p = self.pkt_of(b["inner"][0]["inner"][0])
                    if p:
                        return (("pkt", p), "0")
        if k == "CXXMemberCallExpr" and len(n["inner"]) == 1:
            me = n["inner"][0]
            b = me.get("inner", [{}])[0] if me.get("kind") == "MemberExpr" else {}
            while b.get("kind") in ("ParenExpr", "ImplicitCastExpr"):
                b = b["inner"][0]
            if me.get("kind") == "MemberExpr" and me.get("isArrow") and b.get("kind") == "CXXThisExpr":
                try:
                    d = self.T.definition(me["referencedMemberDecl"])
                except Untranslatable:
                    d = None
                body = TU.body_of(d).get("inner", []) if d is not None else []
                if len(body) == 1 and body[0].get("kind") == "ReturnStmt" and body[0].get("inner"):
                    r = self.pptr(body[0]["inner"][0], B)
                    if r is not None:
                        return r
        if k == "UnaryOperator" and n.get("opcode") == "&":
            x = n["inner"][0]
            while x.get("kind") in ("ParenExpr",):
                x = x["inner"][0]
            if x.get("kind") == "CXXOperatorCallExpr" and self.strip_casts(x["inner"][0]).get("referencedDecl", {}).get("name") == "operator[]":
                r = self.region_of(x["inner"][1])
                if r is not None:
                    self.rguard(r, B)
                    idx = self.ex(x["inner"][2], B)
                    return (r, idx)
        if k == "BinaryOperator" and n.get("opcode") == "+":
            a, b = n["inner"]
            pa = self.pptr(a, B)
            if pa is not None:
                i = self.ex(b, B)
                return (pa[0], "(%s + %s)" % (pa[1], i))
        return None

    def pkt_of(self, n):
        while n.get("kind") in ("ParenExpr", "ImplicitCastExpr"):
            n = n["inner"][0]
        if n.get("kind") == "DeclRefExpr" and n["referencedDecl"]["id"] in self.pkt:
            return self.pkt[n["referencedDecl"]["id"]]
        return None

    # ------------------------------------------------------------------ expressions
    def ex(self, n, B):
        k = n.get("kind")
        if k == "ImplicitCastExpr" and n.get("castKind") == "LValueToRValue":
            sub = n["inner"][0]
            while sub.get("kind") == "ParenExpr":
                sub = sub["inner"][0]
            if sub.get("kind") == "CallExpr":
                return self.ex(sub, B)            # std::min / std::max return a reference to one of their arguments
            if sub.get("kind") == "UnaryOperator" and sub.get("opcode") in ("++", "--") and not sub.get("isPostfix"):
                return self.ex(sub, B)            # pre-increment yields the updated lvalue
            if sub.get("kind") == "MemberExpr" and not sub.get("isArrow"):
                b = sub["inner"][0]
                while b.get("kind") in ("ParenExpr", "ImplicitCastExpr"):
                    b = b["inner"][0]
                if b.get("kind") == "DeclRefExpr" and b["referencedDecl"]["id"] in self.structs:
                    m = self.structs[b["referencedDecl"]["id"]]
                    if sub.get("name") in m:
                        return m[sub["name"]]
        if k == "BinaryOperator" and n.get("opcode") in ("==", "!=") and any(self.strip_casts(x).get("kind") == "CXXNullPtrLiteralExpr" or x.get("castKind") == "NullToPointer" for x in n["inner"]):
            other = [x for x in n["inner"] if not (self.strip_casts(x).get("kind") == "CXXNullPtrLiteralExpr" or x.get("castKind") == "NullToPointer")][0]
            return "(%s %s 0)" % (self.ex(other, B), n["opcode"])
        if k == "CXXMemberCallExpr":
            me0 = n["inner"][0]
            while me0.get("kind") in ("ParenExpr", "ImplicitCastExpr"):
                me0 = me0["inner"][0]
            if me0.get("kind") == "MemberExpr":
                pv = self.pkt_var_of_arrow(me0["inner"][0])
                if pv is not None and me0.get("name") == "getPayloadLength" and len(n["inner"]) == 1:
                    return "(pktPayloadLength %s)" % pv
                if self.map_elem(me0["inner"][0]) is not None or (self.strip_casts(me0["inner"][0]).get("kind") == "DeclRefExpr" and self.strip_casts(me0["inner"][0])["referencedDecl"]["id"] in self.locobj):
                    r = self.elem_call(n, B)
                    if r is not None:
                        return r
        if k == "MemberExpr":
            f = self.this_field(n)
            if f is not None and f[1] == "scalar":
                return "s.f_%s" % f[0]        # bound to a const reference (std::min / std::max): its value
        if k == "DeclRefExpr" and n["referencedDecl"]["id"] in self.locals and self.ty_is_scalar(n):
            return self.locals[n["referencedDecl"]["id"]]
        if k == "CXXMemberCallExpr":
            me = n["inner"][0]
            while me.get("kind") in ("ParenExpr", "ImplicitCastExpr"):
                me = me["inner"][0]
            if me.get("kind") == "MemberExpr":
                nm = me.get("name")
                obj = me["inner"][0]
                p = self.pkt_of(obj)
                if p is not None and len(n["inner"]) == 1:
                    if nm == "getMessageType":
                        return "%s.messageType" % p
                    if nm == "getPayloadLength":
                        return "%s.payloadLength" % p
                    raise Untranslatable("packet method " + str(nm))
                f = self.this_field(obj)
                if f is not None and f[1] in ("bytes", "frames") and len(n["inner"]) == 1:
                    if nm == "empty":
                        return "(s.f_%s).isEmpty" % f[0]
                    if nm == "size":
                        return "(s.f_%s).length" % f[0]
                r = self.region_of(obj)
                if r is not None and nm == "size" and len(n["inner"]) == 1:
                    self.rguard(r, B)
                    return "(%s).length" % self.rbytes(r)
        if k == "CallExpr":
            c = self.strip_casts(n["inner"][0])
            nm = c.get("referencedDecl", {}).get("name")
            if nm in ("min", "max") and len(n["inner"]) == 3:
                a, b = self.ex(n["inner"][1], B), self.ex(n["inner"][2], B)
                return "(Nat.%s %s %s)" % (nm, a, b)
        if k == "UnaryOperator" and n.get("opcode") in ("++", "--") and not n.get("isPostfix"):
            # pre-increment used as a value
            self.effect(n, B)
            sub = n["inner"][0]
            return self.load(self.lv(sub, B), B)
        return FnTr.ex(self, n, B)

    # ------------------------------------------------------------------ packets produced by the decoder
    def is_make_shared_packet(self, n):
        while n.get("kind") in ("MaterializeTemporaryExpr", "CXXBindTemporaryExpr", "ExprWithCleanups", "ImplicitCastExpr", "CXXConstructExpr") and n.get("inner") and len(n["inner"]) == 1:
            n = n["inner"][0]
        if n.get("kind") == "CallExpr" and self.strip_casts(n["inner"][0]).get("referencedDecl", {}).get("name") == "make_shared" and len(n["inner"]) == 4:
            return n
        return None

    def packet_value(self, n, B):
        """Lean term of type PktOut for an expression of type std::shared_ptr<Packet>, or None"""
        ms = self.is_make_shared_packet(n)
        if ms is not None:
            mt = self.ex(ms["inner"][1], B)
            pp = self.pptr(ms["inner"][2], B)
            if pp is not None and pp[0][0] in ("tmpl", "back"):
                src = "(%s.drop %s)" % (self.rbytes(pp[0]), pp[1])
            else:
                self.fn.uses_mem = True
                src = "(m.drop %s)" % self.ex(ms["inner"][2], B)
            self.ex(ms["inner"][3], B)      # the size argument is evaluated (and ignored by the constructor)
            t = self.fresh()
            B.append("let %s ← mkPacket %s %s" % (t, mt, src))
            return t
        x = n
        while x.get("kind") in ("MaterializeTemporaryExpr", "CXXBindTemporaryExpr", "ExprWithCleanups", "ImplicitCastExpr", "CXXConstructExpr") and x.get("inner") and len(x["inner"]) == 1:
            x = x["inner"][0]
        if x.get("kind") == "DeclRefExpr" and x["referencedDecl"]["id"] in self.pktvars:
            return self.pktvars[x["referencedDecl"]["id"]]
        if x.get("kind") == "CXXMemberCallExpr":
            r = self.elem_call(x, B)
            if r is not None:
                return r
        return None

    def pkt_var_of_arrow(self, obj):
        """`packet->…`: CXXOperatorCallExpr operator-> on a local shared_ptr<Packet>"""
        while obj.get("kind") in ("ParenExpr", "ImplicitCastExpr"):
            obj = obj["inner"][0]
        if obj.get("kind") == "CXXOperatorCallExpr" and self.strip_casts(obj["inner"][0]).get("referencedDecl", {}).get("name") == "operator->":
            x = obj["inner"][1]
            while x.get("kind") in ("ParenExpr", "ImplicitCastExpr"):
                x = x["inner"][0]
            if x.get("kind") == "DeclRefExpr" and x["referencedDecl"]["id"] in self.pktvars:
                return self.pktvars[x["referencedDecl"]["id"]]
        return None

    # ------------------------------------------------------------------ map member
    def map_key(self, n, B):
        while n.get("kind") in ("MaterializeTemporaryExpr", "ImplicitCastExpr", "CXXBindTemporaryExpr", "CXXConstructExpr") and n.get("inner") and len(n["inner"]) == 1:
            n = n["inner"][0]
        if n.get("kind") == "InitListExpr" and len(n.get("inner", [])) == 2:
            return "(%s, %s)" % (self.ex(n["inner"][0], B), self.ex(n["inner"][1], B))
        raise Untranslatable("map key")

    def map_elem(self, n):
        """(field name, key node) if n is `this->map[key]`"""
        while n.get("kind") in ("ParenExpr", "ImplicitCastExpr", "MaterializeTemporaryExpr"):
            n = n["inner"][0]
        if n.get("kind") == "CXXOperatorCallExpr" and self.strip_casts(n["inner"][0]).get("referencedDecl", {}).get("name") == "operator[]":
            f = self.this_field(n["inner"][1])
            if f is not None and f[1] == "map":
                return f[0], n["inner"][2]
        return None

    def elem_call(self, n, B):
        """`this->map[key].method(args)`: index (default-inserting), run the element class's translated method, store the element back"""
        me = n["inner"][0]
        while me.get("kind") in ("ParenExpr", "ImplicitCastExpr"):
            me = me["inner"][0]
        if me.get("kind") != "MemberExpr":
            return None
        el = self.map_elem(me["inner"][0])
        tgt = None
        if el is None:
            b = me["inner"][0]
            while b.get("kind") in ("ParenExpr", "ImplicitCastExpr"):
                b = b["inner"][0]
            if b.get("kind") == "DeclRefExpr" and b["referencedDecl"]["id"] in self.locobj:
                tgt = self.locobj[b["referencedDecl"]["id"]]
            else:
                return None
        EO = self.OT.elem
        d = self.T.definition(me["referencedMemberDecl"])
        g = EO.translate(d)
        argv = [self.ex(a, B) for a in n["inner"][1:]]
        if g.uses_mem:
            self.fn.uses_mem = True
            argv = ["m"] + argv
        r = self.fresh()
        if el is not None:
            fname, keyn = el
            key = self.map_key(keyn, B)
            e = self.fresh("el")
            B.append("let (mp_, %s) := mapIndex s.f_%s %s %s_default" % (e, fname, key, EO.cls.lean))
            B.append("let s := { s with f_%s := mp_ }" % fname)
            B.append("let (%s, %s) ← %s_obj %s %s" % (e, r, g.lean, e, " ".join(argv)))
            B.append("let s := { s with f_%s := mapPut s.f_%s %s %s }" % (fname, fname, key, e))
        else:
            B.append("let (%s, %s) ← %s_obj %s %s" % (tgt, r, g.lean, tgt, " ".join(argv)))
        return r

    def ty_is_scalar(self, n):
        try:
            return self.ty(n)[0] in ("i", "b")
        except Untranslatable:
            return False

    # ------------------------------------------------------------------ calls
    def call(self, n, B, want_value):
        inner = n["inner"]
        if n["kind"] == "CXXMemberCallExpr":
            me = inner[0]
            while me.get("kind") in ("ParenExpr", "ImplicitCastExpr"):
                me = me["inner"][0]
            if me.get("kind") == "MemberExpr":
                pv = self.pkt_var_of_arrow(me["inner"][0])
                if pv is not None and me.get("name") in ("setVersion", "setDeviceId", "setStreamId") and len(inner) == 2:
                    fld = {"setVersion": "version", "setDeviceId": "deviceId", "setStreamId": "streamId"}[me["name"]]
                    B.append("let %s := { %s with %s := %s }" % (pv, pv, fld, self.ex(inner[1], B)))
                    return None
                b0 = me["inner"][0]
                while b0.get("kind") in ("ParenExpr", "ImplicitCastExpr"):
                    b0 = b0["inner"][0]
                if b0.get("kind") == "DeclRefExpr" and b0["referencedDecl"]["id"] in self.pktlists and me.get("name") == "push_back" and len(inner) == 2:
                    pvv = self.packet_value(inner[1], B)
                    if pvv is None:
                        raise Untranslatable("push_back argument")
                    lst = self.pktlists[b0["referencedDecl"]["id"]]
                    B.append("let %s := %s ++ [%s]" % (lst, lst, pvv))
                    return None
                f0 = self.this_field(me["inner"][0])
                if f0 is not None and f0[1] == "map" and me.get("name") == "erase" and len(inner) == 2:
                    B.append("let s := { s with f_%s := mapErase s.f_%s %s }" % (f0[0], f0[0], self.map_key(inner[1], B)))
                    return None
                if self.map_elem(me["inner"][0]) is not None or (b0.get("kind") == "DeclRefExpr" and b0["referencedDecl"]["id"] in self.locobj):
                    r = self.elem_call(n, B)
                    if r is not None:
                        return r
                obj = me["inner"][0]
                base = obj
                while base.get("kind") in ("ParenExpr", "ImplicitCastExpr"):
                    base = base["inner"][0]
                nm = me.get("name")
                # --- method of the same object
                if base.get("kind") == "CXXThisExpr" and me.get("isArrow"):
                    d = self.T.definition(me["referencedMemberDecl"])
                    try:
                        g = self.OT.translate(d)
                    except Untranslatable:
                        qt = d.get("type", {}).get("qualType", "")
                        nparams = len([c for c in d.get("inner", []) if c.get("kind") == "ParmVarDecl"])
                        try:
                            rt = self.T.ctype_s(qt.split("(")[0].strip())
                        except Untranslatable:
                            rt = None
                        if nparams == 0 and qt.rstrip().endswith("const") and rt is not None and rt[0] in ("i", "b"):
                            nm2 = "g_" + re.sub(r"[^A-Za-z0-9_]", "_", d.get("name", "x"))
                            if nm2 not in self.opaque:
                                self.opaque.append(nm2)
                                self.local_ty[nm2] = "Bool" if rt[0] == "b" else "Nat"
                            return nm2
                        raise
                    for o in g.opaque:
                        if o not in self.opaque:
                            self.opaque.append(o)
                            self.local_ty[o] = "Nat"
                    argv = []
                    for a in inner[1:]:
                        p = self.pkt_of(a)
                        a2 = a
                        while a2.get("kind") in ("ParenExpr", "ImplicitCastExpr"):
                            a2 = a2["inner"][0]
                        if p is not None:
                            argv.append(p)
                        elif a2.get("kind") == "DeclRefExpr" and a2["referencedDecl"]["id"] in self.structs:
                            argv += list(self.structs[a2["referencedDecl"]["id"]].values())
                        else:
                            argv.append(self.ex(a, B))
                    if len(argv) != len(g.params):
                        raise Untranslatable("argument count")
                    if g.has_fuel:
                        self.has_fuel = True
                    if g.uses_mem:
                        self.fn.uses_mem = True
                        argv = ["m"] + argv
                    callc = "%s %ss %s %s" % (g.lean + "_obj", "fuel " if g.has_fuel else "", " ".join(argv), " ".join(g.opaque))
                    if g.ret[0] == "v":
                        B.append("let (s, _) ← %s" % callc)
                        return None
                    r = self.fresh()
                    B.append("let (s, %s) ← %s" % (r, callc))
                    return r
                # --- method of a local wire-record object
                if base.get("kind") == "DeclRefExpr" and base["referencedDecl"]["id"] in self.locrec and not me.get("isArrow"):
                    lname, _q = self.locrec[base["referencedDecl"]["id"]]
                    d = self.T.definition(me["referencedMemberDecl"])
                    g = self.T.translate_fn(d)
                    if not g.has_this or g.uses_pd or g.outs:
                        raise Untranslatable("callee shape")
                    argv = [self.ex(a, B) for a in inner[1:]]
                    if g.writes:
                        if g.ret[0] != "v":
                            raise Untranslatable("writing callee with a result")
                        B.append("let %s ← %s %s 0 %s" % (lname, g.lean, lname, " ".join(argv)))
                        return None
                    t = self.fresh()
                    B.append("let %s ← %s %s 0 %s" % (t, g.lean, lname if g.uses_mem else "", " ".join(argv)))
                    return t
                # --- packet writes its raw headers through a provenance pointer
                p = self.pkt_of(obj)
                if p is not None and nm in ("getRawCmpHeader", "getRawMessageHeader") and len(inner) == 2:
                    dst = self.pptr(inner[1], B)
                    if dst is None:
                        raise Untranslatable("destination of " + nm)
                    src, cnt = ("%s.rawCmpHeader" % p, 8) if nm == "getRawCmpHeader" else ("%s.rawMsgHeader" % p, 16)
                    t = self.fresh()
                    B.append("let %s ← wrBytes %s %s %s %d" % (t, self.rbytes(dst[0]), dst[1], src, cnt))
                    self.rstore(dst[0], t, B)
                    return None
                # --- vector member operations
                f = self.this_field(obj)
                if f is not None and f[1] == "bytes":
                    if nm == "clear" and len(inner) == 1:
                        B.append("let s := { s with f_%s := [] }" % f[0])
                        return None
                    if nm == "resize" and len(inner) in (2, 3):
                        if len(inner) == 3 and self.const_int(inner[2]) != 0:
                            raise Untranslatable("resize with a non-zero fill")
                        B.append("let s := { s with f_%s := resize s.f_%s %s }" % (f[0], f[0], self.ex(inner[1], B)))
                        return None
                if f is not None and f[1] == "frames":
                    if nm == "clear" and len(inner) == 1:
                        B.append("let s := { s with f_%s := [] }" % f[0])
                        return None
                    if nm == "pop_back" and len(inner) == 1:
                        B.append("let _ ← nonEmpty s.f_%s" % f[0])
                        B.append("let s := { s with f_%s := (s.f_%s).dropLast }" % (f[0], f[0]))
                        return None
                    if nm == "push_back" and len(inner) == 2:
                        g = self.this_field(inner[1])
                        if g is None or g[1] != "bytes":
                            raise Untranslatable("push_back argument")
                        B.append("let s := { s with f_%s := s.f_%s ++ [s.f_%s] }" % (f[0], f[0], g[0]))
                        return None
                # --- resize of the last frame
                r = self.region_of(obj)
                if r is not None and nm == "resize" and len(inner) in (2, 3):
                    if len(inner) == 3 and self.const_int(inner[2]) != 0:
                        raise Untranslatable("resize with a non-zero fill")
                    self.rguard(r, B)
                    nsz = self.ex(inner[1], B)
                    self.rstore(r, "(resize %s %s)" % (self.rbytes(r), nsz), B)
                    return None
                # --- call of a translated (byte-level) function through a provenance pointer
                pp = self.pptr(obj, B) if me.get("isArrow") else None
                if pp is not None and pp[0][0] in ("tmpl", "back"):
                    d = self.T.definition(me["referencedMemberDecl"])
                    g = self.T.translate_fn(d)
                    if not g.has_this or g.uses_pd or g.outs:
                        raise Untranslatable("callee shape")
                    argv = [self.ex(a, B) for a in inner[1:]]
                    if g.writes:
                        if g.ret[0] != "v":
                            raise Untranslatable("writing callee with a result")
                        t = self.fresh()
                        B.append("let %s ← %s %s %s %s" % (t, g.lean, self.rbytes(pp[0]), pp[1], " ".join(argv)))
                        self.rstore(pp[0], t, B)
                        return None
                    t = self.fresh()
                    B.append("let %s ← %s %s %s %s" % (t, g.lean, self.rbytes(pp[0]) if g.uses_mem else "", pp[1], " ".join(argv)))
                    return t
        elif n["kind"] == "CallExpr":
            c = self.strip_casts(inner[0])
            nm = c.get("referencedDecl", {}).get("name")
            if nm == "memcpy" and len(inner) == 4 and self.outbuf is not None:
                d0 = inner[1]
                while d0.get("kind") in ("ImplicitCastExpr", "ParenExpr", "CStyleCastExpr", "CXXStaticCastExpr", "CXXReinterpretCastExpr"):
                    d0 = d0["inner"][0]
                s0 = inner[2]
                while s0.get("kind") in ("ImplicitCastExpr", "ParenExpr", "CStyleCastExpr", "CXXStaticCastExpr", "CXXReinterpretCastExpr"):
                    s0 = s0["inner"][0]
                if d0.get("kind") == "DeclRefExpr" and d0["referencedDecl"]["id"] == self.outbuf and s0.get("kind") == "UnaryOperator" and s0.get("opcode") == "&":
                    t0 = s0["inner"][0]
                    if t0.get("kind") == "DeclRefExpr" and t0["referencedDecl"]["id"] in self.locrec:
                        lname, _q = self.locrec[t0["referencedDecl"]["id"]]
                        cnt = self.ex(inner[3], B)
                        B.append("let out_ ← takeExact %s %s" % (lname, cnt))
                        return None
                raise Untranslatable("memcpy to the output buffer outside the supported shape")
            if nm == "memcpy" and len(inner) == 4:
                dst = self.pptr(inner[1], B)
                src = self.pptr(inner[2], B)
                if dst is None or dst[0][0] not in ("tmpl", "back"):
                    raise Untranslatable("memcpy outside the supported shapes")
                if src is not None and src[0][0] == "pkt":
                    srcb = "(%s.rawPayload.drop %s)" % (src[0][1], src[1])
                elif src is None:
                    # a plain pointer: an address in the memory `m` (the caller's input buffer)
                    self.fn.uses_mem = True
                    srcb = "(m.drop %s)" % self.ex(inner[2], B)
                else:
                    raise Untranslatable("memcpy between member vectors")
                cnt = self.ex(inner[3], B)
                t = self.fresh()
                B.append("let %s ← wrBytes %s %s %s %s" % (t, self.rbytes(dst[0]), dst[1], srcb, cnt))
                self.rstore(dst[0], t, B)
                return None
        # a pure translated function (no memory, no this-state): e.g. buildSegmentationFlag is a method: handled above; others:
        return FnTr.call(self, n, B, want_value)

    # ------------------------------------------------------------------ statements
    def effect(self, s, B):
        k = s.get("kind")
        if k in ("ExprWithCleanups", "ParenExpr"):
            return self.effect(s["inner"][0], B)
        if k == "CXXOperatorCallExpr" and self.strip_casts(s["inner"][0]).get("referencedDecl", {}).get("name") == "operator=" and len(s["inner"]) == 3:
            lhs, rhs = s["inner"][1], s["inner"][2]
            l0 = lhs
            while l0.get("kind") in ("ParenExpr", "ImplicitCastExpr"):
                l0 = l0["inner"][0]
            if l0.get("kind") == "DeclRefExpr" and l0["referencedDecl"]["id"] in self.pktvars:
                pv = self.packet_value(rhs, B)
                if pv is None:
                    raise Untranslatable("assignment to a packet pointer")
                B.append("let %s := %s" % (self.pktvars[l0["referencedDecl"]["id"]], pv))
                return
            el = self.map_elem(lhs)
            if el is not None:
                # this->map[key] = std::move(localObject)
                r0 = rhs
                while r0.get("kind") in ("ParenExpr", "ImplicitCastExpr", "MaterializeTemporaryExpr", "CXXBindTemporaryExpr", "ExprWithCleanups"):
                    r0 = r0["inner"][0]
                if r0.get("kind") == "CallExpr" and self.strip_casts(r0["inner"][0]).get("referencedDecl", {}).get("name") == "move":
                    r0 = r0["inner"][1]
                    while r0.get("kind") in ("ParenExpr", "ImplicitCastExpr"):
                        r0 = r0["inner"][0]
                if r0.get("kind") == "DeclRefExpr" and r0["referencedDecl"]["id"] in self.locobj:
                    key = self.map_key(el[1], B)
                    B.append("let (mp_, _) := mapIndex s.f_%s %s %s_default" % (el[0], key, self.OT.elem.cls.lean))
                    B.append("let s := { s with f_%s := mapPut mp_ %s %s }" % (el[0], key, self.locobj[r0["referencedDecl"]["id"]]))
                    return
                raise Untranslatable("assignment to a map element")
        if k in ("CXXMemberCallExpr", "CallExpr"):
            self.call(s, B, want_value=False)
            return
        return FnTr.effect(self, s, B)

    def stmt(self, s, k, ind):
        kind = s.get("kind")
        pad = "  " * ind
        if kind == "DeclStmt":
            B = []
            for d in s.get("inner", []):
                if d.get("kind") != "VarDecl":
                    raise Untranslatable("declaration")
                init = [c for c in d.get("inner", []) if c.get("kind") not in ("FullComment",)]
                if not init:
                    raise Untranslatable("uninitialised local")
                e = init[0]
                qd0 = strip_cv((d.get("type", {}).get("qualType") or ""))
                if qd0 in ("std::shared_ptr<Packet>", "std::shared_ptr<ASAM::CMP::Packet>") or (qd0 == "auto" and self.is_make_shared_packet(e) is not None) or \
                        strip_cv((d.get("type", {}).get("desugaredQualType") or "")) in ("std::shared_ptr<ASAM::CMP::Packet>",):
                    nm = self.vname(d["name"])
                    self.pktvars[d["id"]] = nm
                    self.local_ty[nm] = "PktOut"
                    pv = self.packet_value(e, B) if (e.get("inner") or e.get("kind") != "CXXConstructExpr") else None
                    B.append("let %s := %s" % (nm, pv if pv is not None else "(default : PktOut)"))    # a null pointer is never dereferenced on a translated path... see DESIGN
                    continue
                if "vector<std::shared_ptr<Packet>>" in qd0 or "vector<std::shared_ptr<ASAM::CMP::Packet>>" in qd0:
                    if e.get("kind") == "CXXConstructExpr" and not e.get("inner"):
                        nm = self.vname(d["name"])
                        self.pktlists[d["id"]] = nm
                        self.local_ty[nm] = "List PktOut"
                        B.append("let %s := ([] : List PktOut)" % nm)
                        continue
                    raise Untranslatable("packet list initialiser")
                EO = getattr(self.OT, "elem", None)
                if EO is not None and e.get("kind") == "CXXConstructExpr" and (qd0 == EO.cls.qual or EO.cls.qual.endswith("::" + qd0) or qd0.endswith(EO.cls.qual.split("::")[-1])):
                    ctor = e.get("ctorType", {})
                    # constructor with arguments: find it by its argument count among the element class's translated constructors
                    args = e.get("inner", [])
                    cands = [g for g in EO.order if g.lean.endswith("_ctor") and len(g.params) == len(args)]
                    if not cands:
                        EO.run_ctors()
                        cands = [g for g in EO.order if g.lean.endswith("_ctor") and len(g.params) == len(args)]
                    if len(cands) != 1:
                        raise Untranslatable("constructor of the element class")
                    g = cands[0]
                    argv = [self.ex(a, B) for a in args]
                    if g.uses_mem:
                        self.fn.uses_mem = True
                        argv = ["m"] + argv
                    nm = self.vname(d["name"])
                    self.locobj[d["id"]] = nm
                    self.local_ty[nm] = "%s_St" % EO.cls.lean
                    B.append("let (%s, _) ← %s_obj %s_default %s" % (nm, g.lean, EO.cls.lean, " ".join(argv)))
                    continue
                # local object of a wire record type, default-initialised
                qd = strip_cv((d.get("type", {}).get("desugaredQualType") or d.get("type", {}).get("qualType") or ""))
                if e.get("kind") == "CXXConstructExpr" and not e.get("inner"):
                    dq = [k for k in self.T.layout.default if k == qd or k.endswith("::" + qd)]
                    if len(dq) == 1:
                        nm = self.vname(d["name"])
                        self.locrec[d["id"]] = (nm, dq[0])
                        self.local_ty[nm] = "Bytes"
                        B.append("let %s := ([%s] : Bytes)" % (nm, ", ".join(str(x) for x in self.T.layout.default[dq[0]])))
                        continue
                # reference to the last frame
                r = self.region_of(e)
                q = d.get("type", {}).get("qualType", "")
                if r is not None and (q.strip().endswith("&") or "alloc_traits" in q):
                    self.rguard(r, B)
                    self.prov[d["id"]] = (r, None)
                    continue
                # moved-out list of frames
                x = e
                while x.get("kind") in ("CXXConstructExpr", "ImplicitCastExpr", "MaterializeTemporaryExpr", "ExprWithCleanups", "CXXBindTemporaryExpr") and x.get("inner"):
                    x = x["inner"][0]
                if x.get("kind") == "CallExpr" and self.strip_casts(x["inner"][0]).get("referencedDecl", {}).get("name") == "move":
                    f = self.this_field(x["inner"][1])
                    if f is not None and f[1] == "frames":
                        nm = self.vname(d["name"])
                        self.locals[d["id"]] = nm
                        self.local_ty[nm] = "List Bytes"
                        B.append("let %s := s.f_%s" % (nm, f[0]))
                        B.append("let s := { s with f_%s := [] }" % f[0])      # the moved-from vector is left empty
                        continue
                # pointer with provenance
                pp = self.pptr(e, B)
                if pp is not None:
                    off = self.vname(d["name"]) + "_off"
                    B.append("let %s := %s" % (off, pp[1]))
                    self.prov[d["id"]] = (pp[0], off)
                    self.local_ty[off] = "Nat"
                    continue
                t = self.T.ctype(d.get("type"))
                if t[0] not in ("i", "b", "p"):
                    raise Untranslatable("local of type %s" % (t,))
                nm = self.vname(d["name"])
                v = self.ex(e, B)          # a pointer without provenance is an address in the memory `m`
                self.locals[d["id"]] = nm
                self.local_ty[nm] = "Bool" if t[0] == "b" else "Nat"
                B.append("let %s := %s" % (nm, v))
            return self.with_binds(B, k(ind), ind)
        if kind == "WhileStmt":
            return self.while_stmt(s, k, ind)
        if kind == "IfStmt" and not self.contains(s, ("ReturnStmt", "WhileStmt", "BreakStmt")) and not s.get("hasInit") and not s.get("hasVar"):
            # branches that only update the state and scalar locals are JOINED (the code after the `if` is emitted once):
            #   let (s, v…) ← (if c then (do …; pure (s, v…)) else (do …; pure (s, v…)))
            inner = s["inner"]
            did_of = {v: kk for kk, v in self.locals.items()}
            objish = set(self.pktvars.values()) | set(self.pktlists.values())
            assigned = [nm for nm in self.local_ty if (nm in did_of and any(self.assigns(b, did_of[nm]) for b in inner[1:])) or nm in objish]
            tup = "(s%s)" % "".join(", " + a for a in assigned)
            B = []
            c = self.cond(inner[0], B)
            saved_l, saved_t, saved_p = dict(self.locals), dict(self.local_ty), dict(self.prov)
            th = self.stmt(inner[1], lambda i2: "  " * i2 + "pure %s" % tup, ind + 2)
            self.locals, self.local_ty, self.prov = dict(saved_l), dict(saved_t), dict(saved_p)
            el = self.stmt(inner[2], lambda i2: "  " * i2 + "pure %s" % tup, ind + 2) if len(inner) > 2 else "  " * (ind + 2) + "pure %s" % tup
            self.locals, self.local_ty, self.prov = saved_l, saved_t, saved_p
            code = "%slet %s ← (if %s then (do\n%s)\n%s  else (do\n%s))\n" % (pad, tup, c, th, pad, el)
            return self.with_binds(B, code + k(ind), ind)
        if kind == "ReturnStmt" and s.get("inner") and self.fn.ret[0] in ("pktlist", "pktptr"):
            x = s["inner"][0]
            while x.get("kind") in ("CXXConstructExpr", "ImplicitCastExpr", "MaterializeTemporaryExpr", "ExprWithCleanups", "CXXBindTemporaryExpr") and x.get("inner") and len(x["inner"]) == 1:
                x = x["inner"][0]
            if self.fn.ret[0] == "pktptr":
                B = []
                pv = self.packet_value(s["inner"][0], B)
                if pv is None:
                    raise Untranslatable("returned packet")
                return self.with_binds(B, pad + "pure (s, %s)" % pv, ind)
            if x.get("kind") == "CXXConstructExpr" and not x.get("inner"):
                return pad + "pure (s, [])"
            if x.get("kind") == "DeclRefExpr" and x["referencedDecl"]["id"] in self.pktlists:
                return pad + "pure (s, %s)" % self.pktlists[x["referencedDecl"]["id"]]
            if x.get("kind") == "CallExpr":
                c = self.strip_casts(x["inner"][0])
                nm = "ext_" + re.sub(r"[^A-Za-z0-9_]", "_", c.get("referencedDecl", {}).get("name", "f"))
                B = []
                argv = [self.ex(a, B) for a in x["inner"][1:]]
                if len(argv) != 2:
                    raise Untranslatable("external packet-list function")
                if nm not in self.ext_fns:
                    self.ext_fns.append(nm)
                self.fn.uses_mem = True
                return self.with_binds(B, pad + "pure (s, %s m %s)" % (nm, " ".join(argv)), ind)
            raise Untranslatable("returned packet list")
        if kind == "ReturnStmt" and s.get("inner"):
            # returning the moved-out frames
            x = s["inner"][0]
            while x.get("kind") in ("CXXConstructExpr", "ImplicitCastExpr", "MaterializeTemporaryExpr", "ExprWithCleanups", "CXXBindTemporaryExpr") and x.get("inner"):
                x = x["inner"][0]
            if x.get("kind") == "DeclRefExpr" and x["referencedDecl"]["id"] in self.locals and self.fn.ret[0] == "frames":
                return pad + "pure (s, %s)" % self.locals[x["referencedDecl"]["id"]]
        return FnTr.stmt(self, s, k, ind)

    def while_stmt(self, s, k, ind):
        cond, body = s["inner"][0], s["inner"][1]
        if self.contains(body, ("ContinueStmt", "ReturnStmt")):
            raise Untranslatable("continue / return inside a loop")
        self.has_fuel = True
        self.nloops += 1
        name = "%s_loop%d" % (self.T.lean_name(self.node), self.nloops)
        live = list(self.local_ty.items())              # everything in scope, in declaration order
        did_of = {v: kk for kk, v in self.locals.items()}
        objish = set(self.pktvars.values()) | set(self.pktlists.values())
        assigned = [nm for nm, _ in live if (nm in did_of and self.assigns(body, did_of[nm])) or nm in objish]
        params = " ".join("(%s : %s)" % (nm, ty) for nm, ty in live)
        args = " ".join(nm for nm, _ in live)
        ret_tuple = "(s%s)" % "".join(", " + a for a in assigned)
        ret_ty = "%s_St%s" % (self.cls.lean, "".join(" × " + dict(live)[a] for a in assigned))
        B = []
        c = self.cond(cond, B)
        saved_ty = dict(self.local_ty)
        self.break_k.append(lambda i2: "  " * i2 + "pure %s" % ret_tuple)        # `break` leaves the loop with the current values
        body_code = self.stmt(body, lambda i2: "  " * i2 + "%s fuel s ⟪M⟫%s" % (name, args), 3)
        self.break_k.pop()
        self.local_ty = saved_ty
        mem = bool(self.fn.uses_mem)
        body_code = body_code.replace("⟪M⟫", "m " if mem else "")
        if mem:
            params = "(m : Bytes) " + params
            args = "m " + args
        code = ["def %s (fuel : Nat) (s : %s_St) %s : Option (%s) :=" % (name, self.cls.lean, params, ret_ty),
                "  match fuel with",
                "  | 0 => none",
                "  | fuel + 1 => do"]
        code += ["    " + b for b in B]
        code.append("    if %s then" % c)
        code.append(body_code)
        code.append("    else")
        code.append("      pure %s" % ret_tuple)
        self.aux.append("\n".join(code) + "\n")
        pad = "  " * ind
        return pad + "let %s ← %s fuel s %s\n" % (ret_tuple, name, args) + k(ind)


class ObjTranslator:
    def __init__(self, T, class_qual, elem=None):
        self.T = T
        self.elem = elem          # translator of the element class of a map member
        rec = None
        for r in T.tu.records():
            if T.tu.qualname(r) == class_qual:
                rec = r
        if rec is None:
            raise Untranslatable("class %s not found" % class_qual)
        self.cls = ClassInfo(T, rec)
        self.cls.elem = elem.cls if elem is not None else None
        self.fns = {}
        self.order = []
        self.failed = {}

    def translate(self, defnode):
        key = id(defnode)
        if key in self.fns:
            f = self.fns[key]
            if isinstance(f, Untranslatable):
                raise f
            if f is None:
                raise Untranslatable("recursive call")
            return f
        self.fns[key] = None
        try:
            f = ObjFn(self, defnode).run_obj()
        except Untranslatable as e:
            self.fns[key] = e
            self.failed[self.T.tu.qualname(defnode)] = str(e)
            raise
        self.fns[key] = f
        self.order.append(f)
        return f

    def run(self):
        for n in self.T.all_functions():
            ctx = self.T.tu.context(n)
            if n["kind"] in ("CXXMethodDecl",) and ctx is not None and self.T.tu.qualname(ctx) == self.cls.qual:
                try:
                    self.translate(n)
                except Untranslatable:
                    pass
                except (KeyError, IndexError, TypeError, AttributeError, ValueError, AssertionError) as e:
                    self.failed[self.T.tu.qualname(n)] = "unexpected AST shape %r" % (e,)

    def run_ctors(self):
        for lst in self.T.tu.nodes.values():
            for n in lst:
                if n["kind"] == "CXXConstructorDecl" and TU.body_of(n) is not None and not n.get("isImplicit"):
                    ctx = self.T.tu.context(n)
                    if ctx is not None and self.T.tu.qualname(ctx) == self.cls.qual and any(c.get("kind") == "ParmVarDecl" for c in n.get("inner", [])):
                        try:
                            self.translate(n)
                        except Untranslatable:
                            pass
                        except (KeyError, IndexError, TypeError, AttributeError, ValueError, AssertionError) as e:
                            self.failed[self.T.tu.qualname(n) + " (constructor)"] = "unexpected AST shape %r" % (e,)

    def default_state(self):
        """the state a defaulted constructor leaves: the members' default initialisers"""
        h = ObjFn(self, self.cls.rec)
        vals = []
        for nm, k, ct in self.cls.fields:
            if k in ("bytes", "frames", "map"):
                vals.append("f_%s := []" % nm)
                continue
            fd = [x for x in self.cls.rec.get("inner", []) if x.get("kind") == "FieldDecl" and x.get("name") == nm][0]
            init = [x for x in fd.get("inner", []) if x.get("kind") not in ("FullComment",)]
            if not init:
                raise Untranslatable("member %s without default initialiser" % nm)
            B = []
            e0 = init[0]
            while e0.get("kind") in ("InitListExpr", "CXXFunctionalCastExpr", "ImplicitCastExpr", "ConstantExpr") and e0.get("kind") == "InitListExpr" and len(e0.get("inner", [])) == 1:
                e0 = e0["inner"][0]
            if e0.get("kind") == "InitListExpr" and not e0.get("inner"):
                v = "0"
            else:
                v = h.ex(e0, B)
            if B:
                raise Untranslatable("default initialiser with effects")
            vals.append("f_%s := %s" % (nm, v))
        return "def %s_default : %s_St := { %s }\n" % (self.cls.lean, self.cls.lean, ", ".join(vals))

    def emit(self):
        out = [self.cls.struct()]
        try:
            out.append(self.default_state())
        except Untranslatable:
            pass
        for f in self.order:
            for a in f.aux:
                out.append(a)
            ps = []
            for nm, t in f.params:
                ps.append("(%s : %s)" % (nm, "PktIn" if t[0] == "pkt" else ("OPkt" if t[0] == "opkt" else ("Bool" if t[0] == "b" else "Nat"))))
            rt = {"v": "Unit", "b": "Bool", "frames": "List Bytes", "pktlist": "List PktOut", "pktptr": "PktOut"}.get(f.ret[0], "Nat")
            for e_ in getattr(f, "ext_fns", []):
                ps.append("(%s : Bytes → Nat → Nat → List PktOut)" % e_)
            if getattr(f, "outbuf", False):
                rt = "Bytes"
            for o in getattr(f, "opaque", []):
                ps.append("(%s : Nat)" % o)
            out.append("/-- `%s` -/" % f.qual)
            if f.uses_mem:
                ps.insert(0, "(m : Bytes)")
            out.append("def %s_obj %s(s : %s_St) %s : Option (%s_St × %s) := do" % (f.lean, "(fuel : Nat) " if f.has_fuel else "", self.cls.lean,
                                                                                    " ".join(ps), self.cls.lean, rt))
            out.append(f.body)
            out.append("")
        out.append("def %s_untranslated : List (String × String) := [%s]" % (
            self.cls.lean, ", ".join('("%s", "%s")' % (k, v.replace('"', "'")[:100]) for k, v in sorted(self.failed.items()))))
        return "\n".join(out) + "\n"


# =====================================================================================================================
# Status tracker: classes whose members are vectors of objects of another translated class and stored packets.
# A stored / passed `Packet` is OPAQUE here: `OPkt` is the table of the values its getter chains return
# (`opq p "getDeviceId"`, `opq p "getPayload.getType"`, `opq p "getPayload.as_InterfacePayload.getInterfaceId"`).
# =====================================================================================================================

def st_field_kind(T, fd):
    t = fd.get("type", {})
    q = strip_cv(t.get("desugaredQualType") or t.get("qualType") or "")
    m = re.fullmatch(r"std::vector<(.*?)(?:, std::allocator<.*>)?>", q)
    if m and m.group(1) not in ("unsigned char", "uint8_t"):
        return ("objvec", m.group(1))
    if q in ("ASAM::CMP::Packet", "Packet"):
        return ("opkt", None)
    return ("scalar", None)


class StClassInfo(ClassInfo):
    def __init__(self, T, rec, elem=None):
        self.T = T
        self.rec = rec
        self.elem = elem
        self.qual = T.tu.qualname(rec)
        self.lean = T.ident(self.qual)
        self.fields = []
        for c in rec.get("inner", []):
            if c.get("kind") == "FieldDecl" and c.get("name"):
                k, el = st_field_kind(T, c)
                ct = None
                if k == "scalar":
                    try:
                        ct = T.ctype(c.get("type"))
                    except Untranslatable:
                        continue
                    if ct[0] not in ("i", "b"):
                        continue
                self.fields.append((c["name"], k, ct))
        self.by_name = {f[0]: f for f in self.fields}

    def struct(self):
        out = ["/-- state of `%s`: one field per data member -/" % self.qual, "structure %s_St where" % self.lean]
        for nm, k, ct in self.fields:
            ty = {"objvec": "List %s_St" % (self.elem.cls.lean if self.elem else "Unit"), "opkt": "OPkt"}.get(k) or ("Bool" if ct[0] == "b" else "Nat")
            out.append("  f_%s : %s" % (nm, ty))
        out.append("deriving Repr, Inhabited\n")
        return "\n".join(out)


class StFn(ObjFn):
    def __init__(self, OT, node):
        ObjFn.__init__(self, OT, node)
        self.opkts = {}        # decl id of a packet parameter -> lean name
        self.elemvars = {}     # decl id of a lambda parameter / local object of the element class -> lean name
        self.iters = {}        # decl id of a local iterator obtained by find_if -> lean index expression

    # ---------------------------------------------------------------- entry: packet parameters are opaque tables
    def run_obj(self):
        n = self.node
        for c in n.get("inner", []):
            if c.get("kind") == "ParmVarDecl":
                q = c.get("type", {}).get("qualType", "")
                if strip_cv(q.rstrip("&").strip()) in ("ASAM::CMP::Packet", "Packet") and q.strip().endswith("&"):
                    self.opkts[c["id"]] = self.vname(c.get("name"), "a_")
        return ObjFn.run_obj(self)

    # ---------------------------------------------------------------- opaque packet chains
    def chain(self, n):
        """(lean packet expression, key) if n is a chain of member calls / reference casts rooted at an opaque packet"""
        while n.get("kind") in ("ParenExpr", "ImplicitCastExpr", "MaterializeTemporaryExpr", "CXXBindTemporaryExpr", "ExprWithCleanups") and n.get("castKind") not in ("UserDefinedConversion", "ConstructorConversion"):
            n = n["inner"][0]
        k = n.get("kind")
        if k == "DeclRefExpr" and n["referencedDecl"]["id"] in self.opkts:
            return (self.opkts[n["referencedDecl"]["id"]], "")
        f = self.this_field(n) if k == "MemberExpr" else None
        if f is not None and f[1] == "opkt":
            return ("s.f_%s" % f[0], "")
        if k == "CXXStaticCastExpr" and n.get("castKind") in ("BaseToDerived", "DerivedToBase", "NoOp"):
            r = self.chain(n["inner"][0])
            if r is not None:
                tgt = strip_cv(n["type"]["qualType"].rstrip("&").strip()).split("::")[-1]
                return (r[0], (r[1] + "." if r[1] else "") + "as_" + tgt)
        if k == "CXXMemberCallExpr" and len(n["inner"]) == 1:
            me = n["inner"][0]
            if me.get("kind") == "MemberExpr":
                base = me["inner"][0]
                b = base
                while b.get("kind") in ("ParenExpr", "ImplicitCastExpr"):
                    b = b["inner"][0]
                # element.getPacket(): a method of the element class whose body is `return <packet member>;`
                if b.get("kind") == "DeclRefExpr" and b["referencedDecl"]["id"] in self.elemvars:
                    fld = self.returns_member(me.get("referencedMemberDecl"), self.OT.elem)
                    if fld is not None and fld[1] == "opkt":
                        return ("%s.f_%s" % (self.elemvars[b["referencedDecl"]["id"]], fld[0]), "")
                    return None
                r = self.chain(base)
                if r is not None:
                    return (r[0], (r[1] + "." if r[1] else "") + me.get("name"))
        return None

    def returns_member(self, declid, OT):
        """the member a trivial accessor returns (`return member;`), looked up in translator OT's class"""
        if OT is None or declid is None:
            return None
        try:
            d = self.T.definition(declid)
        except Untranslatable:
            return None
        body = TU.body_of(d).get("inner", [])
        if len(body) != 1 or body[0].get("kind") != "ReturnStmt" or not body[0].get("inner"):
            return None
        e = body[0]["inner"][0]
        while e.get("kind") in ("ParenExpr", "ImplicitCastExpr"):
            e = e["inner"][0]
        if e.get("kind") == "MemberExpr" and e.get("isArrow") and e["inner"][0].get("kind") == "CXXThisExpr":
            return OT.cls.by_name.get(e.get("name"))
        return None

    # ---------------------------------------------------------------- vectors of objects
    def objvec_of(self, n):
        while n.get("kind") in ("ParenExpr", "ImplicitCastExpr", "MaterializeTemporaryExpr"):
            n = n["inner"][0]
        f = self.this_field(n) if n.get("kind") == "MemberExpr" else None
        if f is not None and f[1] == "objvec":
            return f[0]
        return None

    def elem_ref(self, n, B):
        """(vector field, index lean expr) if n is `this->vec[idx]`"""
        while n.get("kind") in ("ParenExpr", "ImplicitCastExpr", "MaterializeTemporaryExpr"):
            n = n["inner"][0]
        if n.get("kind") == "CXXOperatorCallExpr" and self.strip_casts(n["inner"][0]).get("referencedDecl", {}).get("name") == "operator[]":
            v = self.objvec_of(n["inner"][1])
            if v is not None:
                return v, self.ex(n["inner"][2], B)
        return None

    def lambda_pred(self, lam, vecfield):
        """Lean predicate `fun e_ => …` of a one-return lambda over the element class"""
        body = [c for c in lam.get("inner", []) if c.get("kind") == "CompoundStmt"]
        rec = [c for c in lam.get("inner", []) if c.get("kind") == "CXXRecordDecl"]
        if not body or not rec:
            raise Untranslatable("lambda shape")
        op = [c for c in rec[0].get("inner", []) if c.get("kind") == "CXXMethodDecl" and c.get("name") == "operator()"]
        params = [c for c in op[0].get("inner", []) if c.get("kind") == "ParmVarDecl"] if op else []
        stmts = body[-1].get("inner", [])
        if len(params) != 1 or len(stmts) != 1 or stmts[0].get("kind") != "ReturnStmt":
            raise Untranslatable("lambda shape")
        self.elemvars[params[0]["id"]] = "e_"
        B = []
        c = self.cond(stmts[0]["inner"][0], B)
        del self.elemvars[params[0]["id"]]
        if B:
            raise Untranslatable("lambda with effects")
        return "(fun e_ => %s)" % c

    # ---------------------------------------------------------------- expressions
    def ex(self, n, B):
        k = n.get("kind")
        x = n
        while x.get("kind") in ("ParenExpr", "ImplicitCastExpr", "MaterializeTemporaryExpr", "ExprWithCleanups", "CXXBindTemporaryExpr") and x.get("castKind") in (None, "IntegralCast", "NoOp", "LValueToRValue"):
            if x.get("castKind") == "IntegralCast":
                break
            x = x["inner"][0]
        xk = x.get("kind")
        # comparison of an opaque class-typed chain with an enumerator (PayloadType == PayloadType::cmStatMsg)
        if xk == "CXXOperatorCallExpr" and self.strip_casts(x["inner"][0]).get("referencedDecl", {}).get("name") in ("operator==", "operator!=") and len(x["inner"]) == 3:
            op = self.strip_casts(x["inner"][0])["referencedDecl"]["name"][-2:]
            for a, b in ((x["inner"][1], x["inner"][2]), (x["inner"][2], x["inner"][1])):
                r = self.chain(a)
                if r is not None:
                    c = b
                    while c.get("kind") in ("ImplicitCastExpr", "CXXConstructExpr", "MaterializeTemporaryExpr", "CXXFunctionalCastExpr", "ExprWithCleanups", "CXXBindTemporaryExpr") and c.get("inner"):
                        c = c["inner"][0]
                    try:
                        v = self.const_int(c)
                    except Untranslatable:
                        continue
                    return "((opq %s \"%s\") %s %d)" % (r[0], r[1], op, v)
        if xk == "CXXMemberCallExpr":
            r = self.chain(x)
            if r is not None and r[1] and self.ty_is_scalar(x):
                return "(opq %s \"%s\")" % r
            me = x["inner"][0]
            if me.get("kind") == "MemberExpr" and len(x["inner"]) == 1:
                v = self.objvec_of(me["inner"][0])
                if v is not None and me.get("name") == "size":
                    return "(s.f_%s).length" % v
                b = me["inner"][0]
                while b.get("kind") in ("ParenExpr", "ImplicitCastExpr"):
                    b = b["inner"][0]
                if b.get("kind") == "DeclRefExpr" and b["referencedDecl"]["id"] in self.elemvars:
                    fld = self.returns_member(me.get("referencedMemberDecl"), self.OT.elem)
                    if fld is not None and fld[1] == "scalar":
                        return "%s.f_%s" % (self.elemvars[b["referencedDecl"]["id"]], fld[0])
        if xk == "CallExpr":
            nm = self.strip_casts(x["inner"][0]).get("referencedDecl", {}).get("name")
            if nm == "distance" and len(x["inner"]) == 3:
                it = x["inner"][2]
                while it.get("kind") in ("ImplicitCastExpr", "CXXConstructExpr", "MaterializeTemporaryExpr") and it.get("inner"):
                    it = it["inner"][0]
                if it.get("kind") == "DeclRefExpr" and it["referencedDecl"]["id"] in self.iters:
                    return self.iters[it["referencedDecl"]["id"]]
        return ObjFn.ex(self, n, B)

    # ---------------------------------------------------------------- statements
    def stmt(self, s, k, ind):
        if s.get("kind") == "DeclStmt" and len(s.get("inner", [])) == 1:
            d = s["inner"][0]
            init = [c for c in d.get("inner", []) if c.get("kind") not in ("FullComment",)] if d.get("kind") == "VarDecl" else []
            if init:
                e = init[0]
                x = e
                while x.get("kind") in ("ExprWithCleanups", "MaterializeTemporaryExpr", "CXXBindTemporaryExpr", "ImplicitCastExpr", "CXXConstructExpr") and x.get("inner") and len(x["inner"]) == 1:
                    x = x["inner"][0]
                # iterator from std::find_if(vec.begin(), vec.end(), lambda)
                if x.get("kind") == "CallExpr" and self.strip_casts(x["inner"][0]).get("referencedDecl", {}).get("name") == "find_if" and len(x["inner"]) == 4:
                    def vec_of(it, which):
                        while it.get("kind") in ("ImplicitCastExpr", "MaterializeTemporaryExpr", "CXXConstructExpr") and it.get("inner"):
                            it = it["inner"][0]
                        if it.get("kind") == "CXXMemberCallExpr" and it["inner"][0].get("name") == which:
                            return self.objvec_of(it["inner"][0]["inner"][0])
                        return None
                    v1, v2 = vec_of(x["inner"][1], "begin"), vec_of(x["inner"][2], "end")
                    lam = x["inner"][3]
                    while lam.get("kind") != "LambdaExpr" and lam.get("inner"):
                        lam = lam["inner"][0]
                    if v1 is None or v1 != v2 or lam.get("kind") != "LambdaExpr":
                        raise Untranslatable("find_if shape")
                    self.iters[d["id"]] = "(findIdxD %s s.f_%s)" % (self.lambda_pred(lam, v1), v1)
                    return k(ind)
                # default-constructed local object of the element class
                EO = self.OT.elem
                qd = strip_cv(d.get("type", {}).get("desugaredQualType") or d.get("type", {}).get("qualType") or "")
                if EO is not None and e.get("kind") == "CXXConstructExpr" and not e.get("inner") and (qd == EO.cls.qual or EO.cls.qual.endswith("::" + qd)):
                    nm = self.vname(d["name"])
                    self.elemvars[d["id"]] = nm
                    self.local_ty[nm] = "%s_St" % EO.cls.lean
                    return "  " * ind + "let %s := %s_default\n" % (nm, EO.cls.lean) + k(ind)
        return ObjFn.stmt(self, s, k, ind)

    def effect(self, s, B):
        k = s.get("kind")
        if k in ("ExprWithCleanups", "ParenExpr"):
            return self.effect(s["inner"][0], B)
        # packet member = packet
        if k == "CXXOperatorCallExpr" and self.strip_casts(s["inner"][0]).get("referencedDecl", {}).get("name") == "operator=" and len(s["inner"]) == 3:
            f = self.this_field(s["inner"][1]) if self.strip_casts(s["inner"][1]).get("kind") == "MemberExpr" else None
            r = self.chain(s["inner"][2])
            if f is not None and f[1] == "opkt" and r is not None and r[1] == "":
                B.append("let s := { s with f_%s := %s }" % (f[0], r[0]))
                return
        if k == "CallExpr" and self.strip_casts(s["inner"][0]).get("referencedDecl", {}).get("name") == "swap" and len(s["inner"]) == 3:
            a, b = self.elem_ref(s["inner"][1], B), self.elem_ref(s["inner"][2], B)
            if a is not None and b is not None and a[0] == b[0]:
                t = self.fresh()
                B.append("let %s ← swapIdx s.f_%s %s %s" % (t, a[0], a[1], b[1]))
                B.append("let s := { s with f_%s := %s }" % (a[0], t))
                return
            raise Untranslatable("swap shape")
        return ObjFn.effect(self, s, B)

    def call(self, n, B, want_value):
        inner = n["inner"]
        if n["kind"] == "CXXMemberCallExpr":
            me = inner[0]
            while me.get("kind") in ("ParenExpr", "ImplicitCastExpr"):
                me = me["inner"][0]
            if me.get("kind") == "MemberExpr":
                nm = me.get("name")
                v = self.objvec_of(me["inner"][0])
                if v is not None:
                    if nm == "clear" and len(inner) == 1:
                        B.append("let s := { s with f_%s := [] }" % v)
                        return None
                    if nm == "pop_back" and len(inner) == 1:
                        B.append("let _ ← nonEmptyL s.f_%s" % v)
                        B.append("let s := { s with f_%s := (s.f_%s).dropLast }" % (v, v))
                        return None
                    if nm == "push_back" and len(inner) == 2:
                        a = inner[1]
                        while a.get("kind") in ("ImplicitCastExpr", "MaterializeTemporaryExpr", "CXXBindTemporaryExpr", "ExprWithCleanups", "CXXConstructExpr") and a.get("inner") and len(a["inner"]) == 1:
                            a = a["inner"][0]
                        if a.get("kind") == "CallExpr" and self.strip_casts(a["inner"][0]).get("referencedDecl", {}).get("name") == "move":
                            a = a["inner"][1]
                            while a.get("kind") in ("ImplicitCastExpr", "ParenExpr"):
                                a = a["inner"][0]
                        if a.get("kind") == "DeclRefExpr" and a["referencedDecl"]["id"] in self.elemvars:
                            B.append("let s := { s with f_%s := s.f_%s ++ [%s] }" % (v, v, self.elemvars[a["referencedDecl"]["id"]]))
                            return None
                        raise Untranslatable("push_back argument")
                # method of an element: this->vec[idx].m(args)  /  localElement.m(args)
                er = self.elem_ref(me["inner"][0], B)
                b = me["inner"][0]
                while b.get("kind") in ("ParenExpr", "ImplicitCastExpr"):
                    b = b["inner"][0]
                loc = self.elemvars.get(b["referencedDecl"]["id"]) if b.get("kind") == "DeclRefExpr" else None
                if er is not None or loc is not None:
                    EO = self.OT.elem
                    g = EO.translate(self.T.definition(me["referencedMemberDecl"]))
                    argv = []
                    for a in inner[1:]:
                        r = self.chain(a)
                        argv.append(r[0] if (r is not None and r[1] == "") else self.ex(a, B))
                    rr = self.fresh()
                    if er is not None:
                        e = self.fresh("el")
                        B.append("let %s ← getIdx s.f_%s %s" % (e, er[0], er[1]))
                        B.append("let (%s, %s) ← %s_obj %s %s" % (e, rr, g.lean, e, " ".join(argv)))
                        B.append("let s := { s with f_%s := (s.f_%s).set %s %s }" % (er[0], er[0], er[1], e))
                    else:
                        B.append("let (%s, %s) ← %s_obj %s %s" % (loc, rr, g.lean, loc, " ".join(argv)))
                    return None if g.ret[0] == "v" else rr
                # method of the same object taking packets
                base = me["inner"][0]
                while base.get("kind") in ("ParenExpr", "ImplicitCastExpr"):
                    base = base["inner"][0]
                if base.get("kind") == "CXXThisExpr" and me.get("isArrow"):
                    g = self.OT.translate(self.T.definition(me["referencedMemberDecl"]))
                    argv = []
                    for a in inner[1:]:
                        r = self.chain(a)
                        argv.append(r[0] if (r is not None and r[1] == "") else self.ex(a, B))
                    if len(argv) != len(g.params):
                        raise Untranslatable("argument count")
                    callc = "%s_obj s %s" % (g.lean, " ".join(argv))
                    if g.ret[0] == "v":
                        B.append("let (s, _) ← %s" % callc)
                        return None
                    rr = self.fresh()
                    B.append("let (s, %s) ← %s" % (rr, callc))
                    return rr
        return ObjFn.call(self, n, B, want_value)


class StTranslator(ObjTranslator):
    def __init__(self, T, class_qual, elem=None):
        self.T = T
        self.elem = elem
        rec = None
        for r in T.tu.records():
            if T.tu.qualname(r) == class_qual:
                rec = r
        if rec is None:
            raise Untranslatable("class %s not found" % class_qual)
        self.cls = StClassInfo(T, rec, elem)
        self.fns = {}
        self.order = []
        self.failed = {}

    def translate(self, defnode):
        key = id(defnode)
        if key in self.fns:
            f = self.fns[key]
            if isinstance(f, Untranslatable):
                raise f
            if f is None:
                raise Untranslatable("recursive call")
            return f
        self.fns[key] = None
        try:
            f = StFn(self, defnode).run_obj()
            f.params = [(nm, t) for nm, t in f.params]
        except Untranslatable as e:
            self.fns[key] = e
            self.failed[self.T.tu.qualname(defnode) + " " + defnode.get("type", {}).get("qualType", "")[:40]] = str(e)
            raise
        self.fns[key] = f
        self.order.append(f)
        return f

    def default_state(self):
        vals = []
        h = StFn(self, self.cls.rec)
        for nm, k, ct in self.cls.fields:
            if k == "objvec":
                vals.append("f_%s := []" % nm)
            elif k == "opkt":
                vals.append("f_%s := defaultPacket" % nm)
            else:
                fd = [x for x in self.cls.rec.get("inner", []) if x.get("kind") == "FieldDecl" and x.get("name") == nm][0]
                init = [x for x in fd.get("inner", []) if x.get("kind") not in ("FullComment",)]
                e0 = init[0] if init else None
                while e0 is not None and e0.get("kind") == "InitListExpr" and len(e0.get("inner", [])) == 1:
                    e0 = e0["inner"][0]
                if e0 is None:
                    raise Untranslatable("member %s without default initialiser" % nm)
                B = []
                vals.append("f_%s := %s" % (nm, "0" if (e0.get("kind") == "InitListExpr") else h.ex(e0, B)))
        return "def %s_default : %s_St := { %s }\n" % (self.cls.lean, self.cls.lean, ", ".join(vals))
